"""C09, extension streams: data statements (a) on segments that are not byte addressable and DN (nibbles),
(b) under an active CHARSET/CODEPAGE character map, (c) with single-quoted character constants.

Called from c09.run().  A case is an ORG-separated slot: optional CHARSET statements (inside a private CODEPAGE
or framed by `charset` resets), 1..2 data statements and a sentinel.  The real assembler's code file is read
back per slot as (byte offset, byte) cells (record start * record granularity), and the Lean driver (mode `c09x`)
compares them with Model/DataExt.lean (B) and Spec/DataExt.lean (C).  Granularity and TurnWords of a target are not
given by this harness: the driver looks them up in Generated/ListParams.lean (dumped from the current build).

Input classes (see `stats`/`distribution` in the evidence):
 * reservation forms (`?`, nested DUP groups of `?`, DS) of DN/DB/DW/DD/DQ/DT on AVR CODE and KCPSM CODE (16-bit
   units), KCPSM3 CODE (32-bit units), DN on byte-granular targets (two nibbles per byte), with groups that start
   and end anywhere inside a unit;
 * constant forms of the same statements: packing of nibbles/bytes into units (little and big endian), constant
   DUP groups that start inside a unit, whole-unit elements (DW/DD/DQ/DT incl. floats) on 16-bit units, final padding;
 * the same statements in a non-CODE byte-granular segment of a word-granular target (AVR EEDATA);
 * strings in FCC/FCB/BYT/ADR/FDB/DC.x with `[n]` and in DB/DW/DD/DQ/DT with (nested) DUP under CHARSET maps that
   are not idempotent (shifts, chains, permutations, maps onto 0 / codes >= 128), inside CODEPAGEs;
 * single-quoted character constants ('a', 'ab', ... up to one character more than the operand size) in all of them.
"""
import os
from collections import Counter

from .. import common

SEG_CODE = 1
SEG_EEDATA = 10

# syn: 'moto' ($hex), 'intel' (0ffh), 'c' (0xff)
XT = [
    dict(name="avr", cpu="atmega8", key="ATMEGA8", seg=SEG_CODE, gran=2, lg=2, syn="c", fams=["ix"], mturn=0, ibig=0, sbig=0, pre=[],
         padding=False, slot=0x40, nslot=56, base=0x40, weight=24),
    dict(name="avr-eedata", cpu="atmega8", key="ATMEGA8", seg=SEG_EEDATA, gran=1, lg=1, syn="c", fams=["ix"], mturn=0, ibig=0, sbig=0,
         pre=["\tsegment eedata"], padding=False, slot=0x20, nslot=14, base=0x20, weight=4),
    dict(name="kcpsm", cpu="kcpsm", key="KCPSM", seg=SEG_CODE, gran=2, lg=2, syn="intel", fams=["ix"], mturn=0, ibig=1, sbig=1, pre=[],
         padding=False, slot=0x20, nslot=7, base=0x10, weight=10),
    dict(name="kcpsm3", cpu="kcpsm3", key="KCPSM3", seg=SEG_CODE, gran=4, lg=4, syn="intel", fams=["ixres"], mturn=0, ibig=1, sbig=1, pre=[],
         padding=False, slot=0x10, nslot=60, base=0x10, weight=5, marker="\treturn"),
    dict(name="z80", cpu="z80", key="Z80", seg=SEG_CODE, gran=1, lg=1, syn="intel", fams=["ix"], mturn=0, ibig=0, sbig=0, pre=[],
         padding=False, slot=0x100, nslot=60, base=0x400, weight=11),
    dict(name="8051be", cpu="8051", key="8051", seg=SEG_CODE, gran=1, lg=1, syn="intel", fams=["ix"], mturn=0, ibig=1, sbig=1,
         pre=["\tbigendian on"], padding=False, slot=0x100, nslot=60, base=0x400, weight=8),
    dict(name="8086", cpu="8086", key="8086", seg=SEG_CODE, gran=1, lg=1, syn="intel", fams=["ix"], mturn=0, ibig=0, sbig=0, pre=[],
         padding=False, slot=0x100, nslot=60, base=0x400, weight=6),
    dict(name="6809", cpu="6809", key="6809", seg=SEG_CODE, gran=1, lg=1, syn="moto", fams=["m8", "m8", "dc"], mturn=1, ibig=0, sbig=1, pre=[],
         padding=True, slot=0x100, nslot=60, base=0x400, weight=13),
    dict(name="68hc12", cpu="68hc12", key="68HC12", seg=SEG_CODE, gran=1, lg=1, syn="moto", fams=["m8", "dc"], mturn=1, ibig=0, sbig=1, pre=[],
         padding=True, slot=0x100, nslot=60, base=0x400, weight=6),
    dict(name="6502", cpu="6502", key="6502", seg=SEG_CODE, gran=1, lg=1, syn="moto", fams=["m8"], mturn=0, ibig=0, sbig=0, pre=[],
         padding=False, slot=0x100, nslot=60, base=0x400, weight=6),
    dict(name="68000", cpu="68000", key="68000", seg=SEG_CODE, gran=1, lg=2, syn="moto", fams=["dc"], mturn=1, ibig=0, sbig=1, pre=[],
         padding=True, slot=0x100, nslot=60, base=0x400, weight=7),
]

# (mnemonic, bits, intOK, flt)
IX_KINDS = [("dn", 4, 1, "-"), ("db", 8, 1, "-"), ("dw", 16, 1, "h"), ("dd", 32, 1, "s"), ("dq", 64, 1, "d"), ("dt", 80, 0, "t")]
DC_KINDS = [("b", 1, 1, "-"), ("w", 2, 1, "-"), ("l", 4, 1, "-"), ("q", 8, 1, "-"), ("c", 2, 0, "h"), ("s", 4, 0, "s"), ("d", 8, 0, "d")]

LETTERS = b"abcdefghijklmnopqrstuvwxyz"
ALPHA = b"abcdefghijklmnopqrstuvwxyzABCDEFGHIJKLMNOPQRSTUVWXYZ0123456789 .:-+*#"


# ------------------------------------------------------------------ serialisation (arguments as tuples)
# ("i", v) ("s", bytes) ("c", bytes) ("f", bits) ("q",) ("r", n, arg) ("d", n, [args])

def ser_arg(a):
    t = a[0]
    if t == "i":
        return ["i%d" % a[1]]
    if t in ("s", "c"):
        return [t + (a[1].hex() if a[1] else "-")]
    if t == "f":
        return ["f%016x" % a[1]]
    if t == "q":
        return ["q"]
    if t == "r":
        return ["r%d" % a[1]] + ser_arg(a[2])
    if t == "d":
        out = ["d%d,%d" % (a[1], len(a[2]))]
        for x in a[2]:
            out += ser_arg(x)
        return out
    raise AssertionError(t)


def ser_stmt(st):
    k = st["k"]
    if k == "DC":
        out = [k, str(st["bytes"]), str(st["intOK"]), st["flt"], str(len(st["args"]))]
    elif k == "IX":
        out = [k, str(st["bits"]), str(st["intOK"]), st["flt"], str(len(st["args"]))]
    elif k in ("BYT", "ADR", "FCC"):
        out = [k, str(len(st["args"]))]
    elif k == "RAW":
        return [k, st["bytes"].hex()]
    else:
        return [k, str(st["n"])]
    for a in st["args"]:
        out += ser_arg(a)
    return out


def ser_csop(o):
    if o[0] == "reset":
        return ["CR"]
    if o[0] == "range":
        return ["CG", str(o[1]), str(o[2]), str(o[3])]
    if o[0] == "one":
        return ["C1", str(o[1]), str(o[2])]
    return ["CS", str(o[1]), o[2].hex()]


def src_int(rng, v, syn):
    if rng.random() < 0.6:
        return str(v)
    a = abs(v)
    if syn == "moto":
        h = "$%x" % a
    elif syn == "c":
        h = "0x%x" % a
    else:
        h = "%xh" % a
        if not h[0].isdigit():
            h = "0" + h
    return ("-" + h) if v < 0 else h


def src_arg(c09, rng, a, syn):
    t = a[0]
    if t == "i":
        return src_int(rng, a[1], syn)
    if t == "s":
        return '"%s"' % a[1].decode("ascii")
    if t == "c":
        return "'%s'" % a[1].decode("ascii")
    if t == "f":
        return c09.src_float(a[1])
    if t == "q":
        return "?"
    if t == "r":
        return "[%d]%s" % (a[1], src_arg(c09, rng, a[2], syn))
    if t == "d":
        cnt = src_int(rng, a[1], syn) if a[1] >= 0 else "(%d)" % a[1]
        return "%s dup (%s)" % (cnt, ",".join(src_arg(c09, rng, x, syn) for x in a[2]))
    raise AssertionError(t)


def src_stmt(c09, rng, st, syn):
    k = st["k"]
    if k == "RAW":
        return st["src"]
    if k in ("DFS", "DS"):
        return "\t%s %d" % (st["op"], st["n"])
    op = ("dc." + st["attr"]) if k == "DC" else st["op"]
    return "\t%s %s" % (op, ",".join(src_arg(c09, rng, a, syn) for a in st["args"]))


def src_csop(o):
    if o[0] == "reset":
        return "\tcharset"
    if o[0] == "range":
        return "\tcharset %d,%d,%d" % (o[1], o[2], o[3])
    if o[0] == "one":
        return "\tcharset %d,%d" % (o[1], o[2])
    return '\tcharset %d,"%s"' % (o[1], o[2].decode("ascii"))


# ------------------------------------------------------------------ generators

def gen_charset(rng, stats):
    """list of CHARSET operations (valid statements); most maps are not idempotent on the letters"""
    r = rng.random()
    ops = []
    if r < 0.22:
        stats["cs:identity"] += 1
        return ops
    n = 1 if rng.random() < 0.7 else 2
    for _ in range(n):
        r = rng.random()
        if r < 0.36:
            f = rng.choice([97, 97, 98, 100, 65, 48, 32])
            l = min(255, f + rng.choice([0, 1, 2, 5, 12, 24]))
            r2 = rng.random()
            if r2 < 0.45:
                s = f + rng.choice([1, 1, 2, 3])                  # shift: a->b, b->c ... (a chain)
                stats["cs:shift-range"] += 1
            elif r2 < 0.6:
                s = f - 32 if f >= 97 else f + 32               # case change (idempotent)
                stats["cs:case-range"] += 1
            elif r2 < 0.75:
                s = max(0, f - rng.choice([1, 2]))              # shift down, may reach 0
                stats["cs:shift-down-range"] += 1
            else:
                s = rng.choice([0, 1, 128, 200, 255 - (l - f)])
                stats["cs:far-range"] += 1
            s = max(0, min(s, 255 - (l - f)))
            ops.append(("range", f, l, s))
        elif r < 0.6:
            i = rng.choice(list(LETTERS[:8]) + [65, 48, 32])
            v = rng.choice([i + 1, i + 1, i + 2, 0, 255, 128, rng.randrange(256)])
            stats["cs:single-entry"] += 1
            ops.append(("one", i, v & 255))
            if rng.random() < 0.5:                              # second link of a chain: a->b, b->c
                ops.append(("one", (i + 1) & 255, (i + 2) & 255))
        else:
            i = rng.choice([97, 97, 98, 65])
            ln = rng.choice([2, 3, 5, 8, 26])
            src = bytes(range(i, i + ln))
            r2 = rng.random()
            if r2 < 0.5:
                tgt = src[1:] + src[:1]                         # cyclic rotation of the range: no fixed point
                stats["cs:string-rotation"] += 1
            elif r2 < 0.8:
                lst = list(src)
                rng.shuffle(lst)
                tgt = bytes(lst)
                stats["cs:string-permutation"] += 1
            else:
                tgt = bytes(rng.choice(b"0123456789ABCDEFxyz") for _ in range(ln))
                stats["cs:string-other"] += 1
            ops.append(("str", i, tgt))
    if rng.random() < 0.1:
        ops.insert(0, ("reset",))
    return ops[:3]


def rand_string(rng, maxlen=6, letters=0.75):
    n = rng.choice([0, 1, 1, 2, 3, 3, 5, maxlen])
    pool = LETTERS[:10] if rng.random() < letters else ALPHA
    return bytes(rng.choice(pool) for _ in range(n))


def rand_chr(rng, opsize, stats):
    """single-quoted constant: 1 .. opsize+1 characters"""
    n = rng.choice([1, 1, 2, opsize, opsize, opsize + 1, max(1, opsize - 1), rng.randrange(1, opsize + 2)])
    n = max(1, min(n, 9))
    stats["chr_len_%s" % ("le_opsize" if n <= opsize else "gt_opsize")] += 1
    return ("c", bytes(rng.choice(LETTERS[:10]) for _ in range(n)))


def int_leaf(c09, rng, bits, bad):
    if bits == 4:
        if bad:
            return ("i", rng.choice([16, -9, 17, 255, -16, 100]))
        return ("i", rng.choice([0, 1, 7, 8, 15, -1, -8, rng.randrange(-8, 16), rng.randrange(0, 16)]))
    return ("i", c09.int_pool(rng, bits, bad))


def gen_ix_leaf(c09, rng, bits, intOK, flt, stats, cs_active, bad):
    r = rng.random()
    if bits == 80 or (flt != "-" and r < 0.12):
        if bits == 80 and r < 0.25:
            stats["ix:int_as_float"] += 1
            return ("i", rng.choice([0, 1, -1, 2, 100, -7, 65504, 1 << 20]))
        if bits == 80 and r < 0.4:
            stats["ix:string"] += 1
            return ("s", rand_string(rng, 3)) if r < 0.33 else ("c", bytes(rng.choice(LETTERS[:10]) for _ in range(rng.choice([1, 2, 4]))))
        stats["ix:float"] += 1
        return ("f", c09.float_pool(rng, flt, stats))
    if bits >= 8:
        ps = 0.45 if cs_active else 0.15
        if r > 1 - ps:
            if rng.random() < 0.7:
                stats["ix:string"] += 1
                return ("s", rand_string(rng))
            stats["ix:chr"] += 1
            return rand_chr(rng, bits // 8, stats)
    elif r > 0.97:
        stats["ix:string_in_dn"] += 1
        return ("s", b"a") if rng.random() < 0.5 else ("c", b"a")
    isbad = bad and rng.random() < 0.4
    if isbad:
        stats["ix:int_out_of_range"] += 1
    stats["ix:int"] += 1
    return int_leaf(c09, rng, bits, isbad)


def gen_ix_arg(c09, rng, kind, stats, depth, reserve, cs_active, bad):
    op, bits, intOK, flt = kind
    r = rng.random()
    if depth < 3 and r < (0.42 if depth == 0 else 0.25):
        stats["ix:dup"] += 1
        stats["ix:dup_depth_%d" % (depth + 1)] += 1
        cnt = rng.choice([0, 1, 2, 2, 3, 3, 4, 5]) if rng.random() < 0.95 else -1
        inner = [gen_ix_arg(c09, rng, kind, stats, depth + 1, reserve, cs_active, bad) for _ in range(rng.choice([1, 1, 2, 2, 3]))]
        return ("d", cnt, inner)
    if reserve:
        return ("q",)
    return gen_ix_leaf(c09, rng, bits, intOK, flt, stats, cs_active, bad)


def gen_ix(c09, rng, tgt, stats, cs_active, reserve_only=False):
    g = tgt["gran"]
    r = rng.random()
    if r < 0.05 and not reserve_only:
        stats["ix:ds"] += 1
        return dict(k="DS", op="ds", n=rng.choice([1, 2, 3, 4, 5, 7, 16]))
    if g > 1:
        kind = rng.choice([IX_KINDS[0]] * 4 + [IX_KINDS[1]] * 5 + [IX_KINDS[2]] * 2 + IX_KINDS[3:])
    elif cs_active:
        kind = rng.choice([IX_KINDS[0]] * 2 + [IX_KINDS[1]] * 5 + IX_KINDS[2:])
    else:
        kind = rng.choice([IX_KINDS[0]] * 6 + IX_KINDS[1:])
    if reserve_only and kind[1] == 80:
        kind = IX_KINDS[rng.randrange(0, 5)]        # DT on 32-bit units: 80 bits are not a whole number of units (not generated)
    op, bits, intOK, flt = kind
    if not reserve_only and bits <= 8 and rng.random() < 0.15:
        # lane sweep of the packers (DN: 2 per byte / 4 per 16-bit unit, DB: 2 per 16-bit unit): a flat list of elements, a boundary
        # value (negative limit, -1, unsigned limit) at a chosen position inside the packed unit, the neighbours random
        n = rng.choice([2, 3, 4, 4, 5, 6, 8])
        lo, hi = -(1 << (bits - 1)), (1 << bits) - 1
        args = [("i", rng.randrange(lo, hi + 1)) for _ in range(n)]
        p = rng.randrange(n)
        args[p] = ("i", rng.choice([lo, lo, -1, -1, hi, (1 << (bits - 1)) - 1, 1 << (bits - 1), lo + 1]))
        if cs_active and bits == 8 and rng.random() < 0.4:
            args[rng.randrange(n)] = ("s", rand_string(rng, 3))
        stats["ix:sweep_%s_%s_at_%d_mod_%d" % (op, "neg" if args[p][0] == "i" and args[p][1] < 0 else "other", p % (16 // bits if g > 1 else 8 // bits), (16 // bits if g > 1 else max(1, 8 // bits)))] += 1
        stats["ix:const_stmt"] += 1
        stats["ix:%s@gran%d" % (op, g)] += 1
        return dict(k="IX", op=op, bits=bits, intOK=intOK, flt=flt, args=args)
    reserve = reserve_only or rng.random() < (0.4 if g > 1 or bits == 4 else 0.12)
    st = dict(k="IX", op=op, bits=bits, intOK=intOK, flt=flt, args=[])
    bad = rng.random() < 0.12
    for _ in range(rng.choice([1, 1, 2, 2, 3, 4, 5])):
        st["args"].append(gen_ix_arg(c09, rng, kind, stats, 0, reserve, cs_active, bad))
    if reserve:
        stats["ix:reserve_stmt"] += 1
    else:
        stats["ix:const_stmt"] += 1
    if rng.random() < 0.03 and not reserve_only:
        stats["ix:mixed"] += 1
        st["args"].append(("i", 1) if reserve else ("q",))
    stats["ix:%s@gran%d" % (op, g)] += 1
    return st


def gen_m8(c09, rng, tgt, stats, cs_active):
    r = rng.random()
    if r < 0.4:
        st = dict(k="FCC", op="fcc", args=[])
        for _ in range(rng.choice([1, 1, 2, 3])):
            a = ("s", rand_string(rng, 10)) if rng.random() < 0.85 else ("c", rand_string(rng, 4) or b"a")
            if rng.random() < 0.55:
                stats["m8:rep"] += 1
                a = ("r", rng.choice([0, 1, 2, 2, 3, 5]), a)
            st["args"].append(a)
        stats["m8:fcc"] += 1
        return st
    if r < 0.72:
        st = dict(k="BYT", op=rng.choice(["byt", "fcb"]), args=[])
        w = 1
    else:
        st = dict(k="ADR", op=rng.choice(["adr", "fdb"]), args=[])
        w = 2
    stats["m8:" + st["k"].lower()] += 1
    if rng.random() < 0.06:
        for _ in range(rng.choice([1, 2, 3])):
            st["args"].append(("r", rng.choice([0, 1, 2, 5]), ("q",)) if rng.random() < 0.5 else ("q",))
        return st
    for _ in range(rng.choice([1, 1, 2, 3, 4])):
        r2 = rng.random()
        if r2 < 0.5:
            a = ("s", rand_string(rng))
        elif r2 < 0.72:
            a = rand_chr(rng, w, stats)
        else:
            a = ("i", c09.int_pool(rng, 8 * w, rng.random() < 0.06))
        if rng.random() < 0.45:
            stats["m8:rep"] += 1
            a = ("r", rng.choice([0, 1, 2, 2, 3, 4]), a)
        st["args"].append(a)
    return st


def gen_dc(c09, rng, tgt, stats, cs_active):
    attr, bytes_, intOK, flt = rng.choice(DC_KINDS[:4] * 3 + DC_KINDS[4:])
    st = dict(k="DC", attr=attr, bytes=bytes_, intOK=intOK, flt=flt, args=[])
    stats["dc:." + attr] += 1
    for _ in range(rng.choice([1, 1, 2, 3])):
        r2 = rng.random()
        if r2 < 0.5:
            a = ("s", rand_string(rng, 5))
        elif r2 < 0.75:
            a = rand_chr(rng, bytes_ if intOK else min(bytes_, 3), stats)
        elif intOK:
            a = ("i", c09.int_pool(rng, 8 * bytes_, rng.random() < 0.06))
        else:
            a = ("f", c09.float_pool(rng, flt, stats))
        if rng.random() < 0.45:
            stats["dc:rep"] += 1
            a = ("r", rng.choice([0, 1, 2, 2, 3]), a)
        st["args"].append(a)
    return st


def sentinel(tgt):
    if "marker_bytes" in tgt:
        return dict(k="RAW", bytes=tgt["marker_bytes"], src=tgt["marker"])
    if tgt["fams"][0] in ("ix", "ixres"):
        return dict(k="IX", op="db", bits=8, intOK=1, flt="-", args=[("i", 0xa5)])
    if "m8" in tgt["fams"]:
        return dict(k="BYT", op="fcb", args=[("i", 0xa5)])
    return dict(k="DC", attr="b", bytes=1, intOK=1, flt="-", args=[("i", 0xa5)])


def est_bytes(st):
    def asz(a, eb):
        t = a[0]
        if t in ("i", "f", "q"):
            return eb
        if t in ("s", "c"):
            return eb * max(1, len(a[1]))
        if t == "r":
            return max(0, a[1]) * asz(a[2], eb)
        if t == "d":
            return max(0, a[1]) * sum(asz(x, eb) for x in a[2])
    if st["k"] == "RAW":
        return len(st["bytes"])
    if st["k"] in ("DFS", "DS"):
        return st["n"] * st.get("unit", 1)
    if st["k"] == "IX":
        eb = max(1, st["bits"] // 8)
    else:
        eb = st.get("bytes") or (2 if st["k"] == "ADR" else 1)
    return sum(asz(a, eb) for a in st["args"]) + 4


def gen_case(c09, rng, tgt, stats, tries=0):
    fam = rng.choice(tgt["fams"])
    ops = [] if fam == "ixres" else gen_charset(rng, stats)
    cs_active = bool([o for o in ops if o[0] != "reset"])
    padding = tgt["padding"] and rng.random() < 0.7
    pc0 = rng.choice([0, 0, 1])
    stmts = []
    n = 1 if rng.random() < 0.7 else 2
    for _ in range(n):
        if fam == "ix":
            stmts.append(gen_ix(c09, rng, tgt, stats, cs_active))
        elif fam == "ixres":
            stmts.append(gen_ix(c09, rng, tgt, stats, False, reserve_only=True))
        elif fam == "m8":
            stmts.append(gen_m8(c09, rng, tgt, stats, cs_active))
        else:
            stmts.append(gen_dc(c09, rng, tgt, stats, cs_active))
    for s in stmts:
        if s["k"] == "DS":
            s["unit"] = tgt["gran"]
    stmts.append(sentinel(tgt))
    if sum(est_bytes(s) for s in stmts) + 8 > (tgt["slot"] - 2) * tgt["gran"]:
        if tries > 30:
            stmts = [dict(k="IX", op="db", bits=8, intOK=1, flt="-", args=[("q",), ("d", 3, [("q",)])])] if fam in ("ix", "ixres") \
                else [dict(k="BYT", op="fcb", args=[("r", 2, ("s", b"ab"))])]
            stmts.append(sentinel(tgt))
        else:
            return gen_case(c09, rng, tgt, stats, tries + 1)
    frame = "codepage" if (ops and rng.random() < 0.4) else "charset"
    return dict(tgt=tgt, padding=padding, pc0=pc0, stmts=stmts, csops=ops, frame=frame)


def hand_cases():
    """fixed regression inputs: one representative per class, the witnesses of the recorded findings"""
    T = {t["name"]: t for t in XT}
    out = []

    def add(tn, stmts, csops=(), padding=False, pc0=0, frame="charset"):
        out.append(dict(tgt=T[tn], padding=padding, pc0=pc0, stmts=stmts + [sentinel(T[tn])], csops=list(csops), frame=frame, hand=True))
    Q = ("q",)
    DB = dict(k="IX", op="db", bits=8, intOK=1, flt="-")
    DN = dict(k="IX", op="dn", bits=4, intOK=1, flt="-")
    DW = dict(k="IX", op="dw", bits=16, intOK=1, flt="h")
    DQ = dict(k="IX", op="dq", bits=64, intOK=1, flt="d")
    shift = [("range", 97, 121, 98)]
    for tn in ("avr", "kcpsm"):
        add(tn, [dict(DB, args=[Q, ("d", 3, [Q])])])
        add(tn, [dict(DN, args=[Q, Q, Q, ("d", 2, [Q, Q])])])
        add(tn, [dict(DB, args=[("d", 2, [Q]), ("d", 2, [Q])])])
        add(tn, [dict(DB, args=[("i", 1), ("d", 2, [("i", 2), ("i", 3)]), ("i", 4)])])
        add(tn, [dict(DN, args=[("i", 1), ("d", 2, [("i", 2), ("i", 3), ("i", 4)]), ("i", 5)])])
        add(tn, [dict(DW, args=[("i", 0x1234), ("f", 0x3ff0000000000000)])])
        add(tn, [dict(DB, args=[("s", b"abc"), ("d", 2, [("s", b"ab")])])], csops=shift)
    add("z80", [dict(DN, args=[Q, ("d", 3, [Q])])])
    add("8051be", [dict(DN, args=[("i", 1), ("i", 2), ("i", 3)])])
    add("z80", [dict(DB, args=[("d", 3, [("s", b"abc")]), ("c", b"a"), ("c", b"ab")])], csops=shift)
    add("z80", [dict(DW, args=[("c", b"ab"), ("s", b"ab"), ("c", b"abc")])], csops=shift, frame="codepage")
    add("kcpsm3", [dict(DB, args=[Q, Q, Q, Q, Q])])
    add("kcpsm3", [dict(DN, args=[("d", 5, [Q]), ("d", 4, [Q])])])
    FCC = dict(k="FCC", op="fcc")
    add("6809", [dict(FCC, args=[("r", 3, ("s", b"abc"))])], csops=shift)
    add("6809", [dict(FCC, args=[("r", 2, ("s", b"ab")), ("s", b"c")]), dict(k="BYT", op="fcb", args=[("r", 2, ("s", b"abc"))])], csops=shift)
    add("6502", [dict(k="ADR", op="adr", args=[("r", 2, ("s", b"ab")), ("c", b"ab"), ("c", b"abc")])], csops=shift, frame="codepage")
    add("68000", [dict(k="DC", attr="w", bytes=2, intOK=1, flt="-", args=[("r", 2, ("s", b"abc")), ("c", b"ab")])], csops=shift, padding=True, pc0=1)
    add("68000", [dict(k="DC", attr="s", bytes=4, intOK=0, flt="s", args=[("r", 2, ("s", b"ab")), ("c", b"ab")])], csops=shift)
    # witnesses of the recorded findings
    add("avr", [dict(k="DS", op="ds", n=3, unit=2)])
    add("8086", [dict(DQ, args=[("c", b"abcde")])])
    add("68000", [dict(k="DC", attr="q", bytes=8, intOK=1, flt="-", args=[("c", b"abcdefgh")])])
    return out


# ------------------------------------------------------------------ running the real assembler

def org_src(tgt, addr):
    if tgt["syn"] == "moto":
        return "\torg $%x" % addr
    if tgt["syn"] == "c":
        return "\torg 0x%x" % addr
    return "\torg 0%xh" % addr


def build_source(c09, rng, tgt, cases, skip=()):
    lines = ["\tcpu %s" % tgt["cpu"]] + list(tgt["pre"])
    line_case = {}
    cur_pad = None
    for idx, c in enumerate(cases):
        if idx in skip:
            continue
        if tgt["padding"] and cur_pad != c["padding"]:
            lines.append("\tpadding %s" % ("on" if c["padding"] else "off"))
            cur_pad = c["padding"]
        if "srcs" not in c:
            c["srcs"] = [src_stmt(c09, rng, st, tgt["syn"]) for st in c["stmts"]]
            c["cs_srcs"] = [src_csop(o) for o in c["csops"]]
            if c["csops"]:
                if c["frame"] == "codepage":
                    c["cs_srcs"] = ["\tcodepage cp%d,standard" % rng.randrange(1 << 30)] + c["cs_srcs"]
                    c["cs_end"] = ["\tcodepage standard"]
                else:
                    c["cs_end"] = ["\tcharset"]
            else:
                c["cs_end"] = []
        for l in c["cs_srcs"]:
            lines.append(l)
            line_case[len(lines)] = ("frame", idx)
        lines.append(org_src(tgt, tgt["base"] + idx * tgt["slot"] + c["pc0"]))
        for l in c["srcs"]:
            lines.append(l)
            line_case[len(lines)] = ("stmt", idx)
        for l in c["cs_end"]:
            lines.append(l)
            line_case[len(lines)] = ("frame", idx)
    return "\n".join(lines) + "\n", line_case


def case_source(tgt, c, idx=0):
    return "\tcpu %s\n%s%s%s%s\n%s\n" % (
        tgt["cpu"], "".join(p + "\n" for p in tgt["pre"]),
        ("\tpadding %s\n" % ("on" if c["padding"] else "off")) if tgt["padding"] else "",
        "".join(l + "\n" for l in c.get("cs_srcs", [])),
        org_src(tgt, tgt["base"] + idx * tgt["slot"] + c["pc0"]), "\n".join(c.get("srcs", [])))


def parse_records(data):
    """[(segment, granularity, start, bytes)] via the Lean code-file reader"""
    ans = common.driver("pfile", [data.hex()])[0]
    if not ans.startswith("ok"):
        return None
    recs = []
    for t in ans.split()[2:]:
        if t.startswith("D:"):
            cpu, seg, gran, start, hx = t[2:].split(",")
            recs.append((int(seg), int(gran), int(start), bytes.fromhex(hx) if hx != "-" else b""))
    return recs


def run_batch(c09, bdir, wd, rng, tgt, cases, tag):
    problems = []
    src, line_case = build_source(c09, rng, tgt, cases)
    rc, out, data = c09.assemble(bdir, wd, tag, src)
    bad = set()
    for m in c09.ERR_RE.finditer(out):
        if m.group(2) != b"warning":
            ln = int(m.group(1))
            what = line_case.get(ln)
            if what and what[0] == "stmt":
                bad.add(what[1])
            else:
                problems.append("error outside a test statement: line %d of %s: %s" % (ln, tag, out.decode(errors="replace")[-300:]))
    if rc not in (0, 2) or (rc == 2 and not bad):
        problems.append("asl rc=%s on batch %s: %s" % (rc, tag, out.decode(errors="replace")[-600:]))
    if bad:
        src2, _ = build_source(c09, rng, tgt, cases, skip=bad)
        rc2, out2, data = c09.assemble(bdir, wd, tag + "b", src2)
        if rc2 != 0 or data is None:
            problems.append("second pass of batch %s still fails rc=%s: %s" % (tag, rc2, out2.decode(errors="replace")[-600:]))
            data = None
    for idx, c in enumerate(cases):
        c["real"] = "ERR" if idx in bad else None
        c["source"] = case_source(tgt, c, idx)
    if data is not None:
        recs = parse_records(data)
        if recs is None:
            problems.append("code file of batch %s does not parse" % tag)
            recs = []
        per = {}
        for seg, gran, start, bs in recs:
            if not bs:
                continue
            if seg != tgt["seg"]:
                problems.append("record in segment %d (expected %d) in batch %s" % (seg, tgt["seg"], tag))
                continue
            idx = (start - tgt["base"]) // tgt["slot"]
            per.setdefault(idx, []).append(((start - (tgt["base"] + idx * tgt["slot"])) * gran, bs))
        for idx, c in enumerate(cases):
            if c["real"] == "ERR":
                continue
            merged = []
            for off, bs in sorted(per.get(idx, [])):
                if merged and merged[-1][0] + len(merged[-1][1]) == off:
                    merged[-1] = (merged[-1][0], merged[-1][1] + bs)
                else:
                    merged.append((off, bs))
            c["real"] = merged
    else:
        for c in cases:
            if c["real"] is None:
                c["real"] = "LOST"
    return problems


def request_of(c, probes):
    t = c["tgt"]
    toks = [t["key"], str(t["seg"]), str(t["sbig"]), str(t["mturn"]), str(t["ibig"]), "1" if (c["padding"] and t["padding"]) else "0",
            "1" if probes["fixIEEE2"] else "0", "1" if probes["fixHalf"] else "0", ("1" if probes.get("sxchar") else "0") + ("1" if probes.get("mcfix") else "0") + ("1" if probes.get("dsbytes") else "0"),
            str(c["pc0"]), str(len(c["csops"]))]
    for o in c["csops"]:
        toks += ser_csop(o)
    toks.append(str(len(c["stmts"])))
    for st in c["stmts"]:
        toks += ser_stmt(st)
    if c["real"] in ("ERR", "CRASH"):
        toks.append(c["real"])
    else:
        toks.append("OK")
        for off, bs in c["real"]:
            toks.append("%d:%s" % (off, bs.hex()))
    return " ".join(toks)


def calibrate_marker(c09, bdir, wd, tgt):
    """code of the marker instruction of a target whose data statements cannot lay a sentinel"""
    src = "\tcpu %s\n%s\n%s\n" % (tgt["cpu"], org_src(tgt, tgt["base"]), tgt["marker"])
    rc, out, data = c09.assemble(bdir, wd, "marker_" + tgt["name"], src)
    if rc != 0 or data is None:
        return None
    recs = parse_records(data) or []
    for seg, gran, start, bs in recs:
        if start == tgt["base"] and bs:
            return bs
    return None


def probe_sxchar(c09, bdir, wd):
    """self-calibration: is a string character above 127 sign-extended when it becomes a 16-bit element?"""
    src = "\tcpu z80\n\tcharset 97,128\n\torg 100h\n\tdw \"a\"\n"
    rc, out, data = c09.assemble(bdir, wd, "probe_sx", src)
    if rc != 0 or data is None:
        return None
    for seg, gran, start, bs in parse_records(data) or []:
        if start == 0x100 and len(bs) == 2:
            return bs == b"\x80\xff"
    return None


def probe_mcfix(c09, bdir, wd):
    """self-calibration: does `dq 'abcde'` lay the integer $6162636465 (True) or the string's length (False)?"""
    rc, out, data = c09.assemble(bdir, wd, "probe_mc", "\tcpu 8086\n\torg 100h\n\tdq 'abcde'\n")
    if rc != 0 or data is None:
        return None
    for seg, gran, start, bs in parse_records(data) or []:
        if start == 0x100 and len(bs) == 8:
            if bs == b"edcba\0\0\0":
                return True
            if bs == b"\x05" + b"\0" * 7:
                return False
    return None


def probe_dsbytes(c09, bdir, wd):
    """self-calibration: does `ds 3` on the AVR CODE segment reserve 2 words like `db 3 dup (?)` (True) or 3 words (False)?"""
    rc, out, data = c09.assemble(bdir, wd, "probe_ds", "\tcpu atmega8\n\torg 0x100\n\tds 3\n\tdb 0xa5\n")
    if data is None:
        return None
    for seg, gran, start, bs in parse_records(data) or []:
        if bs[:1] == b"\xa5":
            if start == 0x102:
                return True
            if start == 0x103:
                return False
    return None


def table_of(csops):
    t = list(range(256))
    for o in csops:
        if o[0] == "reset":
            t = list(range(256))
        elif o[0] == "range":
            for z in range(o[1], o[2] + 1):
                t[z] = (o[3] + z - o[1]) & 255
        elif o[0] == "one":
            t[o[1]] = o[2] & 255
        else:
            for z, ch in enumerate(o[2]):
                t[o[1] + z] = ch
    return t


def crash_probes(c09, bdir, wd):
    """constant data statements on a 32-bit granular CODE segment, one assembler run each"""
    T = {t["name"]: t for t in XT}
    out = []
    for op, bits, intOK, flt, arg in (("db", 8, 1, "-", ("i", 1)), ("dn", 4, 1, "-", ("i", 1)), ("dw", 16, 1, "h", ("i", 1)),
                                       ("dd", 32, 1, "s", ("i", 1)), ("dt", 80, 0, "t", ("f", 0x3ff0000000000000))):
        tgt = T["kcpsm3"]
        st = dict(k="IX", op=op, bits=bits, intOK=intOK, flt=flt, args=[arg])
        c = dict(tgt=tgt, padding=False, pc0=0, stmts=[st], csops=[], frame="charset", hand=True, probe=True)
        c["srcs"] = ["\t%s %s" % (op, "1" if arg[0] == "i" else "1.0")]
        c["cs_srcs"] = []
        c["source"] = case_source(tgt, c, 0)
        rc, outp, data = c09.assemble(bdir, wd, "crash_" + op, c["source"])
        if isinstance(rc, int) and rc < 0:
            c["real"] = "CRASH"
        elif rc == 2 or c09.ERR_RE.search(outp):
            c["real"] = "ERR"
        elif rc == 0 and data is not None:
            recs = parse_records(data) or []
            c["real"] = [((start - tgt["base"]) * gran, bs) for seg, gran, start, bs in recs if bs]
        else:
            c["real"] = "LOST"
        c["rc"] = rc
        out.append(c)
    return out


# ------------------------------------------------------------------ classification of spec failures

def classify(c09, c, probes):
    t = c["tgt"]
    if t["gran"] == 4 and c["real"] in ("CRASH", "ERR") and len(c["stmts"]) == 1 and c["stmts"][0]["k"] == "IX" \
            and all(a[0] in ("i", "f") for a in c["stmts"][0]["args"]):
        return "intel-data-on-32-bit-granular-segment-crash" if c["real"] == "CRASH" else "intel-data-on-32-bit-granular-segment-refused"
    if c["real"] == "CRASH":
        return None
    sigs = []
    table = table_of(c["csops"])

    def walk(a, st):
        if a[0] == "c":
            eb = st["bits"] // 8 if st["k"] == "IX" else st.get("bytes", 0)
            if eb == 8 and st.get("intOK") and 5 <= len(a[1]) <= 8 and not probes.get("mcfix"):
                sigs.append("multichar-constant-5-to-8-characters-lays-its-length")
        if a[0] in ("s", "c") and probes.get("sxchar"):
            wide = (st["k"] == "IX" and st["bits"] >= 16) or st["k"] == "ADR"
            if wide and any(table[ch] >= 128 for ch in a[1]):
                sigs.append("string-character-above-127-sign-extended-in-wide-element")
        if a[0] in ("s", "c") and st["k"] == "IX" and st["bits"] == 80 and any(table[ch] == 0 for ch in a[1]):
            sigs.append("ext80-of-zero-or-denormal-double")         # a character translated to 0 becomes the number 0.0
        if a[0] == "r":
            walk(a[2], st)
        elif a[0] == "d":
            for x in a[2]:
                walk(x, st)
    for st in c["stmts"]:
        if st["k"] == "DS" and t["gran"] > 1 and st["n"] > 0 and not probes.get("dsbytes"):
            sigs.append("intel-ds-counts-address-units-not-bytes")
        for a in st.get("args", []):
            walk(a, st)
    if sigs:
        return sigs[0]
    # the classes of the base stream (extended zero/denormal, DUP with empty body): statements in the base stream's shape
    conv = dict(c)
    conv["stmts"] = []
    for st in c["stmts"]:
        if st["k"] == "IX":
            st = dict(st, k="DX", bytes=max(1, st["bits"] // 8))
        conv["stmts"].append(st)
    return c09.classify(conv, probes)


# ------------------------------------------------------------------ the part

def run_part(c09, args, bdir, wd, ok, probes):
    rng = common.rng_for(args.seed, "C09X")
    thorough = args.tier != "quick"
    n_cases = 42000 if thorough else 2600
    stats, dist = Counter(), Counter()
    spec_fail, corr_fail, samples, problems = [], [], [], []
    distinct = set()
    known_hits = Counter()
    probes = dict(probes)
    probes["sxchar"] = probe_sxchar(c09, bdir, wd)
    probes["mcfix"] = probe_mcfix(c09, bdir, wd)
    probes["dsbytes"] = probe_dsbytes(c09, bdir, wd)
    for k in ("sxchar", "mcfix", "dsbytes"):
        if probes[k] is None:
            problems.append("self-calibration probe %s failed (the probe statement does not assemble as expected)" % k)
    for t in XT:
        if "marker" in t:
            mb = calibrate_marker(c09, bdir, wd, t)
            if mb is None:
                problems.append("marker instruction of %s does not assemble" % t["name"])
                mb = b"\0" * t["gran"]
            t["marker_bytes"] = mb
    by_t = {}
    for c in hand_cases():
        by_t.setdefault(c["tgt"]["name"], []).append(c)
    weights = [t["weight"] for t in XT]
    for i in range(n_cases):
        tgt = rng.choices(XT, weights)[0]
        by_t.setdefault(tgt["name"], []).append(gen_case(c09, rng, tgt, stats))
    all_cases = []
    bno = 0
    for tn, cs in by_t.items():
        tgt = next(t for t in XT if t["name"] == tn)
        for i in range(0, len(cs), tgt["nslot"]):
            batch = cs[i:i + tgt["nslot"]]
            for p in run_batch(c09, bdir, wd, rng, tgt, batch, "x%d" % bno):
                corr_fail.append(dict(tag="harness", why=p))
            bno += 1
            all_cases += batch
    all_cases += crash_probes(c09, bdir, wd)
    reqs, metas = [], []
    for c in all_cases:
        if c["real"] == "LOST":
            if c.get("probe"):
                corr_fail.append(dict(tag="harness", why="probe run lost: rc=%s %s" % (c.get("rc"), c["source"])))
            continue
        reqs.append(request_of(c, probes))
        metas.append(c)
    answers = common.driver("c09x", reqs, timeout=3600) if ok and reqs else []
    n = 0
    for c, rq, ans in zip(metas, reqs, answers):
        kv = dict(x.split("=", 1) for x in ans.split() if "=" in x)
        n += 1
        t = c["tgt"]
        kinds = "+".join(st["k"] + (("." + st["attr"]) if "attr" in st else ("." + st["op"] if st["k"] == "IX" else "")) for st in c["stmts"][:-1])
        dist["x-target:" + t["name"]] += 1
        dist["x-outcome:" + ("error" if c["real"] == "ERR" else "crash" if c["real"] == "CRASH" else "bytes")] += 1
        dist["x-charset:" + ("active" if [o for o in c["csops"] if o[0] != "reset"] else "identity")] += 1
        if c["csops"]:
            dist["x-frame:" + c["frame"]] += 1
        for st in c["stmts"][:-1]:
            dist["x-stmt:" + st["k"] + (("." + st["attr"]) if "attr" in st else ("." + st["op"] if st["k"] == "IX" else ""))] += 1
        key = " ".join(rq.split()[:-1]) if c["real"] in ("ERR", "CRASH") else rq
        if kv.get("mres") not in (None, "1", "2", "4") or c["real"] in ("ERR", "CRASH"):
            distinct.add("x " + key)
        if len(samples) < 5 and (n % 331 == 7 or (c.get("hand") and len(samples) < 2)):
            samples.append(dict(target=t["name"], source=c["source"], real=(c["real"] if isinstance(c["real"], str) else [(o, b.hex()) for o, b in c["real"]]),
                                verdict=ans[:200]))
        if "model" not in kv:
            problems.append("driver rejected a request: %s / %s" % (ans, rq[:300]))
            continue
        realtxt = c["real"] if isinstance(c["real"], str) else [(o, b.hex()) for o, b in c["real"]]
        if kv["spec"] != "ok":
            # attributed to a known defect only if the (bug-compatible) transcription reproduces it exactly
            sig = classify(c09, c, probes) if kv["model"] == "eq" else None
            known_hits[str(sig)] += 1
            spec_fail.append(dict(sig=sig, target=t["name"], source=c["source"], request=rq, mode="c09x",
                                  why="real output differs from the specification: real=%s spec=%s" % (realtxt, kv.get("sout", "?"))))
        if kv["model"] != "eq" and not (c.get("probe") and isinstance(c["real"], list)):
            corr_fail.append(dict(tag=kinds, target=t["name"], source=c["source"], request=rq, mode="c09x",
                                  why="real output differs from the Lean model: real=%s model=%s" % (realtxt, kv.get("mout", "?"))))
    return dict(spec_fail=spec_fail, corr_fail=corr_fail, evaluations=len(answers), distinct=distinct, dist=dist, stats=stats,
                samples=samples, problems=problems, known_hits=known_hits, probes=dict(sxchar=probes["sxchar"], mcfix=probes["mcfix"], dsbytes=probes["dsbytes"]))
