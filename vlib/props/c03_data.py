"""C03, data / fill / reservation statements of every target around and far above the initial code buffer.

Every code generator stores the bytes of one statement into BAsmCode, whose size (256 bytes at start, asmdef.c MaxCodeLen_Ini) only grows
when the statement asks for it (SetMaxCodeLen); a statement that stores without asking writes behind the allocation.  The buffer never
shrinks, so ONE statement per asl run.

Inventory, generated at run time (nothing hard-coded per target):
  * CPU names: first AddCPU*("...") of every code*.c (one per code generator module; thorough: first and last);
  * statement names: headings of "Data Definitions" in doc/pseudo-instructions.md, every name registered by AddInstTable / tested by Memo
    in the *pseudo*.c modules, names registered in code*.c whose handler is named after one of those, size-suffixed forms (DC.B ...);
  * operand shapes: `N`, `N,V`, `V,N`, `[N]V`, `N dup (V)`, a list of N values, a string of N characters, `N` floats;
  * probe (one asl run per CPU): every name x shape with N = 3 and N = 7 between labels; the pairs that assemble without a message and
    whose code length grows with N are the "scaling statements" of the CPU.
Each scaling statement is then run alone with N near the 256-byte buffer (127..257) and far above it (300 .. 70000): quick = one of 300 / 1000 / 5000 always, a near count for half
and one of 33000 / 70000 for a quarter of the statements, thorough = every shape, one near count, one of 300 / 1000 / 5000 and (30 %) one of
33000 / 70000 in the sanitizer build, the 300 / 1000 / 5000 run again in the plain build.

SPEC: asl ends with a documented status (0, 2, 3): no signal, no sanitizer report, no time-out.  (Observation only, not part of C03: a
statement accepted without a message whose code file is shorter than N bytes is counted and noted.)
"""
import os
import re
import shutil

from .. import common

ASL_OK = {0, 2, 3}
NEAR = [127, 128, 129, 255, 256, 257]
MID = [300, 1000, 5000]
HUGE = [33000, 70000]       # mostly refused (MaxCodeLen_Max = 65535 bytes per statement, address ranges)
FAR = MID + HUGE
SUFFIX = [".b", ".w", ".l", ".q", ".s", ".d", ".x", ".p"]


def inventory():
    """-> (cpus [(module, [names])], statement names)"""
    repo = common.REPO
    cpus = []
    hnames = set()
    doc = open(os.path.join(repo, "doc", "pseudo-instructions.md"), encoding="utf-8", errors="replace").read()
    m = re.search(r"^## Data Definitions\s*$(.*?)^## ", doc, re.S | re.M)
    names = set()
    for h in re.findall(r"^###+ (.*)$", m.group(1) if m else "", re.M):
        h = re.sub(r"\\\[.*?\\\]", "", h)
        if "," not in h and " and " not in h and " or " not in h and " " in h.strip():
            h = h.strip().split(" ")[0]        # "ZERO, CP-1600"-like headings are handled by the split below; "X something" -> X
        for t in re.split(r",| and | or ", h):
            t = t.strip()
            if re.fullmatch(r"[A-Z][A-Z0-9]{1,8}", t):
                names.add(t)
            elif re.fullmatch(r"L?Qxx", t):
                names |= {t.replace("xx", "15"), t.replace("xx", "31"), t.replace("xx", "7")}
    for f in sorted(os.listdir(repo)):
        if not f.endswith(".c"):
            continue
        try:
            txt = open(os.path.join(repo, f), encoding="latin-1").read()
        except OSError:
            continue
        if "pseudo" in f:
            names |= set(re.findall(r'AddInstTable\([^,]*,\s*"([A-Za-z0-9_.]+)"', txt))
            names |= set(re.findall(r'Memo\("([A-Z0-9.]+)"\)', txt))
            hnames |= set(re.findall(r'AddInstTable\([^,]*,\s*"[A-Za-z0-9_.]+"\s*,[^,]*,\s*(\w+)\)', txt))
        if f.startswith("code") and f != "codepseudo.c" and f != "codevars.c":
            cs = re.findall(r'AddCPU\w*\(\s*"([^"]+)"', txt)
            if cs:
                cpus.append((f, cs))
    names = {n.upper() for n in names}
    stems = sorted(names, key=len, reverse=True)
    for f in sorted(os.listdir(repo)):
        if f.startswith("code") and f.endswith(".c"):
            txt = open(os.path.join(repo, f), encoding="latin-1").read()
            for nm, h in re.findall(r'AddInstTable\([^,]*,\s*"([A-Za-z0-9_.]+)"\s*,[^,]*,\s*(\w+)\)', txt):
                hh = re.sub(r"^(Decode|Code)(Moto|Intel|TI|Nat)?", "", h)
                toks = set(re.split(r"_", hh.upper()))
                if h in hnames or toks & names:
                    names.add(nm.upper())
    names -= {"ALIGN", "LTORG", "SFR", "SFRB", "END", "ORG", "BIT", "REG", "PORT", "EQU", "SET"}
    full = set(names)
    for n in ("DC", "DS", "DCB"):
        full |= {n + s.upper() for s in SUFFIX}
    return cpus, sorted(full)


SHAPES = ["N", "N,V", "V,N", "[N]V", "NdupV", "list", "string", "floats"]


def operand(shape, n, v="52"):
    if shape == "N":
        return "%d" % n
    if shape == "N,V":
        return "%d,%s" % (n, v)
    if shape == "V,N":
        return "%s,%d" % (v, n)
    if shape == "[N]V":
        return "[%d]%s" % (n, v)
    if shape == "NdupV":
        return "%d dup (%s)" % (n, v)
    if shape == "list":
        return ",".join([v] * n)
    if shape == "string":
        return '"' + "a" * n + '"'
    return ",".join(["1.5"] * n)


def probe_source(cpu, names):
    L = ["\tcpu\t%s" % cpu]
    idx = []
    k = 0
    for nm in names:
        for sh in SHAPES:
            # every pair starts at address 0 again: targets with a few hundred bytes of code space must not run out of it in the probe
            L += ["\torg\t0", "zqa%d:" % k, "\t%s\t%s" % (nm.lower(), operand(sh, 3)), "zqb%d:" % k, "\t%s\t%s" % (nm.lower(), operand(sh, 7)), "zqc%d:" % k]
            idx.append((nm, sh, k, len(L) - 3, len(L) - 1))      # number, source lines (1-based) of both statements
            k += 1
    for (nm, sh, k0, l3, l7) in idx:
        L.append("\tmessage\t\"ZQ %d \\{zqb%d-zqa%d} \\{zqc%d-zqb%d}\"" % (k0, k0, k0, k0, k0))
    return ("\n".join(L) + "\n").encode(), idx


def run_one(rl, bdir, wd, tag, src, cpu_s, want_code=False):
    d = os.path.join(wd, tag)
    os.makedirs(d, exist_ok=True)
    with open(os.path.join(d, "t.asm"), "wb") as fh:
        fh.write(src)
    oc = rl(bdir, "asl", ["-q", "-n", "-E", "!1", "t.asm", "-o", "t.p"], d, "r", cpu_s, fsize_mb=32)
    size = None
    try:
        size = os.path.getsize(os.path.join(d, "t.p"))
    except OSError:
        pass
    shutil.rmtree(d, ignore_errors=True)
    return oc, size


def scaling(rl, bdir, wd, cpu, names, tag):
    """-> [(name, shape, units per element)] of the statements whose code grows with the count on this CPU"""
    src, idx = probe_source(cpu, names)
    oc, _sz = run_one(lambda *a, **k: rl(*a, **dict(k, out_max=4000000)), bdir, wd, tag, src, 20)
    if oc.kind != "exit":
        return None, oc, src
    out = oc.out.decode("latin-1")
    badlines = set(int(x) for x in re.findall(r"t\.asm\((\d+)\)", out))
    lens = {int(a): (b, c) for a, b, c in re.findall(r"ZQ (\d+) (-?\$?[0-9A-Fa-f]+) (-?\$?[0-9A-Fa-f]+)", out)}
    res = []
    for nm, sh, k0, l3, l7 in idx:
        if l3 in badlines or l7 in badlines or k0 not in lens:
            continue
        try:
            a, b = (int(x.replace("$", ""), 16) for x in lens[k0])       # \\{...} prints in OUTRADIX = 16
        except ValueError:
            continue
        if b > a > 0 and (b - a) % 4 == 0:
            res.append((nm, sh, (b - a) // 4))
    return res, oc, src


def stmt_source(cpu, nm, sh, n, rng=None):
    v = "52" if rng is None else rng.choice(["52", "0", "1", "18", "255"])
    return ("\tcpu\t%s\n\t%s\t%s\n" % (cpu, nm.lower(), operand(sh, n, v))).encode()


def run_part(args, flavours, wd, rl, par, drv_ok=True, sigfn=None):
    tier = args.tier
    rng = common.rng_for(args.seed, "C03D")
    spec_fail, corr_fail, problems, samples, notes = [], [], [], [], []
    distinct = set()
    dist = dict(cpus=0, names=0, scaling_statements=0, runs=0, by_shape={}, by_name={}, outcomes={}, probe_failures=0, status0_with_full_length=0, status0_short_code_file=0)
    short = []

    def bump(d, k):
        d[k] = d.get(k, 0) + 1

    cpus, names = inventory()
    dist["names"] = len(names)
    targets = []
    for f, cs in cpus:
        targets.append((f, cs[0]))
        if tier != "quick" and cs[-1] != cs[0] and rng.random() < 0.15:
            targets.append((f, cs[-1]))
    dist["cpus"] = len(targets)
    bd0 = flavours[-1][1]
    probes = par(lambda it: scaling(rl, bd0, wd, it[1][1], names, "dp%d" % it[0]), list(enumerate(targets)))
    cases = []
    for (f, cpu), (sc, oc, src) in zip(targets, probes):
        dist["runs"] += 1
        if sc is None:
            dist["probe_failures"] += 1
            spec_fail.append(dict(sig=sigfn(src, oc) if sigfn else None, tag="data-probe:%s" % cpu, part="c03data", build=flavours[-1][0], outcome=oc.token(), opts=[],
                                  why="data statements with 3 / 7 elements: asl did not end with a documented status", source=src.decode("latin-1")[:200000],
                                  stderr=oc.err.decode("latin-1")[-1500:]))
            continue
        dist["scaling_statements"] += len(sc)
        if tier == "quick":
            # quick: one operand shape per statement name (random among the scaling ones); thorough: all
            by = {}
            for nm, sh, unit in sc:
                by.setdefault(nm, []).append((nm, sh, unit))
            sc = [rng.choice(by[nm]) for nm in sorted(by)]
        for nm, sh, unit in sc:
            bump(dist["by_shape"], sh)
            bump(dist["by_name"], nm)
            if tier == "quick":
                counts = ([rng.choice(NEAR)] if rng.random() < 0.5 else []) + [rng.choice(MID)] + ([rng.choice(HUGE)] if rng.random() < 0.25 else [])
            else:
                counts = [rng.choice(NEAR), rng.choice(MID)] + ([rng.choice(HUGE)] if rng.random() < 0.3 else [])
            for n in counts:
                if sh in ("list", "floats") and n > 5000:
                    n = 5000 if tier == "quick" else n
                cases.append((f, cpu, nm, sh, unit, n))
    if len(samples) < 2 and cases:
        samples.append(dict(kind="scaling data statements found by the probe (first CPU)", cpu=cases[0][1],
                            statements=sorted({"%s %s" % (c[2], c[3]) for c in cases if c[1] == cases[0][1]})[:40]))
    cpu_s = 3 if tier == "quick" else 10
    allcases = cases
    for fl, bd in flavours:
        # thorough: the plain build repeats the counts 300 / 1000 / 5000 only (signals without a sanitizer)
        cases = allcases if (fl != "hooks" or len(flavours) == 1) else [c for c in allcases if c[5] in MID]
        rs = par(lambda ic: run_one(rl, bd, wd, "dr%s%d" % (fl, ic[0]), stmt_source(ic[1][1], ic[1][2], ic[1][3], ic[1][5]), cpu_s), list(enumerate(cases)))
        for (f, cpu, nm, sh, unit, n), (oc, size) in zip(cases, rs):
            dist["runs"] += 1
            bump(dist["outcomes"], "%s:%s" % (fl, oc.token()))
            src = stmt_source(cpu, nm, sh, n)
            distinct.add(("data", cpu, nm, sh, n))
            why = None
            if not (oc.kind == "exit" and oc.status in ASL_OK):
                why = "asl did not end with a documented status (0/2/3)"
            elif oc.status == 0 and sh != "N" and not re.search(rb"t\.asm\(2\)", oc.out):
                # (shape `N` alone is a reservation on most targets: nothing is stored in the code file)
                # accepted without any message: the code file must hold the statement (at least n address units of >= 1 byte each + header)
                if size is None or size < n:
                    # not a C03 matter (no crash, no hang): counted and noted only
                    dist["status0_short_code_file"] += 1
                    if len(short) < 5:
                        short.append("%s: %s %s with %d elements -> status 0 without a message, code file of %s bytes" % (cpu, nm, sh, n, size))
                else:
                    dist["status0_with_full_length"] += 1
            if why:
                sg = data_sig(f, cpu, nm, sh, oc)
                spec_fail.append(dict(sig=sg, tag="data:%s:%s:%s:%d" % (cpu, nm, sh, n), part="c03data", build=fl, outcome=oc.token(), opts=[],
                                      why="data statement beyond the initial code buffer: " + why, source=src.decode("latin-1")[:100000],
                                      stderr=oc.err.decode("latin-1")[-1500:], stdout=oc.out.decode("latin-1")[-600:]))
    if short:
        notes.append("data statements accepted without a message whose code file is shorter than the element count (observation, outside C03): " + "; ".join(short))
    return dict(spec_fail=spec_fail, corr_fail=corr_fail, problems=problems, evaluations=dist["runs"], distinct=distinct, dist=dist, samples=samples, notes=notes)


# known defect classes of the unchanged tree (known_findings.json): signature = code generator module + statement + operand shape
def data_sig(module, cpu, nm, sh, oc):
    """signature of the input class: code generator module, statement, operand shape (a crash of any kind of this class)"""
    if oc.kind == "timeout":
        return None
    return "data-overrun:%s:%s:%s" % (module[:-2], nm, sh)


def replay_case(d, bdir, wd, rl):
    oc, size = run_one(rl, bdir, wd, "rp", d["source"].encode("latin-1"), 20)
    print("asl ->", oc.token(), "code file:", size, "bytes")
    print(oc.out.decode("latin-1")[-1500:])
    print(oc.err.decode("latin-1")[-2500:])
