"""C03, keyed containers: histories of definitions under the options that switch the data structure.

asl keeps symbols, macros, structures (trees.c EnterTree: plain binary tree, AVL tree under option -A), functions, sections,
code pages (lists) in keyed containers.  A program of this part consists of MANY definitions (10..4000 names) in an adversarial or
random order (ascending, descending, zig-zag, middle-out, bit-reversed, random permutation, sorted runs; numbered names, names with a long
common prefix, mixed case) of one or several kinds (EQU, labels, SET with redefinitions, the same names in several sections, macros,
structures, functions, code pages, temporary and nameless symbols) and is error-free by construction.  Every program is assembled under several
option sets: plain, -A, and both again with the listing's symbol table, cross reference and section list (-L -C -s), so that the container is
also walked.

SPEC (written from the manual: -A "balanced trees" only changes an internal data structure; the symbol table is printed sorted):
  * every run ends with status 0 (no signal, no sanitizer report, no time-out);
  * all runs of a program write the same code file;
  * the listing with -A equals the listing without (date / time lines removed);
  * the names of the symbol table appear in non-descending order and the defined names are exactly the ones the program defines
    (in-order walk of the container = sorted set of the inserted keys);
  * (prepared, NOT present yet: a driver mode `c03avl` with a Lean transcription of EnterTree's re-balancing and the SPEC "in-order sequence =
    sorted set of the inserted keys"; the request is only built when lean/Driver/C03Avl.lean exists.  Until then this part is exploration
    with the Python-side oracle above.)
"""
import os
import re
import shutil

from .. import common

ASL_OK = {0, 2, 3}
HAVE_AVL = os.path.exists(os.path.join(common.LEAN_DIR, "Driver", "C03Avl.lean"))
VARIANTS = [[], ["-A"], ["-L", "-C", "-s"], ["-L", "-C", "-s", "-A"]]


def bitrev(n):
    k = max(1, (n - 1).bit_length())
    out = []
    for i in range(1 << k):
        j = int(format(i, "0%db" % k)[::-1], 2)
        if j < n:
            out.append(j)
    return out


def order(rng, n, kind):
    """a permutation of range(n)"""
    ix = list(range(n))
    if kind == "asc":
        return ix
    if kind == "desc":
        return ix[::-1]
    if kind == "zigzag":           # lowest, highest, second lowest ...
        out = []
        lo, hi = 0, n - 1
        while lo <= hi:
            out.append(lo)
            if lo != hi:
                out.append(hi)
            lo += 1
            hi -= 1
        return out
    if kind == "middle-out":
        m = n // 2
        out = []
        for d in range(n):
            for j in ((m + d), (m - d - 1)):
                if 0 <= j < n and j not in (out[-2:] if out else []):
                    out.append(j)
        seen, res = set(), []
        for j in out:
            if j not in seen:
                seen.add(j)
                res.append(j)
        return res
    if kind == "bitrev":
        return bitrev(n)
    if kind == "runs":             # sorted runs of random length, ascending or descending, in random order
        rng.shuffle(ix)
        out = []
        i = 0
        while i < n:
            k = rng.choice([2, 3, 5, 8, 20])
            run = sorted(ix[i:i + k], reverse=rng.random() < 0.5)
            out += run
            i += k
        return out
    rng.shuffle(ix)
    return ix


def make_names(rng, n, style):
    """n distinct names (distinct also after upper-casing) whose sorted order is known: list in ascending byte order of the upper-cased name"""
    if style == "num":
        w = rng.choice([3, 4, 6])
        pool = rng.sample(range(10 ** (w - 1), 10 ** w if 10 ** w - 10 ** (w - 1) >= n else 10 ** (w + 2)), n)
        names = ["s%d" % v for v in pool]
    elif style == "prefix":
        pre = "".join(rng.choice("abcxyz_") for _ in range(rng.choice([8, 30, 60, 120, 200])))
        names = ["%s%s" % (pre, "".join(rng.choice("abcdefghijklmnopqrstuvwxyz0123456789_") for _ in range(rng.choice([1, 2, 3, 6])))) for _ in range(n * 2)]
    elif style == "case":
        names = ["".join(rng.choice("aAbBzZ_09") for _ in range(rng.randrange(2, 9))) for _ in range(n * 3)]
        names = ["n" + x for x in names]
    else:
        names = ["".join(rng.choice("abcdefghijklmnopqrstuvwxyz") for _ in range(rng.randrange(1, 7))) + "_" for _ in range(n * 3)]
    seen, out = set(), []
    for x in names:
        u = x.upper()
        if u in seen:
            continue
        seen.add(u)
        out.append(x)
        if len(out) == n:
            break
    k = 0
    while len(out) < n:
        x = "fill%d_" % k
        k += 1
        if x.upper() not in seen:
            seen.add(x.upper())
            out.append(x)
    out.sort(key=lambda s: s.upper().encode())
    return out


class TreeProg:
    def __init__(self, cls, src, syms, opts_extra=()):
        self.cls = cls
        self.src = src
        self.syms = syms            # expected (NAME, SECTION or "") pairs of the symbol table that the program defines
        self.extra = list(opts_extra)


KINDS = ["equ", "equ", "label", "set", "section", "macro", "struct", "function", "codepage", "temp", "mixed"]
ORDERS = ["asc", "desc", "zigzag", "middle-out", "bitrev", "runs", "random", "random", "random"]


def gen_prog(rng, n, kind, okind, style):
    names = make_names(rng, n, style)
    perm = order(rng, n, okind)
    seq = [names[i] for i in perm]
    L = ["\tcpu\t6502", "\tpage\t0"]
    syms = []
    if kind == "equ":
        for i, x in enumerate(seq):
            L.append("%s\tequ\t%d" % (x, i))
            syms.append((x.upper(), ""))
        L.append("\tlda\t#%s" % seq[0])
    elif kind == "label":
        for i, x in enumerate(seq):
            L.append("%s:\tnop" % x)
            syms.append((x.upper(), ""))
        L.append("\tjmp\t%s" % seq[-1])
    elif kind == "set":
        for i, x in enumerate(seq):
            L.append("%s\tset\t%d" % (x, i))
            syms.append((x.upper(), ""))
        # redefinitions through the same tree in another order (the node is found, not inserted)
        for x in rng.sample(seq, min(len(seq), rng.choice([1, 5, 50, len(seq)]))):
            L.append("%s\tset\t%s+1" % (x, x))
        L.append("\tlda\t#%s&255" % seq[0])
    elif kind == "section":
        nsec = rng.choice([1, 2, 3, 8])
        secs = ["sec%d" % k for k in range(nsec)]
        # the same names globally and in every section (keys = name + section handle)
        glob = seq[:max(1, len(seq) // (nsec + 1))]
        for i, x in enumerate(glob):
            L.append("%s\tequ\t%d" % (x, i))
            syms.append((x.upper(), ""))
        for k, s in enumerate(secs):
            L.append("\tsection\t%s" % s)
            part = order(rng, len(glob), rng.choice(ORDERS))
            for i in part[:max(1, len(seq) // (nsec + 1))]:
                L.append("%s\tequ\t%d" % (glob[i], 1000 + i))
                syms.append((glob[i].upper(), s.upper()))
            L.append("\tlda\t#%s&255" % glob[part[0]])
            L.append("\tendsection")
        L.append("\tlda\t#%s&255" % glob[0])
    elif kind == "macro":
        for i, x in enumerate(seq):
            L += ["%s\tmacro" % x, "\tnop", "\tendm"]
        for x in rng.sample(seq, min(len(seq), 12)):
            L.append("\t%s" % x)
    elif kind == "struct":
        for i, x in enumerate(seq):
            L += ["%s\tstruct" % x, "f\trmb\t1", "g\trmb\t2", "%s\tendstruct" % x]
            syms += [((x + "_f").upper(), ""), ((x + "_g").upper(), ""), ((x + "_len").upper(), "")]
        L.append("\tlda\t#%s_len" % seq[0])
    elif kind == "function":
        for i, x in enumerate(seq):
            L.append("%s\tfunction\tx,x+%d" % (x, i))
        L.append("\tlda\t#%s(1)&255" % seq[-1])
    elif kind == "codepage":
        for x in seq:
            L.append("\tcodepage\t%s" % x)
        L.append("\tnop")
    elif kind == "temp":
        # named temporary symbols, nameless temporary symbols, and a macro whose expansions define them again
        L += ["mt\tmacro", "$$loop:\tnop", "\tbne\t$$loop", "-\tnop", "\tbne\t-", "\tendm"]
        for i, x in enumerate(seq):
            L.append("%s:\tnop" % x)
            syms.append((x.upper(), ""))
            if i % 3 == 0:
                L.append("\tmt")
            if i % 5 == 0:
                L += ["\tbne\t+", "+\tnop"]
    else:   # mixed: everything in one program, definitions interleaved
        for i, x in enumerate(seq):
            r = i % 5
            if r == 0:
                L.append("%s\tequ\t%d" % (x, i))
                syms.append((x.upper(), ""))
            elif r == 1:
                L.append("%s:\tnop" % x)
                syms.append((x.upper(), ""))
            elif r == 2:
                L += ["%s\tmacro" % x, "\tnop", "\tendm"]
            elif r == 3:
                L.append("%s\tset\t%d" % (x, i))
                syms.append((x.upper(), ""))
            else:
                L += ["%s\tstruct" % x, "f\trmb\t1", "%s\tendstruct" % x]
                syms += [((x + "_f").upper(), ""), ((x + "_len").upper(), "")]
    L.append("\tnop")
    src = ("\n".join(L) + "\n").encode()
    return TreeProg("%s:%s:%s:%d" % (kind, okind, style, n), src, syms)


def gen_progs(rng, tier):
    progs = []
    nsmall = 70 if tier == "quick" else 500
    nbig = 18 if tier == "quick" else 40
    for i in range(nsmall):
        n = rng.choice([5, 9, 10, 16, 22, 31, 40, 64, 100, 127, 128, 200, 255, 256, 400])
        progs.append(gen_prog(rng, n, KINDS[i % len(KINDS)], rng.choice(ORDERS), rng.choice(["num", "num", "prefix", "case", "alpha"])))
    # medium random histories (the double rotations with a non-trivial grandchild need trees of depth >= 3 and a later visit)
    for i in range(24 if tier == "quick" else 200):
        progs.append(gen_prog(rng, rng.randrange(250, 700), ["equ", "label", "set"][i % 3], "random", rng.choice(["num", "alpha", "prefix"])))
    for i in range(nbig):
        n = rng.choice([1000, 1500, 2500, 4000])
        kind = ["equ", "equ", "label", "set", "macro", "mixed"][i % 6]
        if kind in ("macro", "mixed"):
            n = min(n, 1500)
        progs.append(gen_prog(rng, n, kind, "random" if i % 6 != 5 else rng.choice(ORDERS), rng.choice(["num", "num", "alpha", "prefix"])))
    return progs


# ---------------------------------------------------------------------------------------------------------

HDR_RE = re.compile(r"^\x0c? AS V[0-9.]+ .* - Page \d+ - ")
ENTRY_RE = re.compile(r"([* ])([A-Z0-9_.$@?]+) :(?:  \[([A-Z0-9_]*)\])?")     # a long name leaves no blank behind `[SECTION]`


def norm_listing(text):
    out = []
    for ln in text.split("\n"):
        if HDR_RE.match(ln) or "seconds assembly time" in ln:
            continue
        ln = re.sub(r"\*(DATE|TIME) : +\"[^\"]*\"", r"*\1 : \"-\"", ln)
        out.append(ln.rstrip())
    return "\n".join(x for x in out if x)


def symtab(text):
    """[(name, section)] in printed order (two columns per line, left to right)"""
    m = re.search(r"  Symbol Table \(\* = unused\):\n  -+\n(.*?)\n\s+\d+ symbols?\n", text, re.S)
    if not m:
        return None
    out = []
    for ln in m.group(1).split("\n"):
        if HDR_RE.match(ln):
            continue
        for cell in ln.split(" | "):
            mm = ENTRY_RE.match(cell if cell[:1] in "* " else " " + cell)
            if mm:
                out.append((mm.group(2), mm.group(3) or ""))
    return out


def run_prog(rl, bdir, wd, tag, prog, opts, cpu_s):
    d = os.path.join(wd, tag)
    os.makedirs(d, exist_ok=True)
    with open(os.path.join(d, "t.asm"), "wb") as fh:
        fh.write(prog.src)
    oc = rl(bdir, "asl", list(opts) + prog.extra + ["-q", "t.asm", "-o", "t.p"], d, "r", cpu_s, fsize_mb=64)
    code = lst = None
    try:
        with open(os.path.join(d, "t.p"), "rb") as fh:
            code = fh.read()
    except OSError:
        pass
    try:
        with open(os.path.join(d, "t.lst"), "rb") as fh:
            lst = fh.read().decode("latin-1")
    except OSError:
        pass
    shutil.rmtree(d, ignore_errors=True)
    return oc, code, lst


def judge(prog, results):
    """results: [(opts, oc, code, lst)] -> list of (why) violations of the SPEC in the module comment"""
    bad = []
    for opts, oc, code, lst in results:
        if not (oc.kind == "exit" and oc.status == 0):
            bad.append("asl %s: outcome %s for an error-free program of definitions" % (" ".join(opts) or "(no options)", oc.token()))
    if bad:
        return bad
    codes = {c for _o, _oc, c, _l in results}
    if len(codes) != 1 or None in codes:
        bad.append("the code files written under the option sets %s differ (-A must not change the result)" % [" ".join(o) for o, _a, _b, _c in results])
    lsts = [(o, l) for o, _oc, _c, l in results if "-L" in o]
    if len(lsts) >= 2:
        a, b = norm_listing(lsts[0][1] or ""), norm_listing(lsts[1][1] or "")
        if a != b:
            la, lb = a.split("\n"), b.split("\n")
            k = next((i for i in range(min(len(la), len(lb))) if la[i] != lb[i]), min(len(la), len(lb)))
            bad.append("listing with -A differs from the listing without, first at line %d: %r vs %r" % (k, la[k:k + 1], lb[k:k + 1]))
    for o, l in lsts:
        st = symtab(l or "")
        if st is None:
            bad.append("asl %s: no symbol table in the listing" % " ".join(o))
            continue
        keys = [n.encode() for n, _s in st]
        if any(keys[i] > keys[i + 1] for i in range(len(keys) - 1)):
            k = next(i for i in range(len(keys) - 1) if keys[i] > keys[i + 1])
            bad.append("asl %s: symbol table not sorted: %s printed before %s" % (" ".join(o), st[k], st[k + 1]))
        ws = set(prog.syms)
        want = sorted(ws)
        have = sorted(set(x for x in st if x in ws))
        if want != have or len(st) != len(set(st)):
            hs = set(have)
            miss = [x for x in want if x not in hs][:3]
            bad.append("asl %s: the symbol table does not hold exactly the defined names once (missing e.g. %s, %d entries, %d distinct)" % (" ".join(o), miss, len(st), len(set(st))))
    return bad


def run_part(args, flavours, wd, rl, par, drv_ok=True, sigfn=None):
    tier = args.tier
    rng = common.rng_for(args.seed, "C03T")
    spec_fail, corr_fail, problems, samples, notes = [], [], [], [], []
    distinct = set()
    dist = dict(programs=0, runs=0, classes={}, orders={}, sizes={}, outcomes={}, symtabs_checked=0, avl_model_checked=0)
    cpu_s = 4 if tier == "quick" else 12

    def bump(d, k):
        d[k] = d.get(k, 0) + 1

    progs = gen_progs(rng, tier)
    for fl, bd in flavours:
        ps = progs if (fl != "hooks" or len(flavours) == 1) else progs[:200] + progs[-140:]
        # the listing pair always; the pair without a listing for every third program (thorough: always)
        jobs = [(pi, vi) for pi in range(len(ps)) for vi in range(len(VARIANTS)) if vi >= 2 or tier != "quick" or pi % 3 == 0]
        rs = par(lambda j: run_prog(rl, bd, wd, "t%s_%d_%d" % (fl, j[0], j[1]), ps[j[0]], VARIANTS[j[1]], cpu_s), jobs)
        by = {}
        for (pi, vi), r in zip(jobs, rs):
            by.setdefault(pi, []).append((VARIANTS[vi],) + r)
        reqs, reqp = [], []
        for pi, p in enumerate(ps):
            res = by[pi]
            dist["programs"] += 1
            dist["runs"] += len(res)
            kind, okind, style, n = p.cls.split(":")
            bump(dist["classes"], kind)
            bump(dist["orders"], okind)
            bump(dist["sizes"], "<=40" if int(n) <= 40 else "<=400" if int(n) <= 400 else "<1000" if int(n) < 1000 else ">=1000")
            for o, oc, _c, _l in res:
                bump(dist["outcomes"], "%s:%s:%s" % (fl, "A" if "-A" in o else "-", oc.token()))
            distinct.add(("tree", p.src))
            bad = judge(p, res)
            dist["symtabs_checked"] += sum(1 for o, _a, _b, l in res if "-L" in o and l)
            if len(samples) < 2 and kind == "equ" and int(n) <= 22:
                samples.append(dict(kind="definition history", cls=p.cls, source=p.src.decode()[:400], outcomes=[oc.token() for _o, oc, _c, _l in res], build=fl))
            if bad:
                worst = next((x for x in res if not (x[1].kind == "exit" and x[1].status == 0)), res[-1])
                text = p.src
                sg = sigfn(text, worst[1]) if (sigfn is not None and not (worst[1].kind == "exit")) else None
                spec_fail.append(dict(sig=sg, tag="trees:%s" % p.cls, part="c03trees", build=fl, outcome=worst[1].token(), opts=worst[0],
                                      why="keyed containers: " + "; ".join(bad[:3]), source=p.src.decode("latin-1"),
                                      stderr=worst[1].err.decode("latin-1")[-1500:]))
                continue
            # model: the same insertion history through Model/Avl (only plain EQU / label histories: key = upper-cased name)
            if kind in ("equ", "label") and int(n) <= 400 and drv_ok and HAVE_AVL:
                lst = next(l for o, _a, _b, l in res if "-L" in o and "-A" in o)
                ws = set(p.syms)
                st = [nm for nm, s in symtab(lst) if (nm, s) in ws]
                hist = [nm for nm, _s in p.syms]
                reqs.append("%s %s" % (",".join(hist), ",".join(st)))
                reqp.append(p)
        if reqs and fl == flavours[-1][0]:
            try:
                answers = common.driver("c03avl", reqs, timeout=600)
            except RuntimeError as ex:
                problems.append(str(ex))
                answers = []
            for p, rq, ans in zip(reqp, reqs, answers):
                kv = dict(x.split("=", 1) for x in ans.split() if "=" in x)
                dist["avl_model_checked"] += 1
                info = dict(tag="trees-avl:%s" % p.cls, part="c03trees", build=fl, outcome="0", opts=["-L", "-C", "-s", "-A"], source=p.src.decode("latin-1"), verdict=ans)
                if "specok" not in kv:
                    problems.append("c03avl: bad request " + rq[:200])
                elif kv.get("cons") != "1":
                    problems.append("model-internal: Model.Avl's in-order sequence / balance invariant fails at run time: " + ans)
                elif kv.get("specok") != "1":
                    spec_fail.append(dict(sig=None, why="the listing's symbol order is not the sorted set of the inserted names (Spec/SortedSet)", **info))
                elif kv.get("corr") != "1":
                    corr_fail.append(dict(why="listing order differs from Model.Avl's in-order walk", **info))
    return dict(spec_fail=spec_fail, corr_fail=corr_fail, problems=problems, evaluations=dist["runs"], distinct=distinct, dist=dist, samples=samples, notes=notes)


def replay_case(d, bdir, wd, rl):
    p = TreeProg("replay", d["source"].encode("latin-1"), [])
    for v in VARIANTS:
        oc, code, lst = run_prog(rl, bdir, wd, "rp", p, v, 20)
        print("asl %s -> %s, code file %s" % (" ".join(v) or "(no options)", oc.token(), None if code is None else "%d bytes" % len(code)))
        print(oc.err.decode("latin-1")[-800:])
