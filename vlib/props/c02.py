"""C02 - exit status, code file and reported errors always agree."""
import os
import re

from .. import common
from . import c02_chan

# planted self-contained lines; each yields exactly one diagnostic in a single-pass program
ERR_LINES = ["\tfoo%d", "\tdb 300+%d", "\tld a", '\terror "boom%d"', "\tmerr"]
WARN_LINES = [("w", "\tmwarn"), ("w", "\tds 0"), ("w", "\tdb -1 dup (0)"), ("u", '\twarning "hm%d"')]
PROLOGUE = """\tcpu z80
merr\tmacro
\tbar
\tendm
mwarn\tmacro
\tds 0
\tendm
"""


def gen_file(rng, n_err, n_warn, fatal_at=None, mix=True):
    """returns (source, diag list as chars)"""
    items = ["e"] * n_err + ["W"] * n_warn
    if mix:
        rng.shuffle(items)
    lines = [PROLOGUE]
    diags = []
    k = 0
    pos = 0
    for it in items:
        if fatal_at is not None and pos == fatal_at:
            lines.append('\tfatal "stop"')
            diags.append("f")
        pos += 1
        k += 1
        if it == "e":
            t = rng.choice(ERR_LINES) if n_err < 5000 else "\tfoo%d"
            lines.append(t % k if "%d" in t else t)
            diags.append("e")
        else:
            kind, t = rng.choice(WARN_LINES) if n_warn < 5000 else WARN_LINES[1]
            lines.append(t % k if "%d" in t else t)
            diags.append(kind)
        if rng.random() < 0.3 and n_err + n_warn < 2000:
            lines.append("\tdb %d" % rng.randrange(256))
    if fatal_at is not None and pos <= fatal_at:
        lines.append('\tfatal "stop"')
        diags.append("f")
    lines.append("\tdb 1,2,3")
    return "\n".join(lines) + "\n", diags


def rle(diags):
    if not diags:
        return "-"
    out = []
    cur, n = diags[0], 0
    for d in diags:
        if d == cur:
            n += 1
        else:
            out.append("%s%d" % (cur, n))
            cur, n = d, 1
    out.append("%s%d" % (cur, n))
    return ",".join(out)


ERR_RE = re.compile(rb": error")
WARN_RE = re.compile(rb": warning")
SUM_ERR = re.compile(rb"^\s*(\d+) errors?\s*$", re.M)
SUM_WARN = re.compile(rb"^\s*(\d+) warnings?\s*$", re.M)


def run_case(bdir, wd, idx, files, opts):
    """files: list of (source, diags). returns observation dict"""
    names = []
    for j, (src, _d) in enumerate(files):
        n = "c%d_%d.asm" % (idx, j)
        open(os.path.join(wd, n), "w").write(src)
        names.append(n)
    args = ["-E", "!2"] + opts + names
    rc, so, se = common.run_tool(bdir, "asl", args, wd, timeout=300)
    obs = dict(status=rc, files=[])
    # split the error channel per file by file name prefix
    for n in names:
        pfile = os.path.join(wd, n[:-4] + ".p")
        pe = len(re.findall(rb"> > > " + re.escape(n.encode()) + rb"\(\d+\)[^\n]*?: error", se))
        pw = len(re.findall(rb"> > > " + re.escape(n.encode()) + rb"\(\d+\)[^\n]*?: warning", se))
        obs["files"].append(dict(code=os.path.exists(pfile), pe=pe, pw=pw))
        if os.path.exists(pfile):
            os.unlink(pfile)
        os.unlink(os.path.join(wd, n))
    obs["sum_err"] = [int(x) for x in SUM_ERR.findall(so)]
    obs["sum_warn"] = [int(x) for x in SUM_WARN.findall(so)]
    obs["stderr_tail"] = se[-300:].decode(errors="replace")
    return obs


def spec_check(obs, quiet, werror=False):
    """The property, evaluated on what the real run showed (independent of the model)."""
    bad = []
    if werror and any(f["pw"] > 0 for f in obs["files"]):
        bad.append("-Werror given but a diagnostic was still issued (and counted) as a warning")
    any_err = any(f["pe"] > 0 for f in obs["files"])
    st = obs["status"]
    if st not in (0, 2, 3):
        bad.append("status %s is not a documented code" % st)
    if (st == 0) != (not any_err):
        bad.append("status %s but error messages printed=%s" % (st, any_err))
    if st == 0 and not all(f["code"] for f in obs["files"]):
        bad.append("status 0 but a code file is missing")
    for f in obs["files"]:
        if f["pe"] > 0 and f["code"]:
            bad.append("errors were reported for a file but its code file was kept")
    if not quiet and st != 3:
        # one summary per assembled file, in order
        for i, f in enumerate(obs["files"]):
            if i < len(obs["sum_err"]) and obs["sum_err"][i] != f["pe"]:
                bad.append("summary says %d errors, %d error messages were printed" % (obs["sum_err"][i], f["pe"]))
            if i < len(obs["sum_warn"]) and obs["sum_warn"][i] != f["pw"]:
                bad.append("summary says %d warnings, %d warning messages were printed" % (obs["sum_warn"][i], f["pw"]))
    return bad


def run_outputs(bdir, wd, rng):
    """Secondary outputs that cannot be opened, and source paths with dots in directory names: whatever happens, the
    status is a documented one, a status other than 0 comes with a reported error and without a code file, and status 0
    comes with the code file where the manual says it is written (source name with the extension replaced)."""
    spec_fail = []
    n = 0
    dist = {}
    src = "\tcpu z80\n\tnop\n\tdb 1,2,3\n"
    blockers = [("map", ["-g", "MAP"], "prog.map"), ("lst", ["-L"], "prog.lst"), ("i", ["-P"], "prog.i"), ("mac", ["-M"], "prog.mac"),
                ("share", ["-s"], "prog.inc"), ("shareout", ["-shareout", "sh.inc"], "sh.inc"), ("olist", ["-L", "-olist", "l.txt"], "l.txt"),
                ("errfile", ["-E", "e.log"], "e.log"), ("noice", ["-g", "NOICE"], "prog.noi"), ("atmel", ["-g", "ATMEL"], "prog.obj"),
                ("code", [], "prog.p"), ("outname", ["-o", "out.p"], "out.p")]
    for tag, opts, victim in blockers:
        for faulty in (False, True):
            d = os.path.join(wd, "ob_%s_%d" % (tag, faulty))
            os.makedirs(d)
            open(os.path.join(d, "prog.asm"), "w").write(src + ("\tbogus\n" if faulty else ""))
            os.makedirs(os.path.join(d, victim))        # a directory where the output file should be created
            extra = rng.choice([[], ["-q"], ["-x"], ["-q", "-n"]])
            rc, so, se = common.run_tool(bdir, "asl", opts + extra + ["prog.asm"], d, timeout=60)
            n += 1
            code = "out.p" if tag == "outname" else "prog.p"
            has_code = os.path.isfile(os.path.join(d, code))
            said = bool(re.search(rb"error", so + se))
            bad = []
            if rc not in (0, 2, 3):
                bad.append("status %s is not a documented code" % rc)
            if rc != 0 and has_code:
                bad.append("status %s but the code file was kept" % rc)
            if rc != 0 and not said:
                bad.append("status %s without any error message" % rc)
            if rc == 0 and not has_code:
                bad.append("status 0 but no code file")
            if rc == 0 and faulty:
                bad.append("status 0 although the source has an error")
            dist["blocked:" + tag + ":" + str(rc)] = dist.get("blocked:" + tag + ":" + str(rc), 0) + 1
            if bad:
                spec_fail.append(dict(sig=None, tag="unopenable-output:" + tag, why="; ".join(bad), options=opts + extra, source=src,
                                      setup="a directory named %s exists where the output file is to be created" % victim,
                                      observed=dict(status=rc, code_file=has_code, stderr_tail=(so + se)[-300:].decode(errors="replace"))))
    # source paths with dots in directory names
    for k in range(6):
        comps = [rng.choice(["sub.v1", "a.b", "rel-1.2.3", "x.y.z", "plain", "v2.0"]) for _ in range(rng.choice([1, 2, 3]))]
        d = os.path.join(wd, "dots_%d" % k)
        sd = os.path.join(d, *comps)
        os.makedirs(sd)
        base = rng.choice(["prog", "my.prog", "p"])
        open(os.path.join(sd, base + ".asm"), "w").write(src)
        rel = os.path.join(*comps, base + ".asm")
        opts = rng.choice([[], ["-L"], ["-g", "MAP"], ["-L", "-s"]])
        rc, so, se = common.run_tool(bdir, "asl", ["-q"] + opts + [rel], d, timeout=60)
        n += 1
        # the manual: the code file gets the source's name with the extension replaced by .p (doc/assembler-usage.md, Calling Conventions)
        stem = base.split(".")[0]
        want = os.path.join(sd, stem + ".p")
        found = [os.path.relpath(os.path.join(r, f), d) for r, _ds, fs in os.walk(d) for f in fs if f.endswith(".p")]
        dist["dotted-path:" + ("ok" if os.path.isfile(want) else "elsewhere")] = dist.get("dotted-path:" + ("ok" if os.path.isfile(want) else "elsewhere"), 0) + 1
        if rc != 0 or not os.path.isfile(want):
            spec_fail.append(dict(sig=None, tag="dotted-directory", why="asl %s: status %s, code file expected at %s, code files found: %s" % (rel, rc, os.path.relpath(want, d), found),
                                  options=opts, source=src, observed=dict(status=rc, stderr_tail=(so + se)[-300:].decode(errors="replace"))))
    return dict(spec_fail=spec_fail, evaluations=n, dist=dist)


def run(args):
    res = common.Result("C02", args.tier, args.seed, "proof")
    bdir, audit, proof_problems = common.standard_setup(res, "C02", ["Widths", "PassConsts"])
    if bdir is None:
        return res.finish()
    rng = common.rng_for(args.seed, "C02")
    n_cases = {"quick": 150, "thorough": 1500}[args.tier]
    cases = []
    # boundary counts (the counter width is what the property is about)
    width = int(re.search(r"errorCountBits : Nat := (\d+)", open(os.path.join(common.LEAN_DIR, "AslModel/Generated/Widths.lean")).read()).group(1))
    big = [65535, 65536, 65537] if args.tier == "quick" else [255, 256, 257, 32767, 32768, 65535, 65536, 65537, 131072, 131073]
    for n in big:
        cases.append(([gen_file(rng, n, 0)], ["-q"], "boundary-errors-%d" % n))
    for n in ([65536] if args.tier == "quick" else [65535, 65536, 65537]):
        cases.append(([gen_file(rng, 0, n)], [], "boundary-warnings-%d" % n))
        cases.append(([gen_file(rng, 0, n)], ["-q", "-Werror"], "boundary-werror-%d" % n))
    for i in range(n_cases):
        nf = rng.choice([1, 1, 1, 2, 3])
        files = []
        for _ in range(nf):
            ne = rng.choice([0, 0, 0, 1, 1, 2, 3, 7, 40])
            nw = rng.choice([0, 0, 1, 2, 5, 30])
            fatal_at = rng.randrange(0, ne + nw + 1) if rng.random() < 0.08 else None
            files.append(gen_file(rng, ne, nw, fatal_at))
        opts = []
        if rng.random() < 0.5:
            opts.append("-q")
        if rng.random() < 0.25:
            opts.append("-Werror")
        if rng.random() < 0.2:
            opts += ["-maxerrors", str(rng.choice([1, 2, 3, 5, 10]))]
        if rng.random() < 0.2:
            opts.append("-w")
        if rng.random() < 0.3:
            opts.append("-x")
        if rng.random() < 0.3:
            opts.append("-n")
        cases.append((files, opts, "gen-%d" % i))
    spec_fail, corr_fail, samples = [], [], []
    dist = dict(files=0, errors=0, warnings=0, fatal=0, werror=0, maxerrors=0, suppw=0, status={})
    reqs = []
    obss = []
    distinct = set()
    with common.Workdir("c02") as wd:
        for idx, (files, opts, tag) in enumerate(cases):
            obs = run_case(bdir, wd, idx, files, opts)
            obss.append(obs)
            me = int(opts[opts.index("-maxerrors") + 1]) if "-maxerrors" in opts else 0
            req = "%d %d %d %s" % (1 if "-Werror" in opts else 0, 1 if "-w" in opts else 0, me, ";".join(rle(d) for _s, d in files))
            reqs.append(req)
            distinct.add(req)
            dist["files"] += len(files)
            dist["errors"] += sum(d.count("e") for _s, d in files)
            dist["warnings"] += sum(d.count("w") + d.count("u") for _s, d in files)
            dist["fatal"] += sum(d.count("f") for _s, d in files)
            dist["werror"] += "-Werror" in opts
            dist["maxerrors"] += "-maxerrors" in opts
            dist["suppw"] += "-w" in opts
            dist["status"][str(obs["status"])] = dist["status"].get(str(obs["status"]), 0) + 1
    answers = common.driver("c02", reqs)
    for (files, opts, tag), obs, req, ans in zip(cases, obss, reqs, answers):
        quiet = "-q" in opts
        bad = spec_check(obs, quiet, "-Werror" in opts)
        m = re.match(r"status=(\d+) files=(.*)", ans)
        mfiles = [x.split(":") for x in m.group(2).split(",")] if m and m.group(2) else []
        case_desc = dict(tag=tag, options=opts, diagnostics=[rle(d) for _s, d in files], observed={k: v for k, v in obs.items()}, model=ans)
        if len(samples) < 4 and tag.startswith("gen") and obs["status"] != 0:
            samples.append(case_desc)
        if bad:
            sig = None
            tot = max([d.count("e") + (d.count("w") + d.count("u") if "-Werror" in opts else 0) for _s, d in files] + [max(d.count("w") + d.count("u") for _s, d in files)])
            if tot >= 2 ** width:
                sig = "counter-wrap-%d-bit" % width
            spec_fail.append(dict(sig=sig, why="; ".join(bad), source_recipe="sources are regenerated from (seed, tag); planted diagnostics per file: %s" % [rle(d) for _s, d in files], **case_desc))
            continue
        # correspondence with the model
        mism = []
        if not m:
            mism.append("driver answer unparsable")
        else:
            if str(obs["status"]) != m.group(1):
                mism.append("status %s vs model %s" % (obs["status"], m.group(1)))
            for i, mf in enumerate(mfiles):
                if i >= len(obs["files"]):
                    break
                of = obs["files"][i]
                if int(mf[0]) != int(of["code"]):
                    mism.append("file %d code file %s vs model %s" % (i, of["code"], mf[0]))
                if int(mf[3]) != of["pe"] or int(mf[4]) != of["pw"]:
                    mism.append("file %d printed %d/%d vs model %s/%s" % (i, of["pe"], of["pw"], mf[3], mf[4]))
                if not quiet and obs["status"] != 3 and i < len(obs["sum_err"]):
                    if obs["sum_err"][i] != int(mf[1]) or obs["sum_warn"][i] != int(mf[2]):
                        mism.append("file %d summary %d/%d vs model %s/%s" % (i, obs["sum_err"][i], obs["sum_warn"][i], mf[1], mf[2]))
        if mism:
            corr_fail.append(dict(why="; ".join(mism), correspondence="asl exit status / code file / counts == Model.ErrCount.invoke", **case_desc))
    # ---- channels (listing to console / file, LISTING regions, -E targets) and multi-pass diagnostics (-Y, jump errors):
    #      vlib/props/c02_chan.py, Model/ErrChan.lean, Spec/Report.lean, Props/C02_Chan.lean, driver mode c02x
    with common.Workdir("c02x") as wd:
        cp = c02_chan.run_part(args, bdir, wd)
    spec_fail += cp["spec_fail"]
    with common.Workdir("c02o") as wd:
        op = run_outputs(bdir, wd, rng)
    spec_fail += op["spec_fail"]
    dist["outputs"] = op["dist"]
    cp["evaluations"] += op["evaluations"]
    corr_fail += cp["corr_fail"]
    proof_problems += cp["problems"]
    dist["channels_and_passes"] = cp["dist"]
    samples += cp["samples"]
    res.coverage = common.proof_coverage(audit, "C02", [
        "translate/tables.py (bit width of ErrorCount/WarnCount via sizeof in a compiled dumper; MaxSymPass via gen_passconsts)",
        "correspondence: real asl vs Model.ErrCount on generated sources (differential test)",
        "correspondence: real asl vs Model.ErrChan (messages per stream and pass, summaries on console and in the listing file, code files, status) on generated 6502/68HC11/Z80/8048 sources",
        "harness: attribution of messages to source files (name in the message prefix) and to passes ('PASS n' markers, only when the error channel shares stdout)"])
    res.coverage.update(evaluations=len(cases) + cp["evaluations"],
                        distinct_nontrivial=len([r for r in distinct if any(c in r.split(" ", 3)[3] for c in "ewuf")]) + len(cp["distinct"]),
                        rule="(channels and passes) sources over {planted diagnostic lines, LISTING OFF/ON/NOSKIPPED/PURECODE, SAVE/RESTORE, labels, EQUs, fills around the branch/page limits, 6502 lda/bne, 68HC11 ldd/beq, Z80 jr, 8048 jz, diagnostics in macros and include files} x {no listing, -l, -L/-olist} x {-E !1, !2, file, <src>.log, default} x -q/-Werror/-w/-maxerrors/-Y/-r/-n/-x/-gnuerrors/-t/-u/-C/-s x 1..3 files, judged by Spec.Report and compared with Model.ErrChan; distinct by (options, programs), non-trivial = at least one diagnostic, listing switch or symbol reference; (base) sources with planted one-diagnostic lines (5 error kinds incl. macro-internal, numbered and user warnings, FATAL) x -q/-Werror/-maxerrors/-w/-x/-n x 1..3 files per run, plus boundary counts around 2^16; non-trivial = at least one diagnostic; distinct by (options, diagnostic sequences)",
                        samples=samples, distribution=dist, counter_width_bits=width)
    res.assumptions = ["the totals clause is read as 'diagnostics of the final pass' (warnings are repeated in every pass; an error ends the assembly with its pass); with -Y a jump error emitted before the address change was detected is documented to be forgotten and is not a reported error (Spec/Report.lean)",
                       "theorems of Props/C02_Chan.lean need JmpErrors = 0 at the start of a source file; C02_finding_stale_jmperrors shows that nothing guarantees it for the second file of a run (known finding)",
                       "hypothesis Fits (messages per file < 2^%d) of the theorems is met by all but the boundary cases" % width]
    return common.conclude(res, proof_problems, spec_fail, corr_fail, len(cases) + cp["evaluations"])


def replay(args):
    import json
    d = json.load(open(args.replay))
    print(json.dumps(d, indent=1)[:3000])
    return 0
