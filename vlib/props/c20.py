"""C20 - diagnostics point at the offending source position.

Generator: nesting trees (main file, nested include files, macro calls, REPT / IRP / IRPN / IRPC / WHILE bodies, dead
REPT 0 / WHILE 0 bodies, continuation lines - also inside block bodies in front of faulty lines, counted in the distribution) with self-contained faulty lines planted at chosen lines; the real asl is run
with -x 0..2, -n, -gnuerrors and -E <file> / !1 / !2 / default; the error channel is parsed for the prefix in front of every
message text.
(B) the prefix list is compared with the Lean model of the input-tag chain (Model/Pos.lean, `run`),
(C) and with the structural spec (Spec/Pos.lean, `positions`), both inside the Lean driver (mode c20).
EXPECT/ENDEXPECT scenarios: model (mode c20x) and the multiset spec per well-formed block (mode c20b).

Channels (driver mode c20c, Spec/PosChan.lean, Model/PosChan.lean = Model/Pos.lean driving the C02 channel model
Model/ErrChan.lean): every generated program is assembled under one of the listing modes none / -l / -L / -L -olist <file> /
-L -olist !1 / -L -olist !2, and LISTING OFF|ON|NOSKIPPED|PURECODE lines, SAVE / LISTING OFF ... RESTORE regions and RESTORE
lines without SAVE (a faulty line of its own, error 1450) are planted in all bodies (main file, include files, macro and
REPT/IRP/IRPN/IRPC/WHILE bodies - executed once per iteration).  The messages are collected per stream (standard output with
the console listing, the -E error channel, the listing file) and (C) every executed faulty line must be named, with the
position prefix of the structural spec, exactly once on standard output U error channel, nothing else may be named, and the
listing file holds exactly the messages raised while the listing was switched on; (B) the model predicts the stream of
every message.
"""
import json
import os
import re

from .. import common
from ..common import log

SIG_IRP = "irp-getpos-iteration"

KIND_NUM = {"unk": "errUnknownInstruction", "argc": "errWrongArgCnt", "range": "errOverRange", "undef": "errSymbolUndef"}


def read_generated_nums():
    p = os.path.join(common.LEAN_DIR, "AslModel", "Generated", "ErrPos.lean")
    d = {}
    for m in re.finditer(r"def (\w+) : Nat := (\d+)", open(p).read()):
        d[m.group(1)] = int(m.group(2))
    return d


# --------------------------------------------------------------------------
# program trees
#   ('plain', text) ('fault', kind, id, text, col) ('call', name) ('rept', n, body) ('irp', k, params, args, body)
#   ('irpc', param, s, body) ('while', n, var, body) ('incl', file, body) ('mdef', name, body)
#   a text item carries 'pieces': the physical lines it is written on

ARG_POOL = ["5", "6", "7", "12", "AB", "cd", "Q9", "(1+2)", "0", "Z"]
IRPC_POOL = "abcxyzQR0189"


def irpc_string(r, n):
    """the string of an IRPC statement.  Inside the body of an enclosing IRP the parameter of that IRP (`x<number>`) is replaced
    also inside string literals: `irp x1,AB,Z` / `irpc c,"x1"` iterates over "AB" and "Z".  The generator counts iterations from
    the text it writes, so a string that spells such a parameter name is drawn again."""
    while True:
        s = "".join(r.choice(IRPC_POOL) for _ in range(n))
        if not re.search(r"[xX][0-9]", s):
            return s


LISTING_WORD = {0: "off", 1: "on", 2: "noskipped", 3: "purecode"}


class Gen:
    def __init__(self, rng, cls, dirs=0.0, prefix=""):
        self.rng = rng
        self.prefix = prefix    # name prefix of the include files (several sources of one invocation share a directory)
        self.cls = cls          # 'A': one pass, kinds unk/argc/range/uerr/uwarn (+ silent undef); 'B': undefined symbols only
        self.dirs = dirs        # rate of listing-control lines (LISTING / SAVE / RESTORE) per body slot
        self.nid = 0
        self.nfile = 0
        self.nvar = 0
        self.files = {}         # name -> body
        self.macros = []        # (name, body)
        self.faults = {}        # id -> dict(kind, col, warn, num, rep)
        self.stats = dict(cont_lines=0, faults=0, cont_in_block_body=0, fault_behind_cont_in_block_body=0,
                          dir_listing=0, dir_save_restore=0, dir_lone_restore=0)

    def cont(self, text, rate=0.2):
        """split a logical line over 1..3 physical lines (`rate`: how often)"""
        r = self.rng
        if r.random() >= rate:
            return [text]
        k = r.choice([2, 2, 3])
        cuts = sorted(r.randrange(1, len(text) + 1) for _ in range(k - 1))
        pieces = []
        prev = 0
        for c in cuts:
            pieces.append(text[prev:c] + "\\")
            prev = c
        pieces.append(text[prev:])
        self.stats["cont_lines"] += 1
        return pieces

    def plain(self, rate=0.2):
        t = self.rng.choice([" nop", " nop", " ld a,b", " db 1,2,3", " ld hl,1234", " nop ; comment"])
        return ("plain", t, self.cont(t, rate))

    def fresh_var(self):
        self.nvar += 1
        return self.nvar

    def fault(self, rate=0.2):
        r = self.rng
        self.nid += 1
        i = self.nid
        if self.cls == "B":
            kind = "undef"
        else:
            kind = r.choice(["unk", "unk", "argc", "range", "uerr", "uwarn", "undef"])
        if kind == "unk":
            t, tok = " bogus%d" % i, "bogus"
        elif kind == "argc":
            t, tok = " ld a,b,c", None
        elif kind == "range":
            t, tok = " ld a,%d" % (1000 + i), str(1000 + i)
        elif kind == "undef":
            t, tok = " ld a,undef%d" % i, "undef"
        elif kind == "uerr":
            t, tok = ' error "e%d"' % i, None
        else:
            t, tok = ' warning "w%d"' % i, None
        col = (t.index(tok) + 1) if tok else None
        self.faults[i] = dict(kind=kind, col=col, warn=(kind == "uwarn"), num=KIND_NUM.get(kind),
                              rep=not (kind == "undef" and self.cls == "A"))
        self.stats["faults"] += 1
        return ("fault", kind, i, t, self.cont(t, rate))

    def directive(self, role, rate=0.2):
        """a listing-control line: role L0..L3 (LISTING off/on/noskipped/purecode), V (SAVE), W (RESTORE).  It travels through
        the position machinery like a planted faulty line (a RESTORE without SAVE *is* one: error 1450, no column)."""
        r = self.rng
        self.nid += 1
        i = self.nid
        if role[0] == "L":
            w = LISTING_WORD[int(role[1:])]
            t = " listing %s" % (w.upper() if r.random() < 0.3 else w)
        else:
            t = {"V": " save", "W": " restore"}[role]
        self.faults[i] = dict(kind="dir", role=role, col=None, warn=False, num="errNoSaveFrame" if role == "W" else None, rep=False)
        return ("fault", "dir", i, t, self.cont(t, rate))

    def sprinkle(self, out, rate):
        """listing regions around / between the lines of a body"""
        r = self.rng
        if not self.dirs:
            return out
        k = 0
        while r.random() < self.dirs and k < 3:
            k += 1
            a = r.randrange(len(out) + 1)
            b = r.randrange(a, len(out) + 1)
            x = r.random()
            if x < 0.45:
                out.insert(b, self.directive("L%d" % r.choice([1, 1, 1, 2, 3]), rate))
                out.insert(a, self.directive("L0", rate))
                self.stats["dir_listing"] += 2
            elif x < 0.70:
                out.insert(b, self.directive("W", rate))
                out.insert(a, self.directive("L0", rate))
                out.insert(a, self.directive("V", rate))
                self.stats["dir_save_restore"] += 1
                self.stats["dir_listing"] += 1
            elif x < 0.82:
                out.insert(a, self.directive("L0", rate))            # stays off (until somebody else switches it on)
                self.stats["dir_listing"] += 1
            elif x < 0.92:
                out.insert(a, self.directive("L%d" % r.choice([1, 2, 3]), rate))
                self.stats["dir_listing"] += 1
            elif self.cls == "A":
                out.insert(a, self.directive("W", rate))             # RESTORE without SAVE (or taking an enclosing SAVE's frame)
                self.stats["dir_lone_restore"] += 1
        return out

    def body(self, depth, mult, minlen=1, block=False):
        """block: the body of a REPT/IRP/IRPN/IRPC/WHILE block.  Its lines are stored joined; a continuation line there moves the
        ENDM line (the line the file frame names) but not the body line numbers.  Every third block body gets continuation
        lines at a high rate, so that faulty lines behind a continued body line are frequent."""
        r = self.rng
        n = r.choice([1, 1, 2, 2, 3, 4, 5]) if depth > 0 else r.randrange(3, 9)
        n = max(n, minlen)
        out = []
        rate = 0.5 if (block and r.random() < 0.34) else 0.2
        seen_cont = False
        for _ in range(n):
            x = r.random()
            if x < 0.30:
                it = self.plain(rate)
                if block and len(it[2]) > 1:
                    self.stats["cont_in_block_body"] += 1
                    seen_cont = True
                out.append(it)
            elif x < 0.60 or depth >= 4:
                it = self.fault(rate)
                if block and seen_cont:
                    self.stats["fault_behind_cont_in_block_body"] += 1
                if block and len(it[4]) > 1:
                    self.stats["cont_in_block_body"] += 1
                    seen_cont = True
                out.append(it)
            else:
                c = self.construct(depth, mult)
                if c[0] == "while":
                    t = "%s set 0" % c[2]
                    out.append(("plain", t, [t]))
                out.append(c)
        return self.sprinkle(out, rate)

    def construct(self, depth, mult):
        r = self.rng
        room = max(1, 24 // mult)
        c = r.choice(["rept", "rept", "irp", "irp", "irpn", "irpc", "while", "call", "call", "incl", "dead"])
        if c == "rept":
            n = r.choice([1, 2, 3]) if room >= 3 else 1
            return ("rept", n, self.body(depth + 1, mult * n, block=True))
        if c == "dead":
            if r.random() < 0.5:
                return ("rept", 0, self.body(depth + 1, mult, block=True))
            return ("while", 0, "cnt%d" % self.fresh_var(), self.body(depth + 1, mult, block=True))
        if c == "irp":
            n = r.choice([1, 2, 3]) if room >= 3 else 1
            args = [r.choice(ARG_POOL) for _ in range(n)]
            return ("irp", 0, ["x%d" % self.fresh_var()], args, self.body(depth + 1, mult * n, block=True))
        if c == "irpn":
            k = r.choice([1, 2, 2, 3])
            groups = r.choice([1, 2]) if room >= 2 else 1
            nargs = max(1, k * groups - r.choice([0, 0, 1]))
            nargs = max(nargs, k)  # at least `count` arguments are required
            args = [r.choice(ARG_POOL) for _ in range(nargs)]
            return ("irp", k, ["p%d" % self.fresh_var() for _ in range(k)], args, self.body(depth + 1, mult * groups, block=True))
        if c == "irpc":
            n = r.choice([1, 2, 3]) if room >= 3 else 1
            s = irpc_string(r, n)
            return ("irpc", "ch%d" % self.fresh_var(), s, self.body(depth + 1, mult * n, block=True))
        if c == "while":
            n = r.choice([1, 2]) if room >= 2 else 1
            return ("while", n, "cnt%d" % self.fresh_var(), self.body(depth + 1, mult * n, block=True))
        if c == "call":
            if self.macros and r.random() < 0.4:
                return ("call", r.choice(self.macros)[0])
            name = "mac%d" % self.fresh_var()
            b = self.body(depth + 1, mult)
            self.macros.append((name, b))
            return ("call", name)
        self.nfile += 1
        fn = "%sf%d.inc" % (self.prefix, self.nfile)
        self.files[fn] = self.body(depth + 1, mult) + [("plain", " nop", [" nop"])]
        return ("incl", fn, self.files[fn])


def macro_body(g, name):
    for n, b in g.macros:
        if n == name:
            return b
    raise KeyError(name)


def while_body(node):
    _, n, var, b = node
    inc = "%s set %s+1" % (var, var)
    return [("plain", inc, [inc])] + b


def render_body(g, body, out):
    """append the physical lines of a body to `out` (list of (pieces) per logical line)"""
    for it in body:
        k = it[0]
        if k == "plain":
            out.append(it[2])
        elif k == "fault":
            out.append(it[4])
        elif k == "call":
            out.append([" " + it[1]])
        elif k == "rept":
            out.append([" rept %d" % it[1]])
            render_body(g, it[2], out)
            out.append([" endm"])
        elif k == "irp":
            _, kk, params, args, b = it
            if kk == 0:
                out.append([" irp %s,%s" % (params[0], ",".join(args))])
            else:
                out.append([" irpn %d,%s,%s" % (kk, ",".join(params), ",".join(args))])
            render_body(g, b, out)
            out.append([" endm"])
        elif k == "irpc":
            out.append([' irpc %s,"%s"' % (it[1], it[2])])
            render_body(g, it[3], out)
            out.append([" endm"])
        elif k == "while":
            out.append([" while %s<%d" % (it[2], it[1])])
            render_body(g, while_body(it), out)
            out.append([" endm"])
        elif k == "incl":
            out.append([' include "%s"' % it[1]])
        elif k == "mdef":
            out.append(["%s macro" % it[1]])
            render_body(g, it[2], out)
            out.append([" endm"])
        elif k == "setvar":
            out.append(it[2])
        else:
            raise AssertionError(k)


def flat_lines(g, body):
    """[phys] of every logical line a body occupies where it is written"""
    ls = []
    render_body(g, body, ls)
    return [len(p) for p in ls]


def toks(g, body, macros):
    out = []
    for it in body:
        k = it[0]
        if k == "plain":
            out.append("P%d" % len(it[2]))
        elif k == "fault":
            out.append("F%d:%d" % (len(it[4]), it[2]))
        elif k == "call":
            out.append("C:%s" % it[1].upper())
            out += toks(g, macros[it[1]], macros) + ["]"]
        elif k == "rept":
            out.append("R:%d" % it[1])
            out += toks(g, it[2], macros) + ["]"]
        elif k == "irp":
            out.append("I:%d:%s" % (it[1], ";".join(a.upper() for a in it[3])))
            out += toks(g, it[4], macros) + ["]"]
        elif k == "irpc":
            out.append("S:%s" % it[2].encode().hex())
            out += toks(g, it[3], macros) + ["]"]
        elif k == "while":
            out.append("W:%d" % it[1])
            out += toks(g, while_body(it), macros) + ["]"]
        elif k == "incl":
            out.append("U:%s" % it[1])
            out += toks(g, it[2], macros) + ["]"]
        elif k == "mdef":
            out += ["P%d" % n for n in flat_lines(g, [it])]
        else:
            raise AssertionError(k)
    return out


def count_msgs(body, macros, faults):
    n = 0
    for it in body:
        k = it[0]
        if k == "fault":
            n += 1 if faults[it[2]]["rep"] else 0
        elif k == "call":
            n += count_msgs(macros[it[1]], macros, faults)
        elif k == "rept":
            n += it[1] * count_msgs(it[2], macros, faults)
        elif k == "irp":
            step = it[1] or 1
            n += -(-len(it[3]) // step) * count_msgs(it[4], macros, faults)
        elif k == "irpc":
            n += len(it[2]) * count_msgs(it[3], macros, faults)
        elif k == "while":
            n += it[1] * count_msgs(it[3], macros, faults)
        elif k == "incl":
            n += count_msgs(it[2], macros, faults)
    return n


def shape_stats(body, macros, depth, st):
    for it in body:
        k = it[0]
        if k in ("plain", "mdef"):
            continue
        if k == "fault":
            if it[1] != "dir":
                st["depth%d" % min(depth, 5)] = st.get("depth%d" % min(depth, 5), 0) + 1
            continue
        name = "irpn" if (k == "irp" and it[1]) else k
        st[name] = st.get(name, 0) + 1
        if k in ("rept", "while") and it[1] == 0:
            st["dead_bodies"] = st.get("dead_bodies", 0) + 1
        sub = macros[it[1]] if k == "call" else it[-1]
        shape_stats(sub, macros, depth + 1, st)


def gen_program(rng, cls, dirs=0.0, prefix=""):
    for _ in range(50):
        g = Gen(rng, cls, dirs, prefix)
        main = g.body(0, 1)
        macros = dict(g.macros)
        if cls == "A":
            # a guaranteed pass-1 error keeps the run to one pass (so planted undefined symbols stay silent)
            g.nid += 1
            t = " bogus%d" % g.nid
            g.faults[g.nid] = dict(kind="unk", col=2, warn=False, num=KIND_NUM["unk"], rep=True)
            main = [("fault", "unk", g.nid, t, [t])] + main
        # the file usually ends with an error-free line; sometimes the last line of the main file is the faulty one
        tail = [] if (main and main[-1][0] == "fault" and rng.random() < 0.5) else [("plain", " nop", [" nop"])]
        top = [("plain", " cpu z80", [" cpu z80"])] + [("mdef", n, macros[n]) for n, _ in g.macros] + main + tail
        n = count_msgs(top, macros, g.faults)
        if 1 <= n <= 250:
            return g, top, macros, n
    raise RuntimeError("generator could not produce a program in budget")


def file_texts(g, top, main="main.asm"):
    files = {}
    phys = {}
    for name, body in [(main, top)] + sorted(g.files.items()):
        ls = []
        render_body(g, body, ls)
        # line ends: LF or CR-LF per file, and the last line of a file may come without a line end - line numbers do not depend on either
        eol = "\r\n" if g.rng.random() < 0.15 else "\n"
        txt = "".join(p + eol for pieces in ls for p in pieces)
        if txt and g.rng.random() < 0.3:
            txt = txt[:-len(eol)]
        files[name] = txt
        phys[name] = [len(p) for p in ls]
    return files, phys


# --------------------------------------------------------------------------
# running the real assembler and parsing its error channel

AS_RE = re.compile(r"^(> > > .*?: (?:error|warning)(?: #\d+)?: )(.*)$")
GNU_RE = re.compile(r"^((?:INTERNAL|[^\s:]+:\d+(?::\d+)?)(?:: warning)?(?: #\d+)?: )(.*)$")
NUM_RE = re.compile(r" #(\d+): $")


LST_ARGS = {"none": [], "l": ["-l"], "L": ["-L"], "olist": ["-L", "-olist", "out.lst"], "o1": ["-L", "-olist", "!1"],
            "o2": ["-L", "-olist", "!2"]}
LST_CONSOLE = ("l", "o1")     # the listing goes to standard output (LstName "!1")


def run_asl(bdir, wd, files, opts, full=False):
    """full: returns (rc, standard output apart from the error channel, error channel, listing file or None, args)"""
    os.makedirs(wd, exist_ok=True)
    for n, t in files.items():
        open(os.path.join(wd, n), "w").write(t)
    args = ["-q"]
    if opts["numeric"]:
        args.append("-n")
    if opts["gnu"]:
        args.append("-gnuerrors")
    args += ["-x"] * opts["x"]
    args += opts.get("extra", [])
    lst = opts.get("lst", "none")
    args += LST_ARGS[lst]
    ch = opts["chan"]
    if ch == "file":
        args += ["-E", "err.log"]
    elif ch in ("!1", "!2"):
        args += ["-E", ch]
    args.append("main.asm")
    rc, so, se = common.run_tool(bdir, "asl", args, wd, timeout=60)
    if ch == "file":
        p = os.path.join(wd, "err.log")
        text = open(p, "rb").read() if os.path.exists(p) else b""
    elif ch in ("!2", "default"):
        text = se      # the manual: "Default is STDERR == !2"
    else:
        text = so
    if full:
        con = b"" if ch == "!1" else so
        if lst in ("L", "olist"):
            p = os.path.join(wd, "main.lst" if lst == "L" else "out.lst")
            ltext = open(p, "rb").read() if os.path.exists(p) else b""
        elif lst == "o2":
            ltext = se          # only generated with the error channel elsewhere
        else:
            ltext = None
        return rc, con.decode("latin-1"), text.decode("latin-1"), (ltext.decode("latin-1") if ltext is not None else None), args
    return rc, text.decode("latin-1"), args


def parse_channel(text, gnu):
    recs = []
    pend = ""
    for line in text.split("\n"):
        if gnu:
            if line.startswith("In file included from ") or re.match(r"^\s+from \S+:\d+[,:]$", line):
                pend += line + "\n"
                continue
            m = GNU_RE.match(line)
            if m:
                pre, txt = pend + m.group(1), m.group(2)
                pend = ""
                ext = []
                mm = re.match(r"^(.*) '(.*)'$", txt)
                if mm:
                    txt, ext = mm.group(1), [mm.group(2)]
                recs.append(dict(prefix=pre, text=txt, ext=ext))
            elif recs and line != "":
                recs[-1]["ext"].append(line)
        else:
            m = AS_RE.match(line)
            if m:
                recs.append(dict(prefix=m.group(1), text=m.group(2), ext=[]))
            elif line.startswith("> > > ") and recs:
                recs[-1]["ext"].append(line[6:])
            elif line.strip() and recs:
                recs[-1]["ext"].append(line)
    return recs


def identify(rec, x):
    """planted id a message betrays, or None"""
    m = re.match(r"^[ew](\d+)$", rec["text"])
    if m:
        return int(m.group(1))
    if x >= 1 and rec["ext"]:
        e = rec["ext"][0]
        m = re.match(r"^BOGUS(\d+)$", e)
        if m:
            return int(m.group(1))
        m = re.match(r"^UNDEF(\d+)$", e)
        if m:
            return int(m.group(1))
        m = re.match(r"^(\d+)$", e)
        if m and int(m.group(1)) >= 1000:
            return int(m.group(1)) - 1000
    return None


def calibrate(bdir, wd, nums):
    """message texts of the numbers used (from a -n run), and the IRP_GetPos ternary of the tree under test"""
    files = {"main.asm": " cpu z80\n bogus\n ld a,b,c\n ld a,1000\n irp x,5,6\n bogus\n endm\n expect 1\n expect 2\n endexpect\n endexpect\n restore\n expect 3\n"}
    rc, text, _ = run_asl(bdir, os.path.join(wd, "calib"), files, dict(numeric=True, gnu=False, x=1, chan="file"))
    recs = parse_channel(text, False)
    txt = {}
    for r in recs:
        m = NUM_RE.search(r["prefix"])
        if m:
            txt[int(m.group(1))] = r["text"]
    files2 = {"main.asm": " cpu z80\nzz equ 1\n ld a,undefx\n shared zz\n ds 0\n db -1 dup (1)\n"}
    rc, text2, _ = run_asl(bdir, os.path.join(wd, "calib2"), files2, dict(numeric=True, gnu=False, x=0, chan="file"))
    for r in parse_channel(text2, False):
        m = NUM_RE.search(r["prefix"])
        if m:
            txt[int(m.group(1))] = r["text"]
    irp = [r["prefix"] for r in recs if "IRP:" in r["prefix"]]
    fixed = None
    if len(irp) == 2:
        if "IRP:5(1)" in irp[0] and "IRP:6(1)" in irp[1]:
            fixed = True
        elif "IRP:6(1)" in irp[0] and "IRP:(1)" in irp[1]:
            fixed = False
    return txt, fixed, text


# --------------------------------------------------------------------------
# EXPECT scenarios

def gen_expect(rng, nums):
    E, NN, ME, MX = nums["errExpectedError"], nums["errNoNestExpect"], nums["errMissingENDEXPECT"], nums["errMissingEXPECT"]
    occ_pool = [nums["errUnknownInstruction"], nums["errWrongArgCnt"], nums["errOverRange"],
                nums["errUnknownInstruction"], nums["errNoShareFile"], nums["errNullResMem"], nums["errNegDUP"]]
    ann_pool = occ_pool * 4 + [9999, 77, nums["errSymbolUndef"], NN, MX, ME]
    evs = []
    blocks = []   # (index of expect event, index of endexpect event) of well-formed blocks

    def occs(k):
        for _ in range(k):
            evs.append(("O", rng.choice(occ_pool)))
    nb = rng.randrange(1, 6)
    for _ in range(nb):
        occs(rng.choice([0, 0, 1, 2]))
        x = rng.random()
        if x < 0.78:
            a = [rng.choice(ann_pool) for _ in range(rng.choice([1, 1, 2, 3, 4, 6]))]
            if rng.random() < 0.04:
                a.append(E)
            s = len(evs)
            evs.append(("E", a))
            occs(rng.choice([0, 1, 2, 3, 5]))
            evs.append(("X",))
            blocks.append((s, len(evs) - 1))
        elif x < 0.86:
            evs.append(("X",))                       # ENDEXPECT without EXPECT
        elif x < 0.95:
            evs.append(("E", [rng.choice(ann_pool)]))
            occs(rng.choice([0, 1]))
            evs.append(("E", [rng.choice(ann_pool) for _ in range(rng.choice([1, 2]))]))   # nesting
            occs(rng.choice([0, 1, 2]))
            evs.append(("X",))
        else:
            evs.append(("E", [rng.choice(ann_pool) for _ in range(rng.choice([1, 2]))]))   # left open
            occs(rng.choice([0, 1]))
            break
    return evs, blocks


def expect_source(evs, nums):
    lines = [" cpu z80", "zz equ 1"]
    ev_line = {}
    for i, e in enumerate(evs):
        if e[0] == "E":
            lines.append(" expect %s" % ",".join(str(n) for n in e[1]))
        elif e[0] == "X":
            lines.append(" endexpect")
        else:
            lines.append({nums["errUnknownInstruction"]: " bogus", nums["errWrongArgCnt"]: " ld a,b,c", nums["errOverRange"]: " ld a,1000",
                          nums["errNoShareFile"]: " shared zz", nums["errNullResMem"]: " ds 0", nums["errNegDUP"]: " db -1 dup (1)"}[e[1]])
        ev_line[len(lines)] = i
    return "\n".join(lines) + "\n", ev_line


def ev_tok(e):
    if e[0] == "E":
        return "E:" + ";".join(str(n) for n in e[1])
    if e[0] == "X":
        return "X"
    return "O:%d" % e[1]


# --------------------------------------------------------------------------

def prog_request(g, top, macros, recs, opts, fixed):
    real = ",".join(r["prefix"].encode("latin-1").hex() for r in recs) or "-"
    fl = []
    for i, f in sorted(g.faults.items()):
        fl.append("%d:%s:%d:%s:%d" % (i, f["col"] if f["col"] is not None else "-", 1 if f["warn"] else 0,
                                      f["numv"] if f["numv"] is not None else "-", 1 if f["rep"] else 0))
    return "g%d n%d f%d main.asm %s %s %s" % (opts["gnu"], opts["numeric"], 1 if fixed else 0, real, ",".join(fl) or "-",
                                              " ".join(toks(g, top, macros)))


def chan_request(g, top, macros, con, chan, lst, opts, fixed, main="main.asm"):
    """request line of driver mode c20c"""
    def hx(recs):
        return ",".join(r["prefix"].encode("latin-1").hex() for r in recs) or "-"
    fl = []
    for i, f in sorted(g.faults.items()):
        fl.append("%d:%s:%d:%s:%d:%s" % (i, f["col"] if f["col"] is not None else "-", 1 if f["warn"] else 0,
                                         f["numv"] if f["numv"] is not None else "-", 1 if f["rep"] else 0, f.get("role", "D")))
    console = opts["lst"] in LST_CONSOLE
    lm = 0 if opts["lst"] == "none" else (3 if opts["chan"] == "!1" else 1) if console else 2
    return "g%d n%d f%d l%d %s %s %s %s %s %s" % (opts["gnu"], opts["numeric"], 1 if fixed else 0, lm, main, hx(con), hx(chan),
                                                        "~" if lst is None else hx(lst), ",".join(fl) or "-",
                                                        " ".join(toks(g, top, macros)))


def kv(ans):
    return dict(x.split("=", 1) for x in ans.split() if "=" in x)


def run(args):
    res = common.Result("C20", args.tier, args.seed, "proof")
    bdir, audit, proof_problems = common.standard_setup(res, "C20", ["ErrPos", "ErrClose"])
    if bdir is None:
        return res.finish()
    drv_ok = not any(p.startswith("driver does not build") for p in proof_problems)
    nums = read_generated_nums()
    rng = common.rng_for(args.seed, "C20")
    n_prog = {"quick": 420, "thorough": 25000}[args.tier]
    n_exp = {"quick": 260, "thorough": 15000}[args.tier]
    spec_fail, corr_fail, samples = [], [], []
    dist = dict(programs=0, messages=0, classA=0, classB=0, gnu=0, numeric=0, x0=0, x1=0, x2=0, chan_file=0, chan_1=0, chan_2=0, chan_default=0,
                cont_lines=0, cont_in_block_body=0, fault_behind_cont_in_block_body=0, programs_with_fault_behind_cont_in_block_body=0, ids_verified=0, expect_scenarios=0, expect_blocks_spec=0, expect_blocks_skipped_guard=0, expect_msgs=0,
                lncont_files=0, silent_faults=0, lst_none=0, lst_l=0, lst_L=0, lst_olist=0, lst_o1=0, lst_o2=0, console_listing_is_error_channel=0,
                programs_with_listing_lines=0, dir_listing=0, dir_save_restore=0, dir_lone_restore=0, msgs_console=0, msgs_error_channel=0,
                msgs_listing_file=0, msgs_raised_while_listing_off=0, msgs_raised_while_listing_off_under_console_listing=0)
    shapes = {}
    distinct = set()
    evaluations = 0
    with common.Workdir("c20") as wd:
        txt, fixed, calib_text = calibrate(bdir, wd, nums)
        need = [nums[k] for k in ("errUnknownInstruction", "errWrongArgCnt", "errOverRange", "errSymbolUndef", "errExpectedError",
                                  "errNoNestExpect", "errMissingENDEXPECT", "errMissingEXPECT", "errNoShareFile", "errNullResMem", "errNegDUP",
                                  "errNoSaveFrame")]
        if fixed is None or any(n not in txt for n in need):
            spec_fail.append(dict(tag="calibration", why="the calibration program did not produce the expected messages (numbers %s; IRP probe %s)" % (
                [n for n in need if n not in txt], fixed), output=calib_text[:3000]))
            fixed = bool(fixed)
        num_of_text = {v: k for k, v in txt.items()}

        # ---- corpus + generated position programs
        cases = []
        cdir = os.path.join(common.VERIF, "corpus", "C20")
        creqs, cmetas, xreqs_c, xmetas_c = [], [], [], []
        for f in sorted(os.listdir(cdir)) if os.path.isdir(cdir) else []:
            if not f.endswith(".json"):
                continue
            cc = json.load(open(os.path.join(cdir, f)))
            pdir = os.path.join(wd, "c_" + f[:-5])
            if "lst" in cc["opts"]:
                # channel corpus (driver mode c20c): listing mode + LISTING / SAVE / RESTORE lines
                o = cc["opts"]
                rc, ctext, text, ltext, cmd = run_asl(bdir, pdir, cc["files"], o, full=True)
                rl = [parse_channel(t, bool(o["gnu"])) if t is not None else None for t in (ctext, text, ltext)]
                hx = [("~" if r is None else (",".join(x["prefix"].encode("latin-1").hex() for x in r) or "-")) for r in rl]
                lm = 0 if o["lst"] == "none" else (3 if o["chan"] == "!1" else 1) if o["lst"] in LST_CONSOLE else 2
                xreqs_c.append("g%d n%d f%d l%d main.asm %s %s %s %s %s" % (o["gnu"], o["numeric"], 1 if fixed else 0, lm, hx[0], hx[1], hx[2], cc["faults"], cc["toks"]))
                xmetas_c.append(dict(tag="corpus:" + f, files=cc["files"], cmd=cmd, console=[r["prefix"] + r["text"] for r in rl[0]][:40],
                                     channel=[r["prefix"] + r["text"] for r in rl[1]][:40]))
                continue
            rc, text, cmd = run_asl(bdir, pdir, cc["files"], cc["opts"])
            recs = parse_channel(text, bool(cc["opts"]["gnu"]))
            real = ",".join(r["prefix"].encode("latin-1").hex() for r in recs) or "-"
            creqs.append("g%d n%d f%d main.asm %s %s %s" % (cc["opts"]["gnu"], cc["opts"]["numeric"], 1 if fixed else 0, real, cc["faults"], cc["toks"]))
            cmetas.append(dict(tag="corpus:" + f, files=cc["files"], cmd=cmd, channel=[r["prefix"] + r["text"] for r in recs][:40]))
        cans = common.driver("c20", creqs, timeout=600) if drv_ok and creqs else []
        cans_c = common.driver("c20c", xreqs_c, timeout=600) if drv_ok and xreqs_c else []
        for meta, req, ans in zip(xmetas_c, xreqs_c, cans_c):
            a = kv(ans)
            evaluations += 1
            dist["corpus"] = dist.get("corpus", 0) + 1
            payload = dict(request=req, answer=ans[:1500], **meta)
            for k in ("miss", "extra", "lmiss", "lextra"):
                if a.get(k, "-") != "-":
                    try:
                        payload["spec_" + k] = [bytes.fromhex(x).decode("latin-1") for x in a[k].split(",")]
                    except ValueError:
                        pass
            if a.get("spec") != "eq":
                spec_fail.append(dict(sig=None, why="messages on standard output U error channel / in the listing file are not the positions of the executed "
                                      "faulty lines, once each: missing %r, unexpected %r" % (payload.get("spec_miss") or payload.get("spec_lmiss"),
                                                                                           payload.get("spec_extra") or payload.get("spec_lextra")), **payload))
            elif a.get("model") != "eq" or a.get("ms") != "eq":
                corr_fail.append(dict(why="real output satisfies the spec but the model differs", **payload))
        for meta, req, ans in zip(cmetas, creqs, cans):
            a = kv(ans)
            evaluations += 1
            dist["corpus"] = dist.get("corpus", 0) + 1
            payload = dict(request=req, answer=ans[:1500], **meta)
            for k in ("m", "s", "r"):
                if k in a:
                    payload["at_" + k] = bytes.fromhex(a[k]).decode("latin-1")
            if a.get("spec") != "eq":
                sig = SIG_IRP if (a.get("model") == "eq" and not fixed) else None
                spec_fail.append(dict(sig=sig, why="position prefix differs from the structural spec", **payload))
            elif a.get("model") != "eq" or a.get("ms") != "eq":
                corr_fail.append(dict(why="real output satisfies the spec but the model differs", **payload))
        for i in range(n_prog):
            cls = "B" if i % 7 == 3 else "A"
            # listing-control lines in two programs out of three; the listing mode is drawn independently of them
            dirs = rng.choice([0.0, 0.35, 0.6])
            g, top, macros, nmsg = gen_program(rng, cls, dirs)
            opts = dict(gnu=int(rng.random() < 0.35), numeric=int(rng.random() < 0.6), x=rng.choice([0, 0, 1, 1, 2]),
                        chan=rng.choice(["file", "file", "!1", "!2", "default"]),
                        lst=rng.choice(["none", "none", "none", "l", "l", "l", "L", "olist", "o1", "o2"]))
            if opts["lst"] == "o2" and opts["chan"] in ("!2", "default"):
                # listing and error channel both on standard error: every message of a listed line is there twice, by design of a
                # listing "file"; the two copies cannot be told apart on one stream - the error channel goes elsewhere
                opts["chan"] = rng.choice(["file", "!1"])
            cases.append((g, top, macros, opts, "gen:%d:%s" % (i, cls)))
        reqs, metas, lreqs, lmetas = [], [], [], []
        for idx, (g, top, macros, opts, tag) in enumerate(cases):
            for f in g.faults.values():
                f["numv"] = nums[f["num"]] if f["num"] else None
            files, phys = file_texts(g, top)
            pdir = os.path.join(wd, "p%d" % idx)
            rc, ctext, text, ltext, cmd = run_asl(bdir, pdir, files, opts, full=True)
            crecs = parse_channel(ctext, bool(opts["gnu"]))
            hrecs = parse_channel(text, bool(opts["gnu"]))
            lrecs = parse_channel(ltext, bool(opts["gnu"])) if ltext is not None else None
            recs = crecs + hrecs
            meta = dict(tag=tag, files=files, opts=opts, cmd=cmd, rc=rc, recs=recs, crecs=crecs, hrecs=hrecs, lrecs=lrecs, g=g)
            if rc not in (0, 2) or (rc == 0 and any(not r["prefix"].count("warning") for r in recs)):
                corr_fail.append(dict(tag=tag, why="unexpected exit status %s" % rc, files=files, cmd=cmd, output=(ctext + text)[:2000]))
            reqs.append(chan_request(g, top, macros, crecs, hrecs, lrecs, opts, fixed))
            metas.append(meta)
            dist["lst_" + opts["lst"]] += 1
            dist["console_listing_is_error_channel"] += 1 if (opts["lst"] in LST_CONSOLE and opts["chan"] == "!1") else 0
            dist["programs_with_listing_lines"] += 1 if any(f["kind"] == "dir" for f in g.faults.values()) else 0
            for k_ in ("dir_listing", "dir_save_restore", "dir_lone_restore"):
                dist[k_] += g.stats[k_]
            dist["msgs_console"] += len(crecs)
            dist["msgs_error_channel"] += len(hrecs)
            dist["msgs_listing_file"] += len(lrecs or [])
            for fn, t in files.items():
                pl_ = t.split("\n")
                if pl_ and pl_[-1] == "":
                    pl_.pop()          # text ended with a line end; otherwise the last piece is a line of its own
                lreqs.append(",".join((l[:-1] if l.endswith("\r") else l).encode().hex() for l in pl_))
                lmetas.append((tag, fn, phys[fn], t))
            dist["programs"] += 1
            dist["class" + g.cls] += 1
            dist["gnu"] += opts["gnu"]
            dist["numeric"] += opts["numeric"]
            dist["x%d" % opts["x"]] += 1
            dist["chan_" + {"file": "file", "!1": "1", "!2": "2", "default": "default"}[opts["chan"]]] += 1
            dist["cont_lines"] += g.stats["cont_lines"]
            dist["cont_in_block_body"] += g.stats["cont_in_block_body"]
            dist["fault_behind_cont_in_block_body"] += g.stats["fault_behind_cont_in_block_body"]
            dist["programs_with_fault_behind_cont_in_block_body"] += 1 if g.stats["fault_behind_cont_in_block_body"] else 0
            dist["silent_faults"] += sum(1 for f in g.faults.values() if not f["rep"])
            shape_stats(top, macros, 0, shapes)
            import shutil
            shutil.rmtree(pdir, ignore_errors=True)
        answers = common.driver("c20c", reqs, timeout=3600) if drv_ok and reqs else []
        for meta, req, ans in zip(metas, reqs, answers):
            a = kv(ans)
            g, recs, opts = meta["g"], meta["recs"], meta["opts"]
            evaluations += 1
            dist["messages"] += len(recs)
            payload = dict(tag=meta["tag"], files=meta["files"], cmd=meta["cmd"], request=req, answer=ans[:1500],
                           console=[r["prefix"] + r["text"] for r in meta["crecs"]][:40],
                           channel=[r["prefix"] + r["text"] for r in meta["hrecs"]][:40])
            if meta["lrecs"] is not None:
                payload["listing_file"] = [r["prefix"] + r["text"] for r in meta["lrecs"]][:40]
            if "model" not in a:
                corr_fail.append(dict(why="driver rejected the request", **payload))
                continue
            for k in ("miss", "extra", "lmiss", "lextra"):
                if a.get(k, "-") != "-":
                    try:
                        payload["spec_" + k] = [bytes.fromhex(x).decode("latin-1") for x in a[k].split(",")]
                    except ValueError:
                        pass
            if a.get("off", "0").isdigit():
                dist["msgs_raised_while_listing_off"] += int(a["off"])
                if opts["lst"] in LST_CONSOLE:
                    dist["msgs_raised_while_listing_off_under_console_listing"] += int(a["off"])
            # message kind / identity checks (harness level): text of the message, and the planted id it betrays
            def idl(key):
                return [] if a.get(key, "-") == "-" else [int(x) if x != "?" else None for x in a[key].split(",")]
            id_problem = None
            for rl, ids in ((meta["crecs"], idl("idcon")), (meta["hrecs"], idl("idchan")), (meta["lrecs"] or [], idl("idlst"))):
                if len(ids) != len(rl) or id_problem or a.get("model") != "eq":
                    continue
                for r, i in zip(rl, ids):
                    f = g.faults.get(i)
                    if f is None:
                        id_problem = "unknown id"
                        break
                    want = txt.get(f["numv"]) if f["numv"] is not None else ("%s%d" % ("w" if f["warn"] else "e", i))
                    if r["text"] != want:
                        id_problem = "message %r at %r is not the planted fault's message %r" % (r["text"], r["prefix"], want)
                        break
                    got = identify(r, opts["x"])
                    if got is not None:
                        dist["ids_verified"] += 1
                        if got != i:
                            id_problem = "message at %r stems from planted line %d, the position is that of planted line %d" % (r["prefix"], got, i)
                            break
            if a["spec"] != "eq" or id_problem:
                sig = None
                if a["spec"] != "eq" and a["model"] == "eq" and not fixed and not id_problem:
                    # the bug-compatible model (IRP_GetPos ternary as in the tree) reproduces the output exactly and differs
                    # from the spec only through that ternary (C20_position: the repaired model equals the spec)
                    sig = SIG_IRP
                why = id_problem
                if not why and a.get("nmiss", "0") not in ("0", "-"):
                    why = ("%s executed faulty line(s) not named with their position on standard output U error channel (listing mode %s, -E %s), "
                           "first: %r" % (a["nmiss"], opts["lst"], opts["chan"], (payload.get("spec_miss") or ["?"])[0]))
                elif not why and a.get("nextra", "0") not in ("0", "-"):
                    why = "%s message(s) name a position that no executed faulty line has, first: %r" % (a["nextra"], (payload.get("spec_extra") or ["?"])[0])
                elif not why and (payload.get("spec_lmiss") or payload.get("spec_lextra")):
                    why = "the listing file does not hold exactly the messages raised while the listing was on: missing %r, unexpected %r" % (
                        payload.get("spec_lmiss"), payload.get("spec_lextra"))
                spec_fail.append(dict(sig=sig, why=why or "position prefixes differ from the structural spec (order / stream)", **payload))
            elif a["model"] != "eq" or a["ms"] != "eq":
                corr_fail.append(dict(why="real output satisfies the spec but the model differs", **payload))
            distinct.add(req.split(" ", 9)[9] if len(recs) >= 1 else "")
            if len(samples) < 3 and len(recs) >= 3 and a["spec"] == "eq":
                samples.append(dict(tag=meta["tag"], options=meta["cmd"], main=meta["files"]["main.asm"][:700],
                                    console=[r["prefix"] + r["text"] for r in meta["crecs"]][:8],
                                    channel=[r["prefix"] + r["text"] for r in meta["hrecs"]][:8], verdict=" ".join(ans.split()[:5])))
        # ReadLnCont line counting against the generator's physical line counts
        lans = common.driver("c20l", [r if r else "-" for r in lreqs], timeout=600) if drv_ok and lreqs else []
        for (tag, fn, phys, t), ans in zip(lmetas, lans):
            dist["lncont_files"] += 1
            if ans != ",".join(str(p) for p in phys):
                corr_fail.append(dict(tag=tag, why="ReadLnCont model counts %s, generator wrote %s" % (ans, phys), file=fn, text=t))

        # ---- EXPECT / ENDEXPECT
        xreqs, xmetas = [], []
        for i in range(n_exp):
            evs, blocks = gen_expect(rng, nums)
            src, ev_line = expect_source(evs, nums)
            gnu = int(rng.random() < 0.3)
            # the options that hide messages AFTER the EXPECT lookup: -w (warnings), +G (no code: "unknown instruction")
            hw, hg = rng.choice([(0, 0), (0, 0), (1, 0), (1, 0), (0, 1), (1, 1)])
            opts = dict(gnu=gnu, numeric=True, x=1, chan=rng.choice(["file", "!1", "!2"]), extra=["-w"] * hw + ["+G"] * hg)
            pdir = os.path.join(wd, "x%d" % i)
            rc, text, cmd = run_asl(bdir, pdir, {"main.asm": src}, opts)
            recs = parse_channel(text, bool(gnu))
            import shutil
            shutil.rmtree(pdir, ignore_errors=True)
            toks_real = []
            bad = None
            for r in recs:
                m = NUM_RE.search(r["prefix"])
                num = int(m.group(1)) if m else None
                pm = re.search(r"main\.asm[(:](\d+)", r["prefix"])
                if pm:
                    evi = ev_line.get(int(pm.group(1)))
                elif "INTERNAL" in r["prefix"]:
                    evi = len(evs)
                else:
                    evi = None
                if num is None or evi is None:
                    bad = "unparsable message %r" % r["prefix"]
                    break
                if num == nums["errExpectedError"]:
                    e = r["ext"][0] if r["ext"] else ""
                    mm = re.match(r"^internal error/warning (\d+)$", e)
                    n2 = int(mm.group(1)) if mm else num_of_text.get(e)
                    if n2 is None:
                        bad = "cannot tell which expectation %r names" % e
                        break
                    toks_real.append("x%d@%d" % (n2, evi))
                else:
                    toks_real.append("m%d@%d" % (num, evi))
            xreqs.append("h%d%d %s %s" % (hw, hg, ",".join(toks_real) or "-", " ".join(ev_tok(e) for e in evs)))
            k_ = "expect_options:" + ("-w" * hw + "+G" * hg or "none"); dist[k_] = dist.get(k_, 0) + 1
            xmetas.append(dict(tag="expect:%d" % i, source=src, cmd=cmd, evs=evs, blocks=blocks, toks=toks_real, bad=bad, hide="h%d%d" % (hw, hg),
                               channel=[r["prefix"] + r["text"] + " | " + " ".join(r["ext"]) for r in recs][:30]))
        xans = common.driver("c20x", xreqs, timeout=600) if drv_ok and xreqs else []
        breqs, bmetas = [], []
        for meta, req, ans in zip(xmetas, xreqs, xans):
            a = kv(ans)
            evaluations += 1
            dist["expect_scenarios"] += 1
            dist["expect_msgs"] += len(meta["toks"])
            payload = dict(tag=meta["tag"], source=meta["source"], cmd=meta["cmd"], request=req, answer=ans, channel=meta["channel"])
            if meta["bad"]:
                spec_fail.append(dict(why=meta["bad"], **payload))
                continue
            if a.get("model") != "eq":
                corr_fail.append(dict(why="EXPECT machine: model and real assembler differ", **payload))
            # spec per well-formed block
            for (s, e) in meta["blocks"]:
                A = meta["evs"][s][1]
                if nums["errExpectedError"] in A:
                    dist["expect_blocks_skipped_guard"] += 1
                    continue
                O = [ev[1] for ev in meta["evs"][s + 1:e]]
                R, M = [], []
                for t in meta["toks"]:
                    kind, rest = t[0], t[1:]
                    n, at = rest.split("@")
                    n, at = int(n), int(at)
                    if s < at < e and kind == "m":
                        R.append(n)
                    elif at == e and kind == "x":
                        M.append(n)
                    elif s <= at <= e:
                        R.append(-1)   # anything else inside a well-formed block is wrong
                def j(l):
                    return ";".join(str(x) for x in l) if l else "-"
                if -1 in R:
                    spec_fail.append(dict(why="unexpected message inside a well-formed EXPECT block (events %d..%d)" % (s, e), **payload))
                    continue
                breqs.append("%s %s %s %s %s" % (j(A), j(O), j(R), j(M), meta["hide"]))
                bmetas.append((payload, s, e))
            distinct.add("X " + " ".join(ev_tok(e) for e in meta["evs"]))
            if len(samples) < 5 and len(meta["toks"]) >= 3 and a.get("model") == "eq":
                samples.append(dict(tag=meta["tag"], source=meta["source"][:500], real=meta["toks"], verdict=ans[:200]))
        bans = common.driver("c20b", breqs, timeout=600) if drv_ok and breqs else []
        for (payload, s, e), req, ans in zip(bmetas, breqs, bans):
            dist["expect_blocks_spec"] += 1
            if ans.strip() != "spec=ok":
                spec_fail.append(dict(why="EXPECT block (events %d..%d): suppressed/reported multisets are not announced∩occurred / announced∖occurred: %s" % (s, e, req), **payload))

        # ---- several source files in one invocation x the -E targets (vlib/props/c20_files.py, driver mode c20m)
        from . import c20_files
        import sys as _sys
        evaluations += c20_files.run_part(_sys.modules[__name__], bdir, wd, common.rng_for(args.seed, "C20-files"), nums, fixed, args.tier, drv_ok,
                                          dist, spec_fail, corr_fail, samples, distinct)

    dist["shapes"] = shapes
    dist["irp_getpos_repaired"] = bool(fixed)
    res.coverage = common.proof_coverage(audit, "C20", [
        "translate/tables.py gen_errpos (EXPECT message numbers from errmsg.h, catalogue texts of as.msg via compiled dumper)",
        "translate/tables.py gen_errclose (clang-14 AST of as.c AssembleFile: the condition the close of the error log stands under)",
        "correspondence: real asl message streams (console listing, error channel, listing file) vs Model/Pos.lean + Model/PosChan.lean "
        "(= Model/ErrChan.lean driven by the planted lines) on generated nesting trees (differential test)",
        "harness parser of the message streams (vlib/props/c20.py parse_channel; messages are picked out of listings by their lead-in)",
        "correspondence: one asl run over 2..4 sources x -E targets vs Model/PosFiles.lean (error-log discipline of Model/FileOut.lean, the guard of "
        "the per-file close as a probed flag); the link PosFiles.run = FileOut.assembleFiles is proved (Lemmas/PosFiles) and re-checked per case"])
    res.coverage.update(
        evaluations=evaluations, distinct_nontrivial=len([d for d in distinct if d]),
        rule="one evaluation = one asl run whose message streams (standard output with the console listing, error channel, listing file) are compared "
             "message by message (prefix text byte for byte) with model and spec; "
             "non-trivial = at least one message; distinct by nesting tree / EXPECT event list",
        samples=samples, distribution=dist)
    res.assumptions = [
        "macro names and IRP arguments appear upper-cased in positions (default case-insensitive mode); the request carries them upper-cased",
        "the planted faulty lines raise exactly one message each (checked: message text/number of every message is the planted kind's)",
        "message columns (:col) are computed by the generator from the logical line (one leading blank, no tabs)",
        "the order in which two different streams were written is not observable: the spec demands that the named positions, in execution order, "
        "split into the sequence on standard output and the sequence on the error channel (Spec/PosChan.interleaved)",
        "listing on standard error together with the error channel on standard error is not generated (every listed message is there twice and "
        "the copies cannot be attributed); unbalanced SAVE (message 'missing RESTORE' at the end of the pass) is not generated"]
    return common.conclude(res, proof_problems, spec_fail, corr_fail, evaluations)


def replay(args):
    d = json.load(open(args.replay))
    print(json.dumps({k: (v if len(str(v)) < 3000 else str(v)[:3000] + "...") for k, v in d.items()}, indent=1))
    bdir = common.repo_build("hooks")
    files = d.get("files") or ({"main.asm": d["source"]} if "source" in d else None)
    if files and "cmd" in d:
        with common.Workdir("c20r") as wd:
            for n, t in files.items():
                open(os.path.join(wd, n), "w").write(t)
            rc, so, se = common.run_tool(bdir, "asl", d["cmd"], wd)
            print("asl", " ".join(d["cmd"]), "-> rc", rc)
            print((so + se).decode("latin-1")[-3000:])
            for fn in ["err.log", "main.lst", "out.lst", "all.log"] + sorted(n[:-4] + ".log" for n in files if n.endswith(".asm")):
                p = os.path.join(wd, fn)
                if os.path.exists(p):
                    print("----", fn)
                    print(open(p, encoding="latin-1").read()[-3000:])
    if "request" in d:
        mode = "c20x" if d.get("tag", "").startswith("expect") else "c20m" if re.match(r"^t\d c\d ", d["request"]) else "c20c" if re.match(r"^g\d n\d f\d l\d ", d["request"]) else "c20"
        print(common.driver(mode, [d["request"]])[0][:1500])
    return 0
