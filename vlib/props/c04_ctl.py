"""C04 - sources whose record boundaries are decided by the statement layer (Model/CodeCtl.lean): processor and address
space changed by CPU, SEGMENT, SAVE / RESTORE (nested, with and without a change of the address space), ORG (also to the
current address), reservations, with data directly behind each of them.

The request carries the *statements* (`D: R: O: G: C: S T`, see Driver/C04.lean); which of them open a record is the Lean
MODEL's decision, which (family, segment, granularity, address) every byte belongs to is the Lean SPEC's.  The state kept
here only serves to stay inside the address ranges of the targets."""

# further members of families that are already in c04.TARGETS: another processor, same header byte
EXTRA_TARGETS = [
    dict(cpu="z180", hdr=0x51, segs={"code": (1, 1)}, max_addr={"code": 0xffff}, style="intel"),
    dict(cpu="8052", hdr=0x31, segs={"code": (1, 1), "data": (2, 1), "xdata": (4, 1), "idata": (3, 1)},
         max_addr={"code": 0xffff, "data": 0xff, "xdata": 0xffff, "idata": 0xff}, style="intel"),
    dict(cpu="65c02", hdr=0x11, segs={"code": (1, 1)}, max_addr={"code": 0xffff}, style="moto8"),
    dict(cpu="16c64", hdr=0x70, segs={"code": (1, 2)}, max_addr={"code": 0x7ff}, style="pic"),
]


def cpu_token(tid, tgt):
    return "C:%d,%d,%s" % (tid, tgt["hdr"], "/".join("%d=%d" % sg for sg in sorted(tgt["segs"].values())))


def gen_ctl(rng, targets, data_stmt, reserve_stmt, tier, shape=None):
    """returns (source, request tail, stats, [])"""
    tgts = list(targets) + EXTRA_TARGETS
    lines, toks = [], []
    st = dict(emits=0, reserves=0, orgs=0, segsw=0, cpusw=0, bigstmt=0, bytes=0, ctl_programs=1, ctl_saves=0, ctl_restores=0,
              ctl_restore_cpu=0, ctl_restore_seg=0, ctl_restore_both=0, ctl_restore_none=0, ctl_restore_gran=0,
              ctl_data_behind_restore=0, ctl_depth_max=0, ctl_org_same=0, ctl_segment_same=0, ctl_cpu_same=0)
    pcs = {1: 0}              # segment id -> counter (address units) of the spaces selected so far
    cur = dict(t=None, tid=0, seg="code")
    stack = []

    def sid():
        return cur["t"]["segs"][cur["seg"]][0]

    def gran():
        return cur["t"]["segs"][cur["seg"]][1]

    def pc():
        return pcs.get(sid(), 0)

    def lim():
        return cur["t"]["max_addr"][cur["seg"]]

    def do_cpu(tid):
        t = tgts[tid]
        if cur["t"] is t:
            st["ctl_cpu_same"] += 1
        cur.update(t=t, tid=tid, seg="code")
        lines.append("\tcpu %s" % t["cpu"])
        toks.append(cpu_token(tid + 1, t))
        st["cpusw"] += 1

    def do_org(a=None):
        if a is None:
            a = rng.randrange(0, min(lim() // 2, 0x180)) if rng.random() < 0.85 else rng.randrange(0, lim() // 2)
        if a == pc():
            st["ctl_org_same"] += 1
        lines.append("\torg %d" % a)
        toks.append("O:%d" % a)
        pcs[sid()] = a
        st["orgs"] += 1

    def do_data(direct=False):
        g = gran()
        units = rng.choice([1, 1, 2, 3, 4, 8, 16]) if rng.random() < 0.9 else rng.choice([100, 255, 256, 300])
        if cur["t"]["style"] == "moto68k":
            units += units & 1          # PADDING is in its default state after a processor change: whole words only
        if pc() + units + 2 > lim():
            if direct:
                return False
            do_org(rng.randrange(0, max(1, min(lim() // 2, 0x80))))
            if pc() + units + 2 > lim():
                units = 2
        for _ in range(20):
            src, bs = data_stmt(rng, cur["t"], g, units * g, units * g)
            if cur["t"]["style"] != "moto68k" or len(bs) % 2 == 0:
                break
        else:
            return False
        if pc() + len(bs) // g > lim():
            return False
        lines.append(src)
        toks.append("D:" + bs.hex())
        pcs[sid()] = pc() + len(bs) // g
        st["emits"] += 1
        st["bytes"] += len(bs)
        return True

    def do_save():
        stack.append((cur["t"], cur["tid"], cur["seg"]))
        lines.append("\tsave")
        toks.append("S")
        st["ctl_saves"] += 1
        st["ctl_depth_max"] = max(st["ctl_depth_max"], len(stack))

    def do_restore():
        t, tid, seg = stack.pop()
        dc = t is not cur["t"]
        ds = t["segs"][seg][0] != sid()
        g0 = gran()
        st["ctl_restore_" + ("both" if dc and ds else "cpu" if dc else "seg" if ds else "none")] += 1
        cur.update(t=t, tid=tid, seg=seg)
        if gran() != g0:
            st["ctl_restore_gran"] += 1
        lines.append("\trestore")
        toks.append("T")
        st["ctl_restores"] += 1
        if rng.random() < 0.8 and do_data(direct=True):
            st["ctl_data_behind_restore"] += 1

    multi = [i for i, t in enumerate(tgts) if len(t["segs"]) > 1]

    def pick_tid():
        # targets with several address spaces (of equal or different address units) often enough for RESTORE to change the space
        return rng.choice(multi) if rng.random() < 0.35 else rng.randrange(len(tgts))

    def do_segment(other=False):
        names = sorted(cur["t"]["segs"])
        if other and len(names) > 1:
            names = [n for n in names if n != cur["seg"]]
        seg = rng.choice(names)
        if seg == cur["seg"]:
            st["ctl_segment_same"] += 1
        cur["seg"] = seg
        lines.append("\tsegment %s" % seg)
        toks.append("G:%d" % sid())
        st["segsw"] += 1
        if sid() not in pcs:
            # a space selected for the first time starts at the target's own initial value (8051: DATA at $30, IDATA at $80), which
            # the model does not carry: such a space gets its counter from an ORG before anything is placed in it
            do_org()

    def do_res():
        k = rng.choice([1, 1, 2, 3, 16])
        if pc() + k + 2 > lim():
            return
        lines.append(reserve_stmt(cur["t"], k))
        toks.append("R:%d" % k)
        pcs[sid()] = pc() + k
        st["reserves"] += 1

    start = rng.choice([0, 0, 1, 0x40, 0x100])
    org_first = rng.random() < 0.3
    pc0 = 0
    if org_first:
        lines.append("\torg %d" % start)       # the default target's CODE counter
        pc0 = start
        pcs[1] = start
    do_cpu(pick_tid())
    if not org_first or pc() + 40 > lim():
        do_org(start if start + 40 < lim() else 0)

    if shape == "wrap":
        # SAVE / CPU other / [ORG] / data / RESTORE / data, the processor pair chosen freely (families and address units differ or not)
        n = rng.randrange(1, 4)
        for _ in range(n):
            if len(cur["t"]["segs"]) > 1 and rng.random() < 0.5:
                do_segment(other=True)
            if rng.random() < 0.8:
                do_data()
            do_save()
            if len(cur["t"]["segs"]) > 1 and rng.random() < 0.3:
                do_segment(other=True)      # RESTORE changes the address space only
            else:
                do_cpu(pick_tid())          # ... the processor, and the space too if SAVE was outside CODE
                if len(cur["t"]["segs"]) > 1 and rng.random() < 0.3:
                    do_segment(other=True)
            if rng.random() < 0.5:
                do_org()
            for _k in range(rng.randrange(0, 3)):
                do_data()
            do_restore()
    else:
        nst = rng.randrange(4, 40 if tier == "quick" else 120)
        for _ in range(nst):
            r = rng.random()
            if r < 0.36:
                do_data()
            elif r < 0.48:
                if len(stack) < 5:
                    do_save()
            elif r < 0.62:
                if stack:
                    do_restore()
            elif r < 0.74:
                do_cpu(pick_tid() if rng.random() < 0.9 else cur["tid"])
            elif r < 0.82:
                do_segment(other=rng.random() < 0.7)
            elif r < 0.92:
                do_org(pc() if rng.random() < 0.15 else None)
            else:
                do_res()
    while stack:                       # "the stack not empty at the end of a pass" is an error
        do_restore()
    r = rng.random()
    endtok = "-"
    if r < 0.2:
        entry = rng.randrange(0, 0x10000)
        lines.append("\tend %d" % entry)
        endtok = str(entry)
    elif r < 0.4:
        lines.append("\tend")
        endtok = "e"
    tail = "1 1 1 %d %s %s" % (pc0, endtok, " ".join(toks))
    return "\n".join(lines) + "\n", tail, st, []
