"""C04 - sources whose record boundaries are decided by the statement layer (Model/CodeCtl.lean): processor and address
space changed by CPU, SEGMENT, SAVE / RESTORE (nested, with and without a change of the address space), ORG (also to the
current address), reservations, with data directly behind each of them.

The request carries the *statements* (`D: R: O: G: C: S T`, see Driver/C04.lean); which of them open a record is the Lean
MODEL's decision, which (family, segment, granularity, address) every byte belongs to is the Lean SPEC's.  The state kept
here only serves to stay inside the address ranges of the targets."""

# further members of families that are already in c04.TARGETS: another processor, same header byte
EXTRA_TARGETS = [
    dict(cpu="z180", hdr=0x51, segs={"code": (1, 1)}, max_addr={"code": 0xffff}, style="intel"),
    dict(cpu="8052", hdr=0x31, segs={"code": (1, 1), "data": (2, 1), "xdata": (4, 1), "idata": (3, 1)},
         max_addr={"code": 0xffff, "data": 0xff, "xdata": 0xffff, "idata": 0xff}, style="intel"),
    dict(cpu="65c02", hdr=0x11, segs={"code": (1, 1)}, max_addr={"code": 0xffff}, style="moto8"),
    dict(cpu="16c64", hdr=0x70, segs={"code": (1, 2)}, max_addr={"code": 0x7ff}, style="pic"),
]

# byte order class: processors whose 16-bit data the manual / the data books define as high byte first resp. low byte first, with the
# list unit of their back end (ListGrans[SegCode]) and the TurnWords value their SwitchTo_* assigns.  `ops` = (byte data, reservation,
# 16-bit data) directives; `even`: the back end pads byte data to whole words (PADDING in its default state), so only whole words are
# placed and word data stands at even addresses.
ORDER_TARGETS = [
    dict(cpu="h8/300", hdr=0x68, segs={"code": (1, 1)}, max_addr={"code": 0xffff}, style="gen", ops=("dc.b", "ds.b", "dc.w"), big=1, turn=1, lg=2),
    dict(cpu="h8/300h", hdr=0x68, segs={"code": (1, 1)}, max_addr={"code": 0xffffff}, style="gen", ops=("dc.b", "ds.b", "dc.w"), big=1, turn=1, lg=2),
    dict(cpu="hd6475328", hdr=0x69, segs={"code": (1, 1)}, max_addr={"code": 0xffff}, style="gen", ops=("dc.b", "ds.b", "dc.w"), big=1, turn=1, lg=1),
    dict(cpu="6809", hdr=0x63, segs={"code": (1, 1)}, max_addr={"code": 0xffff}, style="gen", ops=("fcb", "rmb", "fdb"), big=1, turn=0, lg=1),
    dict(cpu="6811", hdr=0x61, segs={"code": (1, 1)}, max_addr={"code": 0xffff}, style="gen", ops=("fcb", "rmb", "fdb"), big=1, turn=0, lg=1),
    dict(cpu="tms9900", hdr=0x48, segs={"code": (1, 1)}, max_addr={"code": 0xffff}, style="gen", ops=("byte", "bss", "word"), big=1, turn=1, lg=2, even=1),
    dict(cpu="msp430", hdr=0x4a, segs={"code": (1, 1)}, max_addr={"code": 0xffff}, style="gen", ops=("byte", "bss", "word"), big=0, turn=0, lg=2, even=1),
    dict(cpu="sh7000", hdr=0x6c, segs={"code": (1, 1)}, max_addr={"code": 0xffffff}, style="gen", ops=("dc.b", "ds.b", "dc.w"), big=1, turn=1, lg=2),
    dict(cpu="xgate", hdr=0x04, segs={"code": (1, 1)}, max_addr={"code": 0xffff}, style="gen", ops=("fcb", "rmb", "fdb"), big=1, turn=1, lg=2),
    dict(cpu="z8001", hdr=0x34, segs={"code": (1, 1)}, max_addr={"code": 0xffff}, style="gen", ops=("db", "ds", "dw"), big=1, turn=1, lg=2),
    dict(cpu="1802", hdr=0x38, segs={"code": (1, 1)}, max_addr={"code": 0xffff}, style="gen", ops=("db", "ds", "dw"), big=1, turn=0, lg=1),
]

# the same facts for the processors of c04.TARGETS / EXTRA_TARGETS: cpu -> (16-bit data directive, big, turn, list unit of CODE, largest value)
ORDER_OF = {
    "8051": ("dw", 0, 0, 1, 0xffff), "8052": ("dw", 0, 0, 1, 0xffff), "z80": ("dw", 0, 0, 1, 0xffff), "z180": ("dw", 0, 0, 1, 0xffff),
    "6502": ("adr", 0, 0, 1, 0xffff), "65c02": ("adr", 0, 0, 1, 0xffff), "8086": ("dw", 0, 0, 1, 0xffff),
    "68000": ("dc.w", 1, 1, 2, 0xffff),
    # word-addressed targets: one datum per address unit, low byte first in the code file
    "16c84": ("data", 0, 0, 2, 0x3fff), "16c64": ("data", 0, 0, 2, 0x3fff), "320c25": ("word", 0, 0, 2, 0xffff), "atmega8": ("data", 0, 0, 2, 0xffff),
    "320c30": (None, 0, 0, 4, 0),
}


def order_of(t):
    """(16-bit data directive or None, big, turn, list unit of CODE, largest value, pads to whole words)"""
    if "ops" in t:
        return t["ops"][2], t["big"], t["turn"], t["lg"], 0xffff, bool(t.get("even"))
    wop, big, turn, lg, wmax = ORDER_OF[t["cpu"]]
    return wop, big, turn, lg, wmax, t["style"] == "moto68k"


def params_requests(targets):
    """request lines of driver mode `c04p` (one per processor the generator knows) and the processors they are about"""
    tgts = list(targets) + EXTRA_TARGETS + ORDER_TARGETS
    return ["%s %s" % (t["cpu"].upper(), cpu_token(i + 1, t)[2:]) for i, t in enumerate(tgts)], tgts


def cpu_token(tid, tgt):
    _wop, big, turn, lg, _wmax, _even = order_of(tgt)
    segs = "/".join("%d=%d=%d" % (sid, g, lg if name == "code" else g) for name, (sid, g) in sorted(tgt["segs"].items(), key=lambda kv: kv[1]))
    return "C:%d,%d,%s,%s%s" % (tid, tgt["hdr"], segs, "B" if big else "L", "T" if turn else "N")


def gen_ctl(rng, targets, data_stmt, reserve_stmt, tier, shape=None):
    """returns (source, request tail, stats, [])"""
    tgts = list(targets) + EXTRA_TARGETS + ORDER_TARGETS
    data_stmt0, reserve_stmt0 = data_stmt, reserve_stmt

    def data_stmt(rng_, t, g, hint, budget):
        if "ops" not in t:
            return data_stmt0(rng_, t, g, hint, budget)
        n = max(1, min(hint, budget, 40))
        if t.get("even"):
            n += n & 1
        vals = [rng_.randrange(256) for _ in range(n)]
        return "\t%s %s" % (t["ops"][0], ",".join(map(str, vals))), bytes(vals)

    def reserve_stmt(t, k):
        if "ops" not in t:
            return reserve_stmt0(t, k)
        return "\t%s %d" % (t["ops"][1], k)
    lines, toks = [], []
    st = dict(emits=0, reserves=0, orgs=0, segsw=0, cpusw=0, bigstmt=0, bytes=0, ctl_programs=1, ctl_saves=0, ctl_restores=0,
              ctl_restore_cpu=0, ctl_restore_seg=0, ctl_restore_both=0, ctl_restore_none=0, ctl_restore_gran=0,
              ctl_data_behind_restore=0, ctl_depth_max=0, ctl_org_same=0, ctl_segment_same=0, ctl_cpu_same=0,
              ord_words=0, ord_values=0, ord_behind_cpu=0, ord_behind_restore=0, ord_big=0, ord_little=0, ord_wordlisted=0, ord_bytelisted=0,
              ord_sw_BL=0, ord_sw_LB=0, ord_sw_BB=0, ord_sw_LL=0, ord_sw_turn_changes=0)
    pcs = {1: 0}              # segment id -> counter (address units) of the spaces selected so far
    cur = dict(t=None, tid=0, seg="code")
    stack = []

    def sid():
        return cur["t"]["segs"][cur["seg"]][0]

    def gran():
        return cur["t"]["segs"][cur["seg"]][1]

    def pc():
        return pcs.get(sid(), 0)

    def lim():
        return cur["t"]["max_addr"][cur["seg"]]

    def note_switch(t):
        if cur["t"] is not None and cur["t"] is not t:
            o, n = order_of(cur["t"]), order_of(t)
            st["ord_sw_" + "LB"[o[1]] + "LB"[n[1]]] += 1
            if o[2] != n[2]:
                st["ord_sw_turn_changes"] += 1

    def do_words(direct=False):
        """a statement placing 16-bit data; what bytes that means is decided in Lean (MODEL: word buffer / TurnWords / DreheCodes,
        SPEC: byte order of the processor in effect)"""
        t = cur["t"]
        wop, big, _turn, lg, wmax, even = order_of(t)
        if wop is None or cur["seg"] != "code":
            return False
        g = gran()
        n = rng.choice([1, 1, 2, 3, 4, 8]) if rng.random() < 0.9 else rng.choice([100, 127, 128, 129])
        units = n * 2 // g
        if even and g == 1 and pc() % 2 == 1:
            if direct:
                return False
            do_org(pc() + 1)
        if pc() + units + 2 > lim():
            if direct:
                return False
            do_org(2 * rng.randrange(0, max(1, min(lim() // 4, 0x40))))
            if pc() + units + 2 > lim():
                return False
        vals = [rng.choice([0x1234, 0xff00, 0x00ff, 0x8001, 0x0100, 0x0001]) & wmax if rng.random() < 0.3 else rng.randrange(wmax + 1) for _ in range(n)]
        lines.append("\t%s %s" % (wop, ",".join(map(str, vals))))
        toks.append("W:" + ",".join(map(str, vals)))
        pcs[sid()] = pc() + units
        st["emits"] += 1
        st["bytes"] += 2 * n
        st["ord_words"] += 1
        st["ord_values"] += n
        st["ord_big" if big else "ord_little"] += 1
        st["ord_wordlisted" if lg == 2 else "ord_bytelisted"] += 1
        return True

    def do_cpu(tid, direct_words=True):
        t = tgts[tid]
        if cur["t"] is t:
            st["ctl_cpu_same"] += 1
        note_switch(t)
        cur.update(t=t, tid=tid, seg="code")
        lines.append("\tcpu %s" % t["cpu"])
        toks.append(cpu_token(tid + 1, t))
        st["cpusw"] += 1
        if direct_words and rng.random() < 0.5 and do_words(direct=True):
            st["ord_behind_cpu"] += 1

    def do_org(a=None):
        if a is None:
            a = rng.randrange(0, min(lim() // 2, 0x180)) if rng.random() < 0.85 else rng.randrange(0, lim() // 2)
        if a == pc():
            st["ctl_org_same"] += 1
        lines.append("\torg %d" % a)
        toks.append("O:%d" % a)
        pcs[sid()] = a
        st["orgs"] += 1

    def do_data(direct=False):
        g = gran()
        units = rng.choice([1, 1, 2, 3, 4, 8, 16]) if rng.random() < 0.9 else rng.choice([100, 255, 256, 300])
        if cur["t"]["style"] == "moto68k" or cur["t"].get("even"):
            units += units & 1          # PADDING is in its default state after a processor change: whole words only
        if pc() + units + 2 > lim():
            if direct:
                return False
            do_org(rng.randrange(0, max(1, min(lim() // 2, 0x80))))
            if pc() + units + 2 > lim():
                units = 2
        for _ in range(20):
            src, bs = data_stmt(rng, cur["t"], g, units * g, units * g)
            if (cur["t"]["style"] != "moto68k" and not cur["t"].get("even")) or len(bs) % 2 == 0:
                break
        else:
            return False
        if pc() + len(bs) // g > lim():
            return False
        lines.append(src)
        toks.append("D:" + bs.hex())
        pcs[sid()] = pc() + len(bs) // g
        st["emits"] += 1
        st["bytes"] += len(bs)
        return True

    def do_save():
        stack.append((cur["t"], cur["tid"], cur["seg"]))
        lines.append("\tsave")
        toks.append("S")
        st["ctl_saves"] += 1
        st["ctl_depth_max"] = max(st["ctl_depth_max"], len(stack))

    def do_restore():
        t, tid, seg = stack.pop()
        dc = t is not cur["t"]
        ds = t["segs"][seg][0] != sid()
        g0 = gran()
        st["ctl_restore_" + ("both" if dc and ds else "cpu" if dc else "seg" if ds else "none")] += 1
        note_switch(t)
        cur.update(t=t, tid=tid, seg=seg)
        if gran() != g0:
            st["ctl_restore_gran"] += 1
        lines.append("\trestore")
        toks.append("T")
        st["ctl_restores"] += 1
        if rng.random() < 0.4 and do_words(direct=True):
            st["ord_behind_restore"] += 1
            st["ctl_data_behind_restore"] += 1
        elif rng.random() < 0.8 and do_data(direct=True):
            st["ctl_data_behind_restore"] += 1

    multi = [i for i, t in enumerate(tgts) if len(t["segs"]) > 1]

    bigs = [i for i, t in enumerate(tgts) if order_of(t)[1]]
    littles = [i for i, t in enumerate(tgts) if not order_of(t)[1] and order_of(t)[0]]

    def pick_tid():
        # targets with several address spaces (of equal or different address units) often enough for RESTORE to change the space
        if shape == "order":
            # alternate between the byte orders more often than chance would
            was_big = cur["t"] is not None and order_of(cur["t"])[1]
            r = rng.random()
            return rng.choice(littles if was_big else bigs) if r < 0.6 else rng.randrange(len(tgts))
        return rng.choice(multi) if rng.random() < 0.35 else rng.randrange(len(tgts))

    def do_segment(other=False):
        names = sorted(cur["t"]["segs"])
        if other and len(names) > 1:
            names = [n for n in names if n != cur["seg"]]
        seg = rng.choice(names)
        if seg == cur["seg"]:
            st["ctl_segment_same"] += 1
        cur["seg"] = seg
        lines.append("\tsegment %s" % seg)
        toks.append("G:%d" % sid())
        st["segsw"] += 1
        if sid() not in pcs:
            # a space selected for the first time starts at the target's own initial value (8051: DATA at $30, IDATA at $80), which
            # the model does not carry: such a space gets its counter from an ORG before anything is placed in it
            do_org()

    def do_res():
        k = rng.choice([1, 1, 2, 3, 16])
        if pc() + k + 2 > lim():
            return
        lines.append(reserve_stmt(cur["t"], k))
        toks.append("R:%d" % k)
        pcs[sid()] = pc() + k
        st["reserves"] += 1

    start = rng.choice([0, 0, 1, 0x40, 0x100])
    org_first = rng.random() < 0.3
    pc0 = 0
    if org_first:
        lines.append("\torg %d" % start)       # the default target's CODE counter
        pc0 = start
        pcs[1] = start
    do_cpu(pick_tid())
    if not org_first or pc() + 40 > lim():
        do_org(start if start + 40 < lim() else 0)

    if shape == "wrap":
        # SAVE / CPU other / [ORG] / data / RESTORE / data, the processor pair chosen freely (families and address units differ or not)
        n = rng.randrange(1, 4)
        for _ in range(n):
            if len(cur["t"]["segs"]) > 1 and rng.random() < 0.5:
                do_segment(other=True)
            if rng.random() < 0.8:
                do_data()
            do_save()
            if len(cur["t"]["segs"]) > 1 and rng.random() < 0.3:
                do_segment(other=True)      # RESTORE changes the address space only
            else:
                do_cpu(pick_tid())          # ... the processor, and the space too if SAVE was outside CODE
                if len(cur["t"]["segs"]) > 1 and rng.random() < 0.3:
                    do_segment(other=True)
            if rng.random() < 0.5:
                do_org()
            for _k in range(rng.randrange(0, 3)):
                do_data()
            do_restore()
    elif shape == "order":
        # processors of both byte orders, word- and byte-listed, one after the other (by CPU or by SAVE / CPU / RESTORE), 16-bit
        # data directly behind each change
        for _ in range(rng.randrange(2, 9)):
            r = rng.random()
            if r < 0.6:
                do_cpu(pick_tid())
            elif r < 0.8 or len(stack) >= 4:
                do_save()
                do_cpu(pick_tid())
                if rng.random() < 0.5:
                    do_data()
                do_restore()
            else:
                do_save()
                do_cpu(pick_tid())
            for _k in range(rng.randrange(0, 3)):
                r = rng.random()
                if r < 0.5:
                    do_words()
                elif r < 0.8:
                    do_data()
                elif r < 0.9:
                    do_org()
                else:
                    do_res()
    else:
        nst = rng.randrange(4, 40 if tier == "quick" else 120)
        for _ in range(nst):
            r = rng.random()
            if r < 0.12:
                do_words()
            elif r < 0.36:
                do_data()
            elif r < 0.48:
                if len(stack) < 5:
                    do_save()
            elif r < 0.62:
                if stack:
                    do_restore()
            elif r < 0.74:
                do_cpu(pick_tid() if rng.random() < 0.9 else cur["tid"])
            elif r < 0.82:
                do_segment(other=rng.random() < 0.7)
            elif r < 0.92:
                do_org(pc() if rng.random() < 0.15 else None)
            else:
                do_res()
    while stack:                       # "the stack not empty at the end of a pass" is an error
        do_restore()
    r = rng.random()
    endtok = "-"
    if r < 0.2:
        entry = rng.randrange(0, 0x10000)
        lines.append("\tend %d" % entry)
        endtok = str(entry)
    elif r < 0.4:
        lines.append("\tend")
        endtok = "e"
    tail = "1 1 1 %d %s %s" % (pc0, endtok, " ".join(toks))
    return "\n".join(lines) + "\n", tail, st, []
