"""C18, invocation options that create per-file state or per-file outputs.  Called from c18.py.

The histories of c18.py run with `-q -i <include>` only and compare code file, status and console diagnostics.  Here every history is
run under a set of invocation options - applied to BOTH the joint run and the stand-alone runs - and every file the runs leave behind is
compared:

(C)  spec on the implementation, differential: `asl f1 .. fn <options>` in one directory vs `asl fk <options>` in a directory of its own
     (same relative names): exit status = worst of the single ones; stdout / stderr = concatenation; every per-file output
     (.p .log .lst .map .noi .obj .inc .h .i .mac, and the names given with -o / -olist / -shareout) exists in the joint directory iff the
     stand-alone run of its source leaves it, byte for byte (after date / time normalisation); an output several files share (the error
     log of `-E <name>`) is the concatenation of the stand-alone ones.  A file that ends in a fatal error ends the run: the files up to
     and including it are compared, nothing may exist for the later ones.
     Option atoms: -E (no name / name / !1 / !2), -L, -l, -olist, -g [MAP|NOICE|ATMEL], -s, -a/-c/-p, -shareout, -P, -M, -Y, -r, -u, -C,
     -I, -x, -x -x, -maxerrors, -Werror, -U, -i, -D, -n, -w, -gnuerrors, -t, -listradix, -h, -A, -G, -o, without -q; each alone and in
     random small sets.  Predecessors end in every kind of state: clean, warnings only, errors, genuine jump-distance / page errors
     (1370 / 1910, counted in JmpErrors), a jump error that a repass takes back (-Y), fatal, -maxerrors stop, open constructs;
     successors: single pass with messages, several passes with moving labels (1..3 forward references that shorten an instruction),
     marginal jumps, sections / macros / shared symbols / includes.
(B)  correspondence, driver mode `c18o`: Model/FileOut.lean (AssembleFile's pass loop over a small 6502 statement set with the symbol
     table carried from pass to pass, WrErrorString's counters and lazily opened error log, EnterSymbol's JmpErrors / -Y path, the
     per-file and per-run close of the log, -maxerrors / -Werror) must predict passes, counters, kept code file, status and the message
     sequence of every destination for generated histories; the SPEC (`FilesSpec.independentB` per file + concatenation for shared
     destinations) is evaluated by the driver on the observations of the real runs.
"""
import os
import re
import shutil

from .. import common

OUT_EXT = (".p", ".log", ".lst", ".map", ".noi", ".obj", ".inc", ".h", ".i", ".mac", ".cod")

# ---------------------------------------------------------------------------------------------------------------------------------
# option atoms: name -> function(stems of this run, rng-free parameters) -> argument list
# (`-E` / `-g` without argument are only ever followed by another option or the end of the command line)


def _per(opt, suffix):
    return lambda st: sum([[opt, s + suffix] for s in st], [])


ATOMS = {
    "E": lambda st: ["-E"],
    "E-name": lambda st: ["-E", "errs.txt"],
    "E-1": lambda st: ["-E", "!1"],
    "E-2": lambda st: ["-E", "!2"],
    "L": lambda st: ["-L"],
    "l": lambda st: ["-l"],
    "olist": lambda st: ["-L"] + _per("-olist", "_l.lst")(st),
    "g": lambda st: ["-g"],
    "gMAP": lambda st: ["-g", "MAP"],
    "gNOICE": lambda st: ["-g", "NOICE"],
    "gATMEL": lambda st: ["-g", "ATMEL"],
    "s": lambda st: ["-L", "-s"],
    "a": lambda st: ["-a"],
    "c": lambda st: ["-c"],
    "p": lambda st: ["-p"],
    "shareout": lambda st: ["-a"] + _per("-shareout", "_s.inc")(st),
    "P": lambda st: ["-P"],
    "M": lambda st: ["-M"],
    "Y": lambda st: ["-Y"],
    "r": lambda st: ["-r"],
    "u": lambda st: ["-L", "-u"],
    "C": lambda st: ["-L", "-C"],
    "I": lambda st: ["-L", "-I"],
    "x": lambda st: ["-x"],
    "xx": lambda st: ["-x", "-x"],
    "maxerrors1": lambda st: ["-maxerrors", "1"],
    "maxerrors2": lambda st: ["-maxerrors", "2"],
    "maxerrors5": lambda st: ["-maxerrors", "5"],
    "Werror": lambda st: ["-Werror"],
    "U": lambda st: ["-U"],
    "i": lambda st: ["-i", "incdir"],
    "D": lambda st: ["-D", "DSYM=3"],
    "n": lambda st: ["-n"],
    "w": lambda st: ["-w"],
    "gnuerrors": lambda st: ["-gnuerrors"],
    "t": lambda st: ["-L", "-t", "255"],
    "listradix": lambda st: ["-L", "-listradix", "8"],
    "h": lambda st: ["-h"],
    "A": lambda st: ["-A"],
    "G": lambda st: ["-G"],
    "o": _per("-o", "_o.p"),
    "noq": lambda st: [],
}
ATOM_NAMES = sorted(ATOMS)
EXCL = [{"E", "E-name", "E-1", "E-2"}, {"g", "gMAP", "gNOICE", "gATMEL"}, {"a", "c", "p", "shareout"}, {"L", "l"},
        {"maxerrors1", "maxerrors2", "maxerrors5"}, {"x", "xx"}, {"l", "olist"}]


def build_args(atoms, stems):
    """files first, then the options; atoms with an optional argument last"""
    args = [s + ".asm" for s in stems]
    if "noq" not in atoms:
        args.append("-q")
    late = [a for a in atoms if a in ("g", "E")]
    for a in [x for x in atoms if x not in late] + sorted(late, reverse=True):
        args += ATOMS[a](stems)
    return args


def gen_atoms(rng, must=None):
    n = rng.choice([1, 2, 2, 3, 3, 4])
    atoms = [must] if must else []
    tries = 0
    while len(atoms) < n and tries < 30:
        tries += 1
        a = rng.choice(ATOM_NAMES)
        if a in atoms or any(a in g and any(b in g for b in atoms) for g in EXCL):
            continue
        atoms.append(a)
    return atoms


# ---------------------------------------------------------------------------------------------------------------------------------
# source generators (differential part): (cpu, branch, filler(n), nop, shrinking load or None)

FAMS = [
    dict(cpu="6502", br="bne", fill=lambda n: "dfs %d" % n, nop="nop", shrink="lda"),
    dict(cpu="65c02", br="bra", fill=lambda n: "dfs %d" % n, nop="nop", shrink="lda"),
    dict(cpu="6809", br="bne", fill=lambda n: "rmb %d" % n, nop="nop", shrink="lda"),
    dict(cpu="6811", br="bne", fill=lambda n: "rmb %d" % n, nop="nop", shrink="ldaa"),
    dict(cpu="z80", br="jr", fill=lambda n: "ds %d" % n, nop="nop", shrink=None),
    dict(cpu="8051", br="sjmp", fill=lambda n: "ds %d" % n, nop="nop", shrink=None),
    dict(cpu="68000", br="bra.s", fill=lambda n: "ds.b %d" % (2 * n), nop="nop", shrink=None),
]
PAGE_ERR = [["\tcpu 8048", "\torg 0f0h", "\tjc pg%d", "\torg 120h", "pg%d:\tnop"],
            ["\tcpu 8051", "\torg 0", "\tajmp pg%d", "\torg 1000h", "pg%d:\tnop"]]

_uid = [0]


def _u():
    _uid[0] += 1
    return _uid[0]


def tail_extras(rng, lines, stem, atoms=()):
    """statements that give the option-dependent outputs something to say"""
    k = _u()
    if rng.random() < 0.5:
        lines += ["Sh%d\tequ %d" % (k, rng.randrange(1, 200)), "\tshared Sh%d" % k]
    if rng.random() < 0.4:
        lines += ["mc%d\tmacro p1" % k, "\tnop", "\tendm", "\tmc%d 1" % k]
    if rng.random() < 0.3:
        lines += ["\tifdef DSYM", "\tmessage \"dsym=\\{DSYM}\"", "\tendif"]
    if rng.random() < 0.3:
        lines += ["MixCase%d:" % k, "\tifdef mixcase%d" % k, "\tnop", "\tendif"]
    if rng.random() < 0.3:
        lines += ["\tsection sc%d" % k, "loc%d:\tnop" % k, "\tendsection"]
    if rng.random() < 0.3:
        lines += ["\tinclude \"cmn.inc\""]
    if rng.random() < (0.5 if "i" in atoms else 0.04):   # found through -i only: a fatal error without it
        lines += ["\tinclude \"deep.inc\""]
    return lines


def gen_source(rng, kind, stem, atoms=()):
    f = rng.choice([x for x in FAMS if x["shrink"]] if kind in ("multi", "multi-jmp") else FAMS)
    k = _u()
    L = ["\tcpu " + f["cpu"], "\torg $%x" % rng.choice([0x100, 0x1000, 0x2000])] if f["cpu"] not in ("z80", "8051") else ["\tcpu " + f["cpu"], "\torg %d" % rng.choice([256, 4096])]
    L.append("\t" + f["nop"])

    def jump_err(n=1):
        out = []
        for _ in range(n):
            j = _u()
            if rng.random() < 0.6:
                out += ["tg%d:\t%s" % (j, f["nop"]), "\t" + f["fill"](rng.randrange(140, 400)), "\t%s tg%d" % (f["br"], j)]
            else:
                out += ["\t%s tg%d" % (f["br"], j), "\t" + f["fill"](rng.randrange(140, 400)), "tg%d:\t%s" % (j, f["nop"])]
        return out

    def shrinkers(n):
        out, eq = [], []
        ff = f
        for _ in range(n):
            j = _u()
            out += ["\t%s zq%d" % (ff["shrink"], j), "mv%d:\t%s" % (j, ff["nop"])]
            eq.append("zq%d\tequ $%x" % (j, rng.randrange(0x10, 0xf0)))
            if rng.random() < 0.4:
                out.append("\t" + ff["fill"](rng.randrange(1, 20)))
        return out, eq

    if kind == "clean":
        L += ["\t" + f["nop"]] * rng.randrange(1, 4)
    elif kind == "warn":
        for _ in range(rng.randrange(1, 4)):
            L += ["\twarning \"w%d\"" % _u(), "\t" + f["nop"]]
    elif kind == "err":
        for _ in range(rng.randrange(1, 4)):
            L += [rng.choice(["\terror \"e%d\"" % _u(), "\tnosuchinstr%d 1" % _u(), "\t%s undefsym%d" % (f["br"], _u())]), "\t" + f["nop"]]
        if rng.random() < 0.5:
            L += ["\twarning \"w%d\"" % _u()]
    elif kind == "jmp":
        if rng.random() < 0.4:
            L += ["\twarning \"w%d\"" % _u()]
        L += jump_err(rng.randrange(1, 4))
    elif kind == "jmp-mixed":
        L += jump_err(1) + ["\terror \"e%d\"" % _u()] + jump_err(rng.randrange(1, 3))
    elif kind == "page":
        p = rng.choice(PAGE_ERR)
        L = [x % k if "%d" in x else x for x in p]
    elif kind == "marginal":
        # forward branch over an instruction that gets shorter: out of range in pass 2 only (what -Y is for)
        L = ["\tcpu 6502", "\torg $1000", "\tbne mg%d" % k, "\tlda zm%d" % k, "\tdfs 125", "mg%d:\tnop" % k, "zm%d\tequ $%x" % (k, rng.randrange(0x10, 0xf0))]
    elif kind == "multi":
        s, eq = shrinkers(rng.randrange(1, 4))
        L += s
        if rng.random() < 0.5:
            L += ["\twarning \"w%d\"" % _u()]
        if rng.random() < 0.25:
            L += ["\terror \"e%d\"" % _u()]
        L += eq
    elif kind == "multi-jmp":
        s, eq = shrinkers(rng.randrange(1, 3))
        L += s + jump_err(1) + eq
    elif kind == "fatal":
        if rng.random() < 0.5:
            L += ["\twarning \"w%d\"" % _u()]
        L += [rng.choice(["\tfatal \"f%d\"" % _u(), "\tinclude \"nosuchfile%d.inc\"" % _u()]), "\t" + f["nop"]]
    elif kind == "many":
        L += ["\terror \"e%d\"" % _u() for _ in range(rng.randrange(2, 8))]
    elif kind == "open":
        L += rng.choice([["\tif 1", "\tnop"], ["mo%d\tmacro" % k, "\tnop"], ["\tsection so%d" % k, "\tnop"], ["so%d\tstruct" % k, "fo%d\tdfs 1" % k],
                         ["\tif 0", "\tnop"], ["\trept 2", "\tnop"]]) if f["cpu"] == "6502" else ["\tif 1", "\t" + f["nop"]]
    elif kind == "rich":
        L = ["\tcpu z80", "\torg 100h", "sel%d\tequ 2" % k, "\tswitch sel%d" % k, "\tcase 1", "\tdb 11h", "\tcase 2", "\tdb 22h", "\tendcase",
             "mm%d\tmacro a,b=7" % k, "\tdb a,b", "\tendm", "\tmm%d 1" % k, "\tmm%d 2,3" % k, "\trept 2", "\tdb 55h", "\tendm",
             "rc%d\tstruct" % k, "f1\tdb ?", "f2\tdw ?", "rc%d\tendstruct" % k, "\tsection s%d" % k, "lo%d:\tnop" % k, "\tpublic gl%d" % k, "gl%d:\tnop" % k, "\tendsection",
             "\tdw gl%d,fw%d" % (k, k), "db%d\tfunction x,x*2" % k, "\tdb db%d(21)" % k, "\tmessage \"v=\\{sel%d}\"" % k, "\tjr fw%d" % k, "fw%d:\tnop" % k]
        if rng.random() < 0.4:
            L += ["\twarning \"w%d\"" % _u()]
    else:
        raise AssertionError(kind)
    if kind not in ("fatal",):
        L = tail_extras(rng, L, stem, atoms)
    return L


PRED_KINDS = ["clean", "warn", "err", "jmp", "jmp", "jmp-mixed", "page", "marginal", "multi", "multi-jmp", "fatal", "many", "open", "rich"]
SUCC_KINDS = ["multi", "multi", "warn", "err", "marginal", "multi-jmp", "rich", "clean", "jmp"]

_NORM = [(re.compile(rb"\d{1,2}/\d{1,2}/\d{2,4}"), b"<date>"), (re.compile(rb"\d{1,2}:\d\d:\d\d"), b"<time>"),
         (re.compile(rb"\d+[.,]\d\d seconds"), b"<t> seconds"), (re.compile(rb"\d+ KByte available RAM"), b"<n> KByte"), (re.compile(rb"\d+ KByte stack"), b"<n> KByte")]


def norm(b):
    for rx, rep in _NORM:
        b = rx.sub(rep, b)
    return b


def norm_console(b, quiet):
    b = norm(b)
    if not quiet:
        # the program banner is printed once per invocation, in front of the first file
        m = re.search(rb"(?m)^Assembling ", b)
        b = b[m.start():] if m else b
    return b


def run_dir(bdir, base, tag, files, stems, atoms, aux):
    """assemble `stems` (subset of files, in order) in a fresh directory; returns (rc, stdout, stderr, {output name: bytes})"""
    d = os.path.join(base, tag)
    if os.path.isdir(d):
        shutil.rmtree(d)
    os.makedirs(os.path.join(d, "incdir"))
    for s in stems:
        with open(os.path.join(d, s + ".asm"), "w") as fh:
            fh.write("\n".join(files[s]) + "\n")
    for name, txt in aux.items():
        with open(os.path.join(d, name), "w") as fh:
            fh.write(txt)
    keep = set(os.listdir(d)) | set("incdir/" + x for x in os.listdir(os.path.join(d, "incdir")))
    rc, so, se = common.run_tool(bdir, "asl", ["-i", os.path.join(common.REPO, "include")] + build_args(atoms, stems), d, timeout=60)
    outs = {}
    for fn in sorted(os.listdir(d)):
        p = os.path.join(d, fn)
        if fn in keep or not os.path.isfile(p):
            continue
        b = open(p, "rb").read()
        outs[fn] = b if fn.endswith(".p") else norm(b.replace(d.encode(), b"<dir>"))
    quiet = "noq" not in atoms
    return rc, norm_console(so.replace(d.encode(), b"<dir>"), quiet), norm_console(se.replace(d.encode(), b"<dir>"), quiet), outs, d


AUX = {"cmn.inc": "cmnsym\tset 7\n\tmessage \"cmn\"\n", "incdir/deep.inc": "deepsym\tset 8\n"}


def owner_of(fn, stems):
    """the source a per-file output name belongs to (longest stem that prefixes the name)"""
    cands = [s for s in stems if fn == s or fn.startswith(s + ".") or fn.startswith(s + "_")]
    return max(cands, key=len) if cands else None


def compare(stems, joint, singles):
    """joint/singles[k] = (rc, so, se, outs).  singles may be shorter than stems (a fatal file ends the run).  returns list of differences"""
    diffs = []
    rcs = [s[0] for s in singles]
    exp_rc = "abnormal" if any(not isinstance(r, int) or r < 0 or r > 3 for r in rcs) else max(rcs)
    if joint[0] != exp_rc:
        diffs.append("exit status %s, stand-alone runs %s" % (joint[0], rcs))
    if joint[1] != b"".join(s[1] for s in singles):
        diffs.append("stdout differs from the concatenation of the stand-alone runs")
    if joint[2] != b"".join(s[2] for s in singles):
        diffs.append("stderr differs from the concatenation of the stand-alone runs")
    names = set(joint[3])
    for s in singles:
        names |= set(s[3])
    for fn in sorted(names):
        have = [k for k, s in enumerate(singles) if fn in s[3]]
        own = owner_of(fn, stems)
        if own is not None:
            k = stems.index(own)
            exp = singles[k][3].get(fn) if k < len(singles) else None
            got = joint[3].get(fn)
            if exp is None and got is not None:
                diffs.append("%s exists after the joint run, the stand-alone run of %s.asm leaves none (%d bytes: %r)" % (fn, own, len(got), got[:200]))
            elif exp is not None and got is None:
                diffs.append("%s is missing after the joint run, the stand-alone run of %s.asm leaves it (%d bytes)" % (fn, own, len(exp)))
            elif exp != got:
                diffs.append("%s differs from the one of the stand-alone run of %s.asm (joint %d bytes %r / alone %d bytes %r)" % (fn, own, len(got), got[:300], len(exp), exp[:300]))
        else:
            exp = b"".join(singles[k][3][fn] for k in have)
            got = joint[3].get(fn)
            if got is None:
                diffs.append("shared output %s is missing after the joint run" % fn)
            elif got != exp:
                diffs.append("shared output %s is not the concatenation of the stand-alone ones (joint %r / alone %r)" % (fn, got[:300], exp[:300]))
    return diffs


def sig_of(diffs, atoms):
    """stable signature of a failure class: which observable broke under which option group"""
    what = []
    for d in diffs:
        m = re.match(r"(?:shared output )?\S*?(\.[a-z]+|_[los]\.[a-z]+) ", d)
        what.append("exit-status" if d.startswith("exit") else "stdout" if d.startswith("stdout") else "stderr" if d.startswith("stderr")
                    else "output" + (m.group(1) if m else ""))
    return "options:%s:%s" % ("+".join(sorted(atoms)) or "-", "+".join(sorted(set(what))))


# ---------------------------------------------------------------------------------------------------------------------------------
# model histories (driver mode c18o)

def gen_model_file(rng, kind):
    """op list of Model/FileOut.lean; rendered on the 6502"""
    ops = []
    nl = [0]

    def lab():
        nl[0] += 1
        return nl[0]

    def filler():
        if rng.random() < 0.5:
            ops.append(("c", rng.randrange(1, 30)))

    def jbad():
        n = lab()
        if rng.random() < 0.6:
            ops.extend([("L", n), ("c", rng.randrange(130, 300)), ("b", n)])
        else:
            ops.extend([("b", n), ("c", rng.randrange(130, 300)), ("L", n)])

    def shrink():
        n = lab()
        ops.extend([("z", n), ("L", n)])

    def marginal():
        n = lab()
        ops.extend([("b", n), ("z", n), ("c", 125), ("L", n)])

    def okjump():
        n = lab()
        ops.extend([("L", n), ("c", rng.randrange(1, 100)), ("b", n)])
    body = {"clean": [filler, okjump], "warn": [lambda: ops.append(("w",)), filler, lambda: ops.append(("w",))],
            "err": [lambda: ops.append(("e",)), filler], "jmp": [filler, jbad], "jmp2": [jbad, lambda: ops.append(("w",)), jbad],
            "marginal": [filler, marginal], "multi": [shrink, filler, lambda: ops.append(("w",))], "multi2": [shrink, okjump, shrink],
            "multi-jmp": [shrink, jbad], "marginal-after-shrink": [shrink, marginal], "fatal": [lambda: ops.append(("w",)), lambda: ops.append(("f",)), filler],
            "many": [lambda: ops.append(("e",))] * rng.randrange(2, 6), "jmp-err": [jbad, lambda: ops.append(("e",))],
            "random": None}[kind]
    if body is None:
        prims = [filler, okjump, jbad, shrink, marginal, lambda: ops.append(("w",)), lambda: ops.append(("e",)), shrink, filler]
        body = [rng.choice(prims) for _ in range(rng.randrange(1, 6))]
    for fn in body:
        fn()
    return ops


M_PRED = ["clean", "warn", "err", "jmp", "jmp2", "marginal", "multi", "multi-jmp", "fatal", "many", "jmp-err", "random", "random"]
M_SUCC = ["multi", "multi2", "warn", "marginal", "marginal-after-shrink", "multi-jmp", "err", "random", "random", "jmp"]
M_DEST = [("P", ["-E"]), ("N", ["-E", "errs.txt"]), ("1", ["-E", "!1"]), ("2", ["-E", "!2"]), ("2", [])]


def render_model(ops):
    """-> lines, {line number: op index}"""
    lines = ["\tcpu 6502", "\torg $1000"]
    where = {}
    zs = []
    for i, op in enumerate(ops):
        where[len(lines) + 1] = i
        if op[0] == "w":
            lines.append("\twarning \"m\"")
        elif op[0] == "e":
            lines.append("\terror \"m\"")
        elif op[0] == "f":
            lines.append("\tfatal \"m\"")
        elif op[0] == "c":
            lines.append("\tdfs %d" % op[1])
        elif op[0] == "L":
            lines.append("lb%d:" % op[1])
        elif op[0] == "b":
            lines.append("\tbne lb%d" % op[1])
        elif op[0] == "z":
            lines.append("\tlda zq%d" % op[1])
            zs.append(op[1])
    for z in zs:
        lines.append("zq%d\tequ $%x" % (z, 0x10 + z))
    return lines, where


def op_tok(op):
    return op[0] + ("%d" % op[1] if len(op) > 1 else "")


_MSG = re.compile(rb"^(?:> > > )?(\w+)\.asm\((\d+)\)(?::\d+)?: (error|warning)")


def decode_msgs(b, wheres):
    """message stream of one destination -> tokens `<file index>.<op index><E|W>`, `F` (fatal line), `T` (too many errors), `?` (anything else)"""
    toks = []
    for l in b.split(b"\n"):
        if not l.strip():
            continue
        m = _MSG.match(l)
        if m:
            st = m.group(1).decode()
            k = int(st[1:]) if st[0] == "f" and st[1:].isdigit() else None
            i = wheres[k].get(int(m.group(2))) if k is not None and k < len(wheres) else None
            toks.append("%s.%s%s" % (k, "x" if i is None else i, "E" if m.group(3) == b"error" else "W"))
        elif b"fatal" in l.lower():
            toks.append("F")
        elif b"too many" in l.lower():
            toks.append("T")
        else:
            toks.append("?")
    return toks


def observe(res, stems_run, first, dest, wheres):
    """observations of one real run for the driver: per file `<kept>` and the streams `<name>=<tokens>`"""
    rc, so, se, outs, _d = res
    kept = ["1" if (s + ".p") in outs else "0" for s in stems_run]
    streams = {}
    streams["!1"] = decode_msgs(so, wheres)
    streams["!2"] = decode_msgs(se, wheres)
    for fn, b in outs.items():
        if fn.endswith(".log") or fn == "errs.txt":
            streams[fn] = decode_msgs(b, wheres)
    st = ";".join("%s=%s" % (n, ",".join(t) or "-") for n, t in sorted(streams.items()) if t or n.endswith(".log") or n == "errs.txt")
    return "%s/%s/%s" % (rc, ",".join(kept), st or "-")


def run(bdir, wd, args, rng, spec_fail, corr_fail, proof_problems, dist, distinct, samples, drv_ok):
    quick = args.tier == "quick"
    base = os.path.join(wd, "opt")
    os.makedirs(base, exist_ok=True)
    evaluations = 0
    dist["option_histories"] = 0
    dist["option_atoms"] = {}
    dist["option_pred_kinds"] = {}
    dist["option_pred_states"] = {"ok": 0, "failed": 0, "fatal": 0}
    dist["option_outputs_compared"] = {}

    # ---------------- (C) differential histories under option sets
    import json
    plan = []
    fixed = []      # regression histories corpus/C18/opt_*.json, run first
    cdir = os.path.join(common.VERIF, "corpus", "C18")
    for fn in sorted(os.listdir(cdir)) if os.path.isdir(cdir) else []:
        if fn.startswith("opt_") and fn.endswith(".json"):
            d = json.load(open(os.path.join(cdir, fn)))
            if d.get("kind") == "options":
                fixed.append((d["atoms"], "corpus:" + fn[4:-5], [(s, l) for s, l in d["files"]]))
    dist["option_corpus_histories"] = len(fixed)
    for a in ATOM_NAMES:                      # every atom alone, against two predecessor kinds that leave state behind
        plan.append(([a], rng.choice(["warn", "jmp"]), rng.choice(SUCC_KINDS)))
        plan.append(([a], rng.choice(PRED_KINDS), rng.choice(SUCC_KINDS)))
    for pk in PRED_KINDS:                     # every predecessor kind under the options that keep state of their own, against a multi-pass successor and a random one
        for must in ("E", "Y", "E-name"):
            plan.append(([must], pk, "multi"))
            plan.append((gen_atoms(rng, must), pk, rng.choice(SUCC_KINDS)))
    # the -maxerrors stop (exit 3) as the end of a predecessor, alone and with the options above
    plan += [(["maxerrors2"], "many", "multi"), (["maxerrors1", "E"], "err", "multi"), (["maxerrors2", "Y"], "jmp", "multi"),
             (["maxerrors5", "E-name"], "many", "warn"), (["maxerrors1", "Werror", "E"], "warn", "multi")]
    for _ in range(60 if quick else 1500):
        plan.append((gen_atoms(rng), rng.choice(PRED_KINDS), rng.choice(SUCC_KINDS)))
    for hno, (atoms, pk, sk) in enumerate(fixed + plan):
        if isinstance(sk, list):
            stems, kinds, files = [s for s, _l in sk], [pk], {s: l for s, l in sk}
        else:
            three = rng.random() < 0.25
            stems = ["pa", "sb"] + (["tc"] if three else [])
            kinds = [pk, sk] + ([rng.choice(SUCC_KINDS)] if three else [])
            if three and rng.random() < 0.5:
                kinds = [rng.choice(PRED_KINDS), pk, sk]
            files = {s: gen_source(rng, k, s, atoms) for s, k in zip(stems, kinds)}
        tag = "opt:%d:%s:%s" % (hno, "+".join(atoms), ">".join(kinds))
        joint = run_dir(bdir, base, "j", files, stems, atoms, AUX)
        singles = []
        for s in stems:
            r = run_dir(bdir, base, "s_" + s, files, [s], atoms, AUX)
            singles.append(r)
            if r[0] == 3:
                break      # a fatal error ends the run: later files are not assembled
        evaluations += 1
        dist["option_histories"] += 1
        for a in atoms:
            dist["option_atoms"][a] = dist["option_atoms"].get(a, 0) + 1
        dist["option_pred_kinds"][kinds[0]] = dist["option_pred_kinds"].get(kinds[0], 0) + 1
        dist["option_pred_states"][{0: "ok", 2: "failed", 3: "fatal"}.get(singles[0][0], "failed")] += 1
        for fn in joint[3]:
            e = os.path.splitext(fn)[1]
            dist["option_outputs_compared"][e] = dist["option_outputs_compared"].get(e, 0) + 1
        distinct.add("opt:%s:%s" % ("+".join(sorted(atoms)), "|".join("\n".join(files[s]) for s in stems)))
        d = compare(stems, joint[:4], [s[:4] for s in singles])
        if d:
            # once more (clock ticks between the runs)
            joint = run_dir(bdir, base, "j", files, stems, atoms, AUX)
            singles2 = []
            for s in stems:
                r = run_dir(bdir, base, "s_" + s, files, [s], atoms, AUX)
                singles2.append(r)
                if r[0] == 3:
                    break
            d = compare(stems, joint[:4], [s[:4] for s in singles2])
        if d:
            # name the option that matters: the first atom that reproduces the difference alone
            for a in atoms if len(atoms) > 1 else []:
                j1 = run_dir(bdir, base, "j", files, stems, [a], AUX)
                s1 = []
                for s in stems:
                    r = run_dir(bdir, base, "s_" + s, files, [s], [a], AUX)
                    s1.append(r)
                    if r[0] == 3:
                        break
                d1 = compare(stems, j1[:4], [s[:4] for s in s1])
                if d1:
                    atoms, d = [a], d1
                    break
            spec_fail.append(dict(tag=tag, sig=sig_of(d, atoms), why="a file's outputs in the joint run differ from its stand-alone run under the same options: %s" % d[:6],
                                  options=build_args(atoms, stems)[len(stems):], option_sources=[(s, files[s]) for s in stems], aux=AUX))
        for s in stems:
            shutil.rmtree(os.path.join(base, "s_" + s), ignore_errors=True)

    # ---------------- (B)+(C) model histories
    reqs, metas = [], []
    dist["option_model_histories"] = 0
    for mno in range(90 if quick else 1200):
        dk, dargs = rng.choice(M_DEST)
        thr = rng.random() < 0.6
        mx = rng.choice([0, 0, 0, 1, 2, 3])
        we = rng.random() < 0.2
        n = 3 if rng.random() < 0.2 else 2
        kinds = [rng.choice(M_PRED)] + [rng.choice(M_SUCC) for _ in range(n - 1)]
        opsl = [gen_model_file(rng, k) for k in kinds]
        stems = ["f%d" % k for k in range(n)]
        files, wheres = {}, []
        for s, ops in zip(stems, opsl):
            files[s], w = render_model(ops)
            wheres.append(w)
        extra = (["-Y"] if thr else []) + (["-maxerrors", str(mx)] if mx else []) + (["-Werror"] if we else [])

        def go(tag, sub):
            d = os.path.join(base, tag)
            if os.path.isdir(d):
                shutil.rmtree(d)
            os.makedirs(d)
            for s in sub:
                with open(os.path.join(d, s + ".asm"), "w") as fh:
                    fh.write("\n".join(files[s]) + "\n")
            keep = set(os.listdir(d))
            rc, so, se = common.run_tool(bdir, "asl", [s + ".asm" for s in sub] + ["-q"] + extra + dargs, d, timeout=60)
            outs = {fn: open(os.path.join(d, fn), "rb").read() for fn in sorted(os.listdir(d)) if fn not in keep}
            return rc, so, se, outs, d
        joint = go("mj", stems)
        sing = []
        for s in stems:
            r = go("ms", [s])
            sing.append(r)
        evaluations += 1
        dist["option_model_histories"] += 1
        req = "opts=%s,%d,%d,%d files=%s joint=%s single=%s" % (
            dk, 1 if thr else 0, mx, 1 if we else 0, ";".join(",".join(op_tok(o) for o in ops) or "-" for ops in opsl),
            observe(joint, stems, 0, dk, wheres), "|".join(observe(r, [s], k, dk, wheres) for k, (s, r) in enumerate(zip(stems, sing))))
        distinct.add("optmodel:" + req.split(" joint=")[0])
        reqs.append(req)
        metas.append((mno, kinds, stems, files, extra + dargs))
    answers = common.driver("c18o", reqs, timeout=600) if drv_ok and reqs else []
    for (mno, kinds, stems, files, opts), req, ans in zip(metas, reqs, answers):
        kv = dict(x.split("=", 1) for x in ans.split() if "=" in x)
        tag = "optmodel:%d:%s" % (mno, ">".join(kinds))
        if len([s for s in samples if str(s.get("tag", "")).startswith("optmodel")]) < 2:
            samples.append(dict(tag=tag, options=opts, request=req, answer=ans))
        if "corr" not in kv:
            proof_problems.append("driver c18o: bad answer `%s` for %s" % (ans[:120], req[:200]))
            continue
        if kv["spec"] != "ok":
            spec_fail.append(dict(tag=tag, sig="options-model:%s" % kv.get("broken", "?"), why="a file's status / code file / message destinations in the joint run differ from its stand-alone run: " + ans,
                                  options=["-q"] + opts, option_sources=[(s, files[s]) for s in stems], request=req))
        if kv["corr"] != "eq":
            corr_fail.append(dict(tag=tag, why="Model/FileOut does not predict the real runs: " + ans, options=["-q"] + opts, option_sources=[(s, files[s]) for s in stems], request=req))
        if kv.get("mspec") != "ok":
            proof_problems.append("model-internal: FileOut model is not independent on " + tag)
    ev = dict(histories=dist["option_histories"], model_histories=dist["option_model_histories"], atoms=len(ATOM_NAMES))
    return evaluations, ev


def replay(bdir, wd, d):
    files = {s: l for s, l in d["option_sources"]}
    stems = [s for s, _l in d["option_sources"]]
    opts = d["options"]
    base = os.path.join(wd, "optr")

    def go(tag, sub):
        dd = os.path.join(base, tag)
        os.makedirs(os.path.join(dd, "incdir"))
        for s in sub:
            open(os.path.join(dd, s + ".asm"), "w").write("\n".join(files[s]) + "\n")
        for name, txt in (d.get("aux") or {}).items():
            open(os.path.join(dd, name), "w").write(txt)
        keep = set(os.listdir(dd))
        args = [s + ".asm" for s in sub] + [o for o in opts]
        # per-file names of the other files are dropped in a stand-alone run
        if len(sub) == 1:
            args, skip = [sub[0] + ".asm"], False
            for k, o in enumerate(opts):
                if skip:
                    skip = False
                    continue
                if o in ("-o", "-olist", "-shareout") and k + 1 < len(opts) and owner_of(opts[k + 1], stems) != sub[0]:
                    skip = True
                    continue
                args.append(o)
        rc, so, se = common.run_tool(bdir, "asl", ["-i", os.path.join(common.REPO, "include")] + args, dd, timeout=60)
        print("== asl %s  (in %s): rc %s" % (" ".join(args), tag, rc))
        print((so + se).decode(errors="replace")[-600:])
        for fn in sorted(os.listdir(dd)):
            if fn not in keep and os.path.isfile(os.path.join(dd, fn)):
                b = open(os.path.join(dd, fn), "rb").read()
                print("   %-12s %5d bytes %s" % (fn, len(b), (b[:160] if not fn.endswith(".p") else b[:24].hex())))
    go("joint", stems)
    for s in stems:
        go("alone_" + s, [s])
