"""C08, extension part: (1) string / character constants written with every escape form of the manual's section
"String Constants", used in formulas and in data statements; (2) operator-rank discrimination: unbracketed formulas
`a op1 b op2 c` (and `op a op2 b`) for every ordered pair of operators, with operands for which the two possible
groupings have different values.

The trees produced here go through the same evaluation as all other C08 trees (Lean SPEC `render` produces the text,
the Lean MODEL tokenises and evaluates that text, the SPEC's `eval` is the documented value, the real assembler
evaluates the text).  Nothing here decides a verdict: the Python side only chooses spellings and operands."""
import os
import re

from .. import common

M64 = (1 << 64) - 1

# ---------------------------------------------------------------------------------------------
# (1) escape sequences.  Item tokens (the driver's `e:<D|S>/<item>/...` syntax, Driver/C08.lean `parseItem`):
#   p<hex>      a character that stands for itself
#   c<hex>      an abbreviation, <hex> = code of the identification letter as written (\n = c6e, \N = c4e, \\ = c5c, \' = c27, \" = c22)
#   d<v>        backslash + decimal number
#   x<w><f><v>  backslash + x + <w> hex digits (1|2); f bit 0: upper case X, bit 1: upper case digits
#   o<w>.<v>    backslash + 0 + <w> octal digits (0..3)
#   b<op>.<a>.<b>  \{a op b} (op = lit: \{a})

CTL_LETTERS = {8: "b", 7: "a", 27: "e", 9: "t", 10: "n", 13: "r", 92: "\\", 39: "'h", 34: "\"i"}
DIGITLIKE = "0123456789abcdefABCDEF"
BRACE_OPS = {"add": lambda a, b: a + b, "sub": lambda a, b: a - b, "mul": lambda a, b: a * b,
             "and": lambda a, b: a & b, "or": lambda a, b: a | b, "xor": lambda a, b: a ^ b, "lit": lambda a, b: a}
INTERESTING = [1, 7, 8, 9, 10, 13, 27, 31, 32, 34, 39, 48, 57, 65, 70, 90, 92, 97, 102, 122, 126, 127, 128, 160, 200, 254, 255]


def item_codes(tok):
    """the characters an item token denotes (harness-side, only used to choose wrappers / positions)"""
    k, body = tok[0], tok[1:]
    if k == "p":
        return [int(body, 16)]
    if k == "c":
        letter = chr(int(body, 16)).lower()
        for code, ls in CTL_LETTERS.items():
            if letter in ls:
                return [code]
        raise AssertionError(tok)
    if k == "d":
        return [int(body)]
    if k == "x":
        return [int(body[2:])]
    if k == "o":
        return [int(body.split(".")[1])]
    if k == "b":
        op, a, b = body.split(".")
        return [ord(c) for c in str(BRACE_OPS[op](int(a), int(b)))]
    raise AssertionError(tok)


def const_codes(t):
    out = []
    for tok in t[2]:
        out += item_codes(tok)
    return out


def item_first_char(tok):
    return chr(int(tok[1:], 16)) if tok[0] == "p" else "\\"


def item_short(tok):
    """'dec' / 'hex': the item is a number written with fewer digits than the maximum, so that a following decimal
    digit / hexadecimal digit would be read as part of it"""
    k, body = tok[0], tok[1:]
    if k == "d":
        return "dec" if int(body) < 100 else None
    if k == "x":
        return "hex" if body[0] == "1" else None
    if k == "o":
        return "dec" if int(body.split(".")[0]) < 3 else None
    return None


def kind_of(tok):
    return {"p": "plain", "c": "abbreviation", "d": "decimal", "x": "hex", "o": "octal", "b": "brace"}[tok[0]]


class EscGen:
    def __init__(self, rng):
        self.rng = rng
        self.dist = {"items": {}, "number_followed_by_digit": {"hex": 0, "decimal": 0, "octal": 0},
                     "number_at_end": 0, "number_before_escape": 0, "number_before_other": 0,
                     "digits": {"hex": {}, "decimal": {}, "octal": {}}, "quotes": {"D": 0, "S": 0}, "shapes": {}}

    # ---- one character, spelled
    def spell(self, code, q, numeric=None):
        rng = self.rng
        qc = '"' if q == "D" else "'"
        ways = []
        if 32 <= code <= 126 and code != 92 and chr(code) != qc:
            ways += ["plain"] * (12 if chr(code) in DIGITLIKE else 5)
        if code in CTL_LETTERS:
            ways += ["ctl"] * 4
        if code >= 1:
            ways += ["dec"] * 2
        ways += ["hex"] * 3 + ["oct"] * 2
        w = numeric or rng.choice(ways)
        if w == "plain":
            return "p%02x" % code
        if w == "ctl":
            letter = rng.choice(CTL_LETTERS[code])
            if letter.isalpha() and rng.random() < 0.35:
                letter = letter.upper()
            return "c%02x" % ord(letter)
        if w == "dec":
            return "d%d" % code
        if w == "hex":
            width = 2 if code >= 16 or rng.random() < 0.5 else 1
            return "x%d%d%d" % (width, rng.randrange(4), code)
        lo = 0 if code == 0 else len(oct(code)) - 2
        return "o%d.%d" % (rng.randrange(lo, 4), code)

    def widen(self, tok):
        """the same character, the number written with the maximum number of digits (so that any character may follow)"""
        code = item_codes(tok)[0]
        if tok[0] == "x":
            return "x2" + tok[2:]
        if tok[0] == "o":
            return "o3.%d" % code
        if code >= 100:
            return tok
        return self.rng.choice(["x2%d%d" % (self.rng.randrange(4), code), "o3.%d" % code])

    def codes(self, n):
        rng = self.rng
        out = []
        for _ in range(n):
            r = rng.random()
            if r < 0.34:
                out.append(ord(rng.choice(DIGITLIKE)))
            elif r < 0.52:
                out.append(rng.randrange(32, 127))
            elif r < 0.66:
                out.append(rng.choice(list(CTL_LETTERS)))
            elif r < 0.82:
                out.append(rng.choice(INTERESTING))
            elif r < 0.84:
                out.append(0)
            else:
                out.append(rng.randrange(1, 256))
        return out

    def items_for(self, codes, q, brace=True):
        """a random spelling of the character sequence; numbers written short are never followed by a digit character
        (that would be a different constant): they are written with the maximum number of digits instead - the class
        "full-width number followed by a digit / hex letter / other character / escape / end of string" """
        rng = self.rng
        toks = [self.spell(c, q) for c in codes]
        # numbers are what this class is about: make sure most constants have one, often in front of a digit character
        if codes and rng.random() < 0.7:
            i = rng.randrange(len(codes))
            toks[i] = self.spell(codes[i], q, numeric=rng.choice(["hex", "hex", "oct", "dec"] if codes[i] else ["hex", "oct"]))
        if brace and rng.random() < 0.1:
            op = rng.choice(list(BRACE_OPS))
            a, b = rng.randrange(0, 400), rng.randrange(0, 400)
            if op == "sub" and a < b:
                a, b = b, a
            if rng.random() < 0.15:
                a = rng.choice([1 << 31, (1 << 32) + 5, (1 << 62) - 1, 65535])
                op = rng.choice(["lit", "add", "or", "and"])
            toks.insert(rng.randrange(len(toks) + 1), "b%s.%d.%d" % (op, a, b))
        for i in range(len(toks) - 1):
            sh = item_short(toks[i])
            if sh:
                nxt = item_first_char(toks[i + 1])
                if (sh == "hex" and nxt in DIGITLIKE) or (sh == "dec" and nxt.isdigit()):
                    toks[i] = self.widen(toks[i])
        self.account(toks)
        return toks

    def account(self, toks):
        d = self.dist
        for i, t in enumerate(toks):
            k = kind_of(t)
            d["items"][k] = d["items"].get(k, 0) + 1
            if k in ("hex", "decimal", "octal"):
                nd = {"hex": lambda: int(t[1]), "decimal": lambda: len(t) - 1, "octal": lambda: int(t[1:].split(".")[0])}[k]()
                d["digits"][k][nd] = d["digits"][k].get(nd, 0) + 1
                if i + 1 == len(toks):
                    d["number_at_end"] += 1
                else:
                    c = item_first_char(toks[i + 1])
                    if c == "\\":
                        d["number_before_escape"] += 1
                    elif c in DIGITLIKE:
                        d["number_followed_by_digit"][k] += 1
                    else:
                        d["number_before_other"] += 1

    def const(self, n=None, q=None, codes=None):
        rng = self.rng
        if q is None:
            q = "D" if rng.random() < 0.7 else "S"
        if codes is None:
            if n is None:
                n = rng.choice([1, 1, 2, 2, 3, 3, 4, 5, 6, 8])
            codes = self.codes(n)
        self.dist["quotes"][q] += 1
        return ("e", q, self.items_for(codes, q))

    def hexrun(self):
        """the neighbourhood of "a numeric escape and what follows it": one number of every radix and digit count,
        followed by 0..3 digit characters / hex letters / another character / an escape / nothing"""
        rng = self.rng
        q = "D" if rng.random() < 0.7 else "S"
        code = rng.choice(INTERESTING + [rng.randrange(0, 256), rng.randrange(0, 16), rng.randrange(0, 8)])
        radix = rng.choice(["hex", "hex", "dec", "oct"])
        if radix == "dec" and code == 0:
            radix = "oct"
        tok = self.spell(code, q, numeric=radix)
        tail = []
        r = rng.random()
        if r < 0.7:
            tail = [self.spell(ord(rng.choice(DIGITLIKE)), q, numeric="plain") for _ in range(rng.randrange(1, 4))]
        elif r < 0.8:
            tail = [self.spell(ord(rng.choice("ghGHxXzZ .-")), q, numeric="plain")]
        elif r < 0.9:
            tail = [self.spell(rng.choice(list(CTL_LETTERS)), q, numeric="ctl")]
        head = [self.spell(c, q) for c in self.codes(rng.randrange(0, 2))]
        toks = head + [tok] + tail
        for i in range(len(toks) - 1):
            sh = item_short(toks[i])
            if sh:
                nxt = item_first_char(toks[i + 1])
                if (sh == "hex" and nxt in DIGITLIKE) or (sh == "dec" and nxt.isdigit()):
                    toks[i] = self.widen(toks[i])
        self.account(toks)
        self.dist["quotes"][q] += 1
        return ("e", q, toks)

    # ---- formulas over such constants
    def S(self):
        return self.hexrun() if self.rng.random() < 0.45 else self.const()

    def small_const(self):
        """a constant of 1..4 characters (has an integer value)"""
        rng = self.rng
        for _ in range(6):
            t = self.hexrun() if rng.random() < 0.5 else self.const(n=rng.choice([1, 1, 1, 2, 3, 4]), q=rng.choice("DSS"))
            if 1 <= len(const_codes(t)) <= 4:
                return t
        return ("e", "S", [self.spell(rng.choice(INTERESTING), "S")])

    def pos(self, n):
        rng = self.rng
        r = rng.random()
        if r < 0.8:
            return ("i", rng.randrange(0, n + 1))
        if r < 0.9:
            return ("u", "neg", ("i", rng.randrange(1, 3)))
        return ("i", n + rng.randrange(1, 4))

    def formula(self):
        rng = self.rng
        r = rng.random()

        def shape(name, t):
            self.dist["shapes"][name] = self.dist["shapes"].get(name, 0) + 1
            return t
        s = self.S()
        n = len(const_codes(s))
        if r < 0.16:
            return shape("strlen", ("c", "strlen", [s]))
        if r < 0.34:
            return shape("charfromstr", ("c", "charfromstr", [s, self.pos(n)]))
        if r < 0.46:
            # the same characters spelled differently / one character changed: comparisons
            codes = const_codes(s)
            other = list(codes)
            if other and rng.random() < 0.5:
                i = rng.randrange(len(other))
                other[i] = (other[i] + rng.choice([1, 255, 16, 240])) % 256
            q2 = rng.choice("DDS")
            t2 = ("e", q2, self.items_for(other, q2, brace=False))
            self.dist["quotes"][q2] += 1
            op = rng.choice(["eq", "eqeq", "ne", "lt", "le", "gt", "ge"])
            return shape("compare", ("b", op, s, t2) if rng.random() < 0.5 else ("b", op, t2, s))
        if r < 0.54:
            codes = const_codes(s)
            if codes and rng.random() < 0.7:
                i = rng.randrange(len(codes))
                piece = codes[i:i + rng.randrange(1, 3)]
            else:
                piece = self.codes(1)
            self.dist["quotes"]["D"] += 1
            return shape("strstr", ("c", "strstr", [s, ("e", "D", self.items_for(piece, "D", brace=False))]))
        if r < 0.66:
            sub = ("c", "substr", [s, ("i", rng.randrange(0, n + 2)), ("i", rng.randrange(0, n + 2))])
            q = rng.random()
            if q < 0.4:
                return shape("substr", ("c", "strlen", [sub]))
            if q < 0.8:
                return shape("substr", ("c", "charfromstr", [sub, self.pos(n)]))
            return shape("substr", sub)
        if r < 0.72:
            f = ("c", rng.choice(["upstring", "lowstring"]), [s])
            return shape("upstring/lowstring", ("c", "charfromstr", [f, self.pos(n)]) if rng.random() < 0.7 else f)
        if r < 0.80:
            s2 = self.S()
            cat = ("b", "add", s, s2)
            m = n + len(const_codes(s2))
            q = rng.random()
            if q < 0.35:
                return shape("concatenation", ("c", "strlen", [cat]))
            if q < 0.8:
                return shape("concatenation", ("c", "charfromstr", [cat, self.pos(m)]))
            return shape("concatenation", cat)
        if r < 0.93:
            # conversion to integer: constants of 1..4 characters where a number is expected
            c4 = self.small_const()
            q = rng.random()
            other = ("i", rng.choice([0, 1, 2, 7, 255, 256, 65, 48, 10, M64]))
            if q < 0.55:
                op = rng.choice(["sub", "mul", "and", "or", "xor", "eq", "ne", "lt", "ge", "shl", "shr", "div", "mod"])
                if op in ("shl", "shr"):
                    other = ("i", rng.randrange(0, 40))
                return shape("integer-conversion", ("b", op, c4, other) if rng.random() < 0.7 or op in ("shl", "shr") else ("b", op, other, c4))
            if q < 0.75:
                return shape("integer-conversion", ("u", rng.choice(["neg", "not", "lnot"]), c4))
            c5 = self.small_const()
            return shape("integer-conversion", ("b", rng.choice(["sub", "mul", "and", "or", "xor", "land", "lor"]), c4, c5))
        if r < 0.96:
            return shape("exprtype", ("c", "exprtype", [s]))
        return shape("constant", s)


ESC_CORPUS = [
    # hand-written neighbours: two-digit hex / three-digit decimal / three-digit octal numbers followed by digit characters
    "c1:strlen e:D/x2010/p30", "c2:charfromstr e:D/x2010/p30 i:0", "c2:charfromstr e:D/x2010/p30 i:1", "b:eq e:D/x2165/p42/p43 s:414243",
    "c1:strlen e:D/x2048/p30/p30/p30", "c1:strlen e:D/d100/p30", "c1:strlen e:D/o3.65/p31", "c1:strlen e:D/x1010/p67", "c1:strlen e:D/d7/p61",
    "c1:strlen e:S/x2365/p66", "b:sub e:S/c6e i:1", "b:eq e:D/c6e/c74/c5c e:D/d10/x109/o3.92", "c1:strlen e:D/o0.0/p78", "c2:charfromstr e:D/p76/p3d/bmul.3.4/p78 i:3",
    "b:sub e:S/x2065 i:1", "c2:charfromstr e:D/c48/c49/c68/c69 i:3",
]


# ---------------------------------------------------------------------------------------------
# (2) operator ranks

RANK_POOL = [0, 1, 2, 3, 4, 5, 6, 7, 8, 9, 10, 12, 15, 16, 17, 31, 32, 33, 63, 64, 100, 255]


def _w(v):
    v &= M64
    return v - (1 << 64) if v >= (1 << 63) else v


def py_bin(op, a, b):
    """harness-side value of an integer operation, only used to CHOOSE operands (None = do not use these operands);
    the documented value comes from the Lean SPEC"""
    if op in ("shl", "shr"):
        if a < 0 or not 0 <= b <= 40:
            return None
        return _w(a << b) if op == "shl" else a >> b
    if op == "mirror":
        if a < 0 or not 1 <= b <= 16:
            return None
        low = int(bin(a & ((1 << b) - 1))[2:].zfill(b)[::-1], 2)
        return (a >> b << b) | low
    if op == "pow":
        if not 0 <= b <= 12 or abs(a) > 64:
            return None
        return _w(a ** b)
    if op in ("div", "mod"):
        if b == 0 or a < 0 or b < 0:
            return None
        return a // b if op == "div" else a % b
    f = {"add": lambda: a + b, "sub": lambda: a - b, "mul": lambda: a * b, "and": lambda: a & b, "or": lambda: a | b,
         "xor": lambda: a ^ b, "land": lambda: int(a != 0 and b != 0), "lor": lambda: int(a != 0 or b != 0),
         "lxor": lambda: int((a != 0) != (b != 0)), "eq": lambda: int(a == b), "eqeq": lambda: int(a == b), "ne": lambda: int(a != b),
         "lt": lambda: int(a < b), "le": lambda: int(a <= b), "gt": lambda: int(a > b), "ge": lambda: int(a >= b)}[op]
    return _w(f())


def py_un(u, a):
    return {"neg": lambda: _w(-a), "not": lambda: _w(~a), "lnot": lambda: int(a == 0)}[u]()


def lit(v):
    return ("i", v & M64)


def rank_trees(rng, ops, per_pair):
    """ops: {'b': [(name, rank)], 'u': [(name, rank)]} from the Lean SPEC (driver mode c08ops).
    For every ordered pair of dyadic operators (o1, o2): the two formulas with the operators in this order,
    (a o1 b) o2 c and a o1 (b o2 c) - whichever of them the manual's rank table reads `a o1 b o2 c` as is rendered
    without brackets by the SPEC, the other with brackets; for every sign/complement operator u and dyadic o:
    u(a o b) and (u a) o b.  Operands are chosen so that the two groupings have different values.
    returns [(pair key, grouping, tree)]"""
    out = []
    bins = [n for n, _ in ops["b"]]
    for o1 in bins:
        for o2 in bins:
            found = []
            for attempt in range(400):
                if len(found) >= per_pair:
                    break
                a, b, c = (rng.choice(RANK_POOL) for _ in range(3))
                ab = py_bin(o1, a, b)
                bc = py_bin(o2, b, c)
                if ab is None or bc is None:
                    continue
                left = py_bin(o2, ab, c)
                right = py_bin(o1, a, bc)
                if left is None or right is None or left == right:
                    continue
                if (a, b, c) in found:
                    continue
                found.append((a, b, c))
            for a, b, c in found:
                out.append(("%s %s" % (o1, o2), "L", ("b", o2, ("b", o1, lit(a), lit(b)), lit(c))))
                out.append(("%s %s" % (o1, o2), "R", ("b", o1, lit(a), ("b", o2, lit(b), lit(c)))))
    for u, _ in ops["u"]:
        for o in bins:
            found = []
            for attempt in range(400):
                if len(found) >= per_pair:
                    break
                a, b = rng.choice(RANK_POOL), rng.choice(RANK_POOL)
                ab = py_bin(o, a, b)
                ua = py_un(u, a)
                if ab is None:
                    continue
                outer = py_un(u, ab)
                inner = py_bin(o, ua, b)
                if inner is None or outer == inner or (a, b) in found:
                    continue
                found.append((a, b))
            for a, b in found:
                out.append(("%s %s" % (u, o), "L", ("u", u, ("b", o, lit(a), lit(b)))))
                out.append(("%s %s" % (u, o), "R", ("b", o, ("u", u, lit(a)), lit(b))))
    return out


RANK_CORPUS = [
    "b:lor i:1 b:land i:0 i:0", "b:land b:lor i:1 i:0 i:0", "b:lor b:land i:0 i:0 i:1", "b:land i:0 b:lor i:0 i:1",
    "b:lxor i:1 b:lor i:1 i:0", "b:lor b:lxor i:1 i:1 i:1", "b:add i:1 b:mul i:2 i:3", "b:and i:6 b:mirror i:1 i:2", "b:or i:1 b:and i:2 i:3",
    "b:xor i:1 b:or i:1 i:2", "b:pow i:2 b:xor i:1 i:2", "b:mul i:2 b:pow i:3 i:2", "b:eq i:1 b:lxor i:0 i:0", "b:shl b:mirror i:1 i:2 i:1",
]


def parse_ops(line):
    ops = {"b": [], "u": []}
    for w in line.split():
        k, n, r = w.split(":")
        ops[k].append((n, int(r)))
    return ops


# ---------------------------------------------------------------------------------------------
# data statements: the bytes DB lays down for a string constant are the characters the constant denotes

def data_statements(c08, bdir, wd, quirks, consts, stats, spec_fail, corr_fail, samples):
    """consts: list of ('e', q, items) trees.  Returns number of evaluations."""
    n = 0
    for i in range(0, len(consts), 400):      # 400 cases of 128 bytes each stay inside the 64 KiB address space
        n += data_statements_file(c08, bdir, wd, quirks, consts[i:i + 400], stats, spec_fail, corr_fail, samples, i // 400)
    return n


def data_statements_file(c08, bdir, wd, quirks, consts, stats, spec_fail, corr_fail, samples, fileno):
    reqs = [quirks + " " + c08.ser(t) for t in consts]
    ans = common.driver("c08", reqs, timeout=600)
    cases = []
    for t, rq, a in zip(consts, reqs, ans):
        kv = dict(x.split("=", 1) for x in a.split() if "=" in x)
        if "text" not in kv:
            corr_fail.append(dict(sig=None, text=rq, why="driver rejected a data-statement constant: " + a))
            continue
        cases.append(dict(tree=t, req=rq, text=bytes.fromhex(kv["text"]).decode("latin-1"), spec=kv.get("spec"), model=kv.get("model")))
    STEP = 128
    excluded = set()
    got = {}
    errors = {}
    for attempt in range(3):
        src = ["\tcpu z80", "\toutradix 10"]
        owner = {}
        for k, c in enumerate(cases):
            if k in excluded:
                continue
            src.append("\torg %d" % (k * STEP))
            src.append("\tdb %s" % c["text"])
            owner[len(src)] = k
        f = os.path.join(wd, "escdata%d_%d.asm" % (fileno, attempt))
        open(f, "w").write("\n".join(src) + "\n")
        stats["asl_runs"] += 1
        rc, so, se = common.run_tool(bdir, "asl", ["-q", "-n", f, "-o", f[:-4] + ".p"], wd, timeout=120)
        if rc == "timeout" or (isinstance(rc, int) and rc < 0):
            spec_fail.append(dict(sig=None, text="data statements with string constants", asl="status %s" % rc,
                                  why="the assembler crashed on DB statements with string constants", source="\n".join(src[:60])))
            return len(cases)
        new_err = False
        for m in c08.ERR_RE.finditer(se + so):
            ln, num = int(m.group(1)), int(m.group(2))
            if ln in owner and owner[ln] not in errors:
                errors[owner[ln]] = num
                excluded.add(owner[ln])
                new_err = True
        pf = f[:-4] + ".p"
        if os.path.exists(pf):
            recs = common.parse_pfile_py(open(pf, "rb").read()) or []
            mem = {}
            for r in recs:
                if r[0] == "D":
                    for j, byte in enumerate(r[5]):
                        mem[r[4] + j] = byte
            for k in range(len(cases)):
                if k in excluded:
                    continue
                bs = []
                a = k * STEP
                while a in mem and a < (k + 1) * STEP:
                    bs.append(mem[a])
                    a += 1
                got[k] = bytes(bs)
            break
        if not new_err:
            break
    n = 0
    for k, c in enumerate(cases):
        n += 1
        if k in errors:
            real = "E%d" % errors[k]
            shown = "error #%d" % errors[k]
        elif k in got:
            real = "S" + (got[k].hex() or "-")
            shown = "bytes " + got[k].hex()
        else:
            real = "none"
            shown = "no code"
        entry = dict(sig=None, text="db " + c["text"], formula=c["req"], asl=shown, spec=c["spec"], model=c["model"], cpu="z80",
                     why="the bytes DB lays down for a string constant are not the characters the manual's escape rules give")
        if len(samples) < 14 and k % 37 == 3:
            samples.append(dict(text="db " + c["text"], asl=shown, model=c["model"], spec=c["spec"]))
        if c["spec"] != real:
            spec_fail.append(entry)
        elif c["model"] != real:
            corr_fail.append(dict(entry, why="real assembler and Lean model disagree on a string constant in a data statement"))
    return n
