"""C14 target plug-in: MOS 6502 / 65SC02 / 65C02 (code65.c, CPU names 6502, 65SC02, 65C02).

Operand values go to the Lean driver in the encoding of lean/Driver/C14_6502.lean; the operand *text*
(`A`, `#v`, `v`, `v,X`, `v,Y`, `(v)`, `(v,X)`, `(v),Y`, the `<` / `>` length prefixes, Motorola number spelling,
letter case) is produced here.

Enumerated: the SPEC's complete mnemonic list x every operand syntax of the mnemonic's form (for the general form:
nothing, A, #v, and v / v,X / v,Y / (v) with each prefix, (v,X), (v),Y - also where the instruction has no such
mode, which must be rejected) x operand values at 0, the field limits, limits +-1/+-2, random interior, far outside
x the three CPUs; every branch distance around both displacement limits at several program counters (including the
two ends of the 16-bit address space, where the distance wraps).

Finding `6502-normfallback-global-adrcnt`: whenever the mode DecodeAdr selected has no code in the instruction's
order record, the pinned DecodeNorm executes `AdrResult.AdrVals[AdrCnt++] = 0` with the *global* `AdrCnt` of codevars.c
(never reset in 65xx mode): every such statement - each "addressing mode not allowed" error and each `<v` operand
for an instruction that only has the absolute form - moves a stray zero byte one position further up asl's stack
frame; a few hundred of them in one source crash asl (SIGSEGV/SIGBUS).  While the generated flag
`normFallbackLocal` is false the generator therefore keeps at most four such statements per CPU and asl process
(the writes stay inside the 12-byte `tAdrResult`), chosen by the seed; with the defect repaired the full list runs.
"""
from .c14 import Case, limits, num_moto

GENERATED = ["Isa_6502"]

SIG_FALLBACK = "6502-normfallback-global-adrcnt"
SIG_JMPIND = "65sc02-jmp-ind-page-end-rejected"

SYN = {"dir": 3, "idxX": 4, "idxY": 5, "ind": 6}
ZPF = {"dir": "zp", "idxX": "zpX", "idxY": "zpY", "ind": "zpInd"}
ABF = {"dir": "abs", "idxX": "absX", "idxY": "absY", "ind": "ind"}
PFX = ["", "<", ">"]


def _case(rng, s):
    return "".join(ch.lower() if rng.random() < 0.5 else ch.upper() for ch in s) if rng.random() < 0.3 else (s.lower() if rng.random() < 0.5 else s.upper())


class T:
    name = "6502"
    cpus = [("6502", 0), ("65SC02", 1), ("65C02", 2)]
    sentinel = 0x8000
    gran = 1
    sample_tags = ("mem", "rel", "bitrel")

    @staticmethod
    def header(cpuname):
        return ["\tcpu %s" % cpuname]

    @staticmethod
    def org(a):
        return "\torg $%x" % a

    @staticmethod
    def sent(k):
        return "\tbyt %d" % (k % 100 + 1)

    @staticmethod
    def sent_bytes(k):
        return bytes([k % 100 + 1])

    @staticmethod
    def memtext(rng, syn, p, v):
        n = PFX[p] + num_moto(rng, v)
        x, y = _case(rng, "x"), _case(rng, "y")
        return {"dir": n, "idxX": "%s,%s" % (n, x), "idxY": "%s,%s" % (n, y), "ind": "(%s)" % n}[syn]

    @classmethod
    def cases(cls, rng, tier, forms):
        N = num_moto
        quick = tier == "quick"
        out = []
        has = set()
        mns = []
        coded = set()    # (mnemonic, mode): code65.c's order record has a code for some CPU -> no fall-back step
        for (n, f, c) in forms:
            if f == "has":
                m, md = n.split(".")
                has.add((m, md, c))
            elif f == "code":
                coded.add(tuple(n.split(".")))
            else:
                mns.append((n, f, c))
        fallback_cand = {0: [], 1: [], 2: []}
        pcs = [0x0200, 0x1000, 0x7f00, 0xc000, 0x0000, 0xfff0]

        risky = {0: [], 1: [], 2: []}     # statements that reach DecodeNorm with a mode that may have no code

        def add(cpu, pc, mn, args, text, tag, danger=False):
            c = Case("6502", cpu, pc, mn, args, "\t%s %s" % (_case(rng, mn), text), tag)
            (risky[cpu] if danger else out).append(c)

        def pc_plain():
            return rng.choice(pcs)

        v8 = lambda k=6: limits(0, 255, rng, k, wide=False)
        v16 = lambda k=6: sorted(set(limits(0, 65535, rng, k) + [-32768, -32769, -32767, 255, 256, 257, 0x12ff, 0x1300, 0xff, 0x1ff, 0xfeff, 0xffff]))
        imm = lambda k=6: limits(-128, 255, rng, k)

        for (mn, form, mincpu) in mns:
            for cpu in (0, 1, 2):
                if form == "impl":
                    add(cpu, pc_plain(), mn, [], "", "impl")
                    if cpu == 0:
                        add(cpu, pc_plain(), mn, [3, 0, 5], "5", "argcnt")
                        add(cpu, pc_plain(), mn, [1], "A", "argcnt")
                elif form == "brk":
                    add(cpu, pc_plain(), mn, [], "", "brk")
                    for v in imm(4):
                        add(cpu, pc_plain(), mn, [2, v], ("#" if rng.random() < 0.5 else "") + N(rng, v), "brk-sig")
                elif form == "norm":
                    H = lambda md: (mn, md, cpu) in has
                    C = lambda md: (mn, md) in coded
                    # danger: DecodeNorm meets a mode without code (-1) - see the module doc
                    add(cpu, pc_plain(), mn, [], "", "none", danger=not C("impl"))
                    add(cpu, pc_plain(), mn, [1], _case(rng, "a"), "acc", danger=not C("acc"))
                    for v in imm(6 if quick else 12):
                        add(cpu, pc_plain(), mn, [2, v], "#" + N(rng, v), "imm", danger=not C("imm"))
                    for syn in ("dir", "idxX", "idxY", "ind"):
                        z, a = H(ZPF[syn]), H(ABF[syn])
                        for p in (0, 1, 2):
                            if p == 1 and not C(ZPF[syn]):
                                # `<` where no zero-page code exists: DecodeNorm's fall-back to the absolute form
                                if a:
                                    fallback_cand[cpu].append((mn, syn))
                                # out of the zero page: rejected by the range check before the fall-back
                                for v in (256, -1, 0x1234):
                                    add(cpu, pc_plain(), mn, [SYN[syn], p, v], cls.memtext(rng, syn, p, v), "mem")
                                if not a:
                                    add(cpu, pc_plain(), mn, [SYN[syn], p, 0x12], cls.memtext(rng, syn, p, 0x12), "mem", danger=True)
                                continue
                            if not z and not a and quick:
                                vals = [0, 255, 256, 65535, 65536, -1]
                            elif p == 1:
                                vals = v8(4 if quick else 10) + [0x1234, 65536]
                            else:
                                vals = v16(4 if quick else 12)
                            for v in vals:
                                d = False if p == 1 else (not C(ABF[syn]) and not (p == 0 and z and 0 <= v <= 255))
                                add(cpu, pc_plain(), mn, [SYN[syn], p, v], cls.memtext(rng, syn, p, v), "mem", danger=d)
                    for k, name in ((7, "indX"), (8, "indY")):
                        wide = mn in ("JMP", "JSR") and k == 7
                        vals = v16(4 if quick else 10) if wide else v8(4 if quick else 10) + [0x1234, 65535, 65536]
                        for v in vals:
                            t = "(%s,%s)" % (N(rng, v), _case(rng, "x")) if k == 7 else "(%s),%s" % (N(rng, v), _case(rng, "y"))
                            add(cpu, pc_plain(), mn, [k, v], t, "ptr", danger=not C("absIndX" if wide else name))
                elif form == "rel":
                    full = (not quick) or cpu == 0 or mn in ("BNE", "BRA")
                    pcl = [0x0200, 0x0000, 0x0070, 0xff80, 0xfffe, 0x7f00, rng.randrange(0x100, 0x7f00), rng.randrange(0x8100, 0xff00)]
                    if quick and not full:
                        pcl = [rng.choice(pcl), rng.choice(pcl)]
                    elif quick:
                        pcl = pcl[:5] if mn in ("BNE", "BRA") else [pcl[0], pcl[rng.randrange(1, 5)], pcl[rng.randrange(5, 8)]]
                    for pc in pcl:
                        if full:
                            ds = list(range(-133, 133))
                        else:
                            ds = [-130, -129, -128, -127, -1, 0, 1, 126, 127, 128, 129, rng.randrange(-128, 128)]
                        ts = set((pc + 2 + d) % 65536 for d in ds)
                        ts |= {0, 65535, (pc + 2 + 32768) % 65536, (pc + 2 + 32767) % 65536, rng.randrange(65536)}
                        for t in sorted(ts):
                            add(cpu, pc, mn, [9, 0, t], N(rng, t), "rel")
                        for t in (65536, -1, 70000, pc + 2 + 127 + 65536):
                            add(cpu, pc, mn, [9, 0, t], N(rng, t), "rel-target-range")
                        for p in (1, 2):
                            for d in (-129, -128, 0, 127, 128):
                                t = (pc + 2 + d) % 65536
                                add(cpu, pc, mn, [9, p, t], PFX[p] + N(rng, t), "rel-prefix")
                elif form == "bit":
                    if cpu < 2 and quick and not mn.endswith("3"):
                        add(cpu, pc_plain(), mn, [10, 0, 0x12], "$12", "bit")
                        continue
                    for p in (0, 1, 2):
                        for v in v8(2 if quick else 8) + [65535, 65536]:
                            add(cpu, pc_plain(), mn, [10, p, v], PFX[p] + N(rng, v), "bit")
                elif form == "bitRel":
                    if cpu < 2 and quick and not mn.endswith("3"):
                        add(cpu, 0x300, mn, [11, 0, 0x12, 0x310], "$12,$310", "bitrel")
                        continue
                    full = True
                    pcl = [0x0200, 0x0000, 0xff80, 0xfffd, rng.randrange(0x100, 0x7f00)]
                    if quick:
                        pcl = pcl if mn in ("BBR3", "BBS7") else [rng.choice(pcl)]
                    for pc in pcl:
                        ds = list(range(-133, 133)) if full else [-130, -129, -128, -127, 0, 126, 127, 128, 129, rng.randrange(-128, 128)]
                        ts = set((pc + 3 + d) % 65536 for d in ds) | {0, 65535, rng.randrange(65536)}
                        for t in sorted(ts):
                            z = rng.randrange(256)
                            add(cpu, pc, mn, [11, 0, z, t], "%s,%s" % (N(rng, z), N(rng, t)), "bitrel")
                        for z in v8(2) + [65536]:
                            t = (pc + 3 + rng.randrange(-128, 128)) % 65536
                            for p in (0, 1, 2):
                                add(cpu, pc, mn, [11, p, z, t], "%s%s,%s" % (PFX[p], N(rng, z), N(rng, t)), "bitrel-zp")
                        for t in (65536, -1):
                            add(cpu, pc, mn, [11, 0, 5, t], "5,%s" % N(rng, t), "bitrel-target-range")
                else:
                    raise AssertionError("6502: unknown operand form %s of the spec" % form)
        fixed = ("_CFG", "fallbackLocal", 1) in has      # generated flag: DecodeNorm uses the result's own counter
        for cpu in (0, 1, 2):
            fb = []
            for (mn, syn) in (fallback_cand[cpu] if fixed else rng.sample(fallback_cand[cpu], min(2, len(fallback_cand[cpu])))):
                for v in ([0x12, 0xff, 0x00] if fixed else [rng.choice([0x12, 0xfe, 0x01, 0x80])]):
                    fb.append(Case("6502", cpu, pc_plain(), mn, [SYN[syn], 1, v], "\t%s %s" % (_case(rng, mn), cls.memtext(rng, syn, 1, v)), "forced-zp-fallback"))
            out += fb
            out += risky[cpu] if fixed else rng.sample(risky[cpu], min(2, len(risky[cpu])))
        if not quick:
            # every 16-bit operand value for representative instructions (zero-page / absolute selection, both ranges)
            for mn, syn in (("LDA", "dir"), ("STA", "idxX"), ("LDX", "idxY"), ("JMP", "dir"), ("JMP", "ind")):
                for cpu in ((0, 2) if mn == "JMP" else (0,)):
                    for v in range(-32770, 65540):
                        out.append(Case("6502", cpu, 0x1000, mn, [SYN[syn], 0, v], "\t%s %s" % (mn, cls.memtext(rng, syn, 0, v)), "mem-all-values"))
            # every branch target from one program counter
            for v in range(0, 65536):
                out.append(Case("6502", 0, 0x4000, "BEQ", [9, 0, v], "\tbeq %d" % v, "rel-all-targets"))
        # keep clear of the sentinel record
        out = [c for c in out if not (cls.sentinel - 3 <= c.pc <= cls.sentinel)]
        return out

    @staticmethod
    def sig(case, kv):
        a = case.args
        # `<v` for an instruction that only has the absolute form of the mode: DecodeNorm's fall-back through the global AdrCnt
        if len(a) == 3 and a[0] in (3, 4, 5, 6) and a[1] == 1 and not case.real.startswith("E") and kv.get("dec") == "undecodable":
            return SIG_FALLBACK
        # JMP ($xxFF) refused on the CMOS 65SC02 (the NMOS page-wrap rule is applied to every CPU but the 65C02)
        if case.mn == "JMP" and case.cpu == 1 and len(a) == 3 and a[0] == 6 and a[2] % 256 == 255 and kv.get("legal") == "1" and case.real.startswith("E"):
            return SIG_JMPIND
        return None
