"""C04 - the code file contains exactly the program's bytes at the program's addresses."""
import os

from .. import common
from ..common import log
from . import c04_stmt
from . import c04_ctl

# family, segments usable for data with their granularity, statement templates
# (documented family ids from doc/file-formats.md; word data is little endian in the code file)
TARGETS = [
    dict(cpu="8051", hdr=0x31, segs={"code": (1, 1), "data": (2, 1), "xdata": (4, 1), "idata": (3, 1)},
         max_addr={"code": 0xffff, "data": 0xff, "xdata": 0xffff, "idata": 0xff}, style="intel"),
    dict(cpu="z80", hdr=0x51, segs={"code": (1, 1)}, max_addr={"code": 0xffff}, style="intel"),
    dict(cpu="6502", hdr=0x11, segs={"code": (1, 1)}, max_addr={"code": 0xffff}, style="moto8"),
    dict(cpu="68000", hdr=0x01, segs={"code": (1, 1)}, max_addr={"code": 0xffffff}, style="moto68k"),
    dict(cpu="16c84", hdr=0x70, segs={"code": (1, 2)}, max_addr={"code": 0x3ff}, style="pic"),
    dict(cpu="320c30", hdr=0x76, segs={"code": (1, 4)}, max_addr={"code": 0xffffff}, style="c30"),
    dict(cpu="320c25", hdr=0x75, segs={"code": (1, 2)}, max_addr={"code": 0xffff}, style="c25"),
    dict(cpu="8086", hdr=0x42, segs={"code": (1, 1)}, max_addr={"code": 0xffff}, style="intel"),
    # a target whose segments differ in granularity: CODE in 16-bit words, EEDATA in bytes
    dict(cpu="atmega8", hdr=0x3b, segs={"code": (1, 2), "eedata": (10, 1)}, max_addr={"code": 0xfff, "eedata": 0x1ff}, style="avr"),
]

LEN_POOL = [1, 2, 3, 5, 16, 100, 255, 256, 509, 510, 511, 512, 513, 514, 1023, 1024, 1025]
BIG_POOL = [30000, 32767, 32768, 65000, 65534, 65535]


def data_stmt(rng, tgt, gran, nbytes_hint, budget):
    """returns (source line, bytes) for one data statement emitting ~nbytes_hint bytes"""
    style = tgt["style"]
    if style == "avr":
        if gran == 2:
            n = max(1, min(max(1, nbytes_hint // 2), 30, budget // 2))
            vals = [rng.randrange(0x10000) for _ in range(n)]
            return "\tdata %s" % ",".join(map(str, vals)), b"".join(v.to_bytes(2, "little") for v in vals)
        n = max(1, min(nbytes_hint, 24, budget))
        vals = [rng.randrange(256) for _ in range(n)]
        return "\tdb %s" % ",".join(map(str, vals)), bytes(vals)
    if gran == 1:
        n = max(1, min(nbytes_hint, budget))
        kind = rng.random()
        if n <= 24 and kind < 0.6:
            vals = [rng.randrange(256) for _ in range(n)]
            op = {"intel": "db", "moto8": "byt", "moto68k": "dc.b"}[style]
            return "\t%s %s" % (op, ",".join(str(v) for v in vals)), bytes(vals)
        if n <= 200 and kind < 0.8:
            s = "".join(rng.choice("abcdefghijklmnopqrstuvwxyzABCDEFGHIJKLMNOPQRSTUVWXYZ0123456789") for _ in range(n))
            op = {"intel": "db", "moto8": "fcc", "moto68k": "dc.b"}[style]
            return '\t%s "%s"' % (op, s), s.encode()
        # repetition of a short pattern
        plen = rng.choice([1, 1, 2, 3, 5, 7])
        pat = [rng.randrange(256) for _ in range(plen)]
        reps = max(1, n // plen)
        if style == "intel":
            return "\tdb %d dup (%s)" % (reps, ",".join(map(str, pat))), bytes(pat) * reps
        if style == "moto68k":
            return "\tdc.b " + ",".join("[%d]%d" % (reps, v) for v in pat[:1]), bytes(pat[:1]) * reps
        # 65xx: no repetition syntax for BYT in all versions -> several values
        vals = [rng.randrange(256) for _ in range(min(n, 40))]
        return "\tbyt %s" % ",".join(map(str, vals)), bytes(vals)
    if style == "pic":
        n = max(1, min(max(1, nbytes_hint // 2), 30, budget // 2))
        vals = [rng.randrange(0x4000) for _ in range(n)]
        bs = b"".join(v.to_bytes(2, "little") for v in vals)
        return "\tdata %s" % ",".join(map(str, vals)), bs
    if style == "c25":
        n = max(1, min(max(1, nbytes_hint // 2), 30, budget // 2))
        vals = [rng.randrange(0x10000) for _ in range(n)]
        bs = b"".join(v.to_bytes(2, "little") for v in vals)
        return "\tword %s" % ",".join(map(str, vals)), bs
    if style == "c30":
        n = max(1, min(max(1, nbytes_hint // 4), 20, budget // 4))
        vals = [rng.randrange(1 << 32) for _ in range(n)]
        bs = b"".join(v.to_bytes(4, "little") for v in vals)
        return "\tword %s" % ",".join(map(str, vals)), bs
    raise AssertionError


def reserve_stmt(tgt, k):
    return {"intel": "\tds %d", "moto8": "\tdfs %d", "moto68k": "\tds.b %d", "pic": "\tres %d", "c30": "\tbss %d", "c25": "\tbss %d", "avr": "\tres %d"}[tgt["style"]] % k


def gen_program(rng, size_class, end_kind=None):
    """returns (source text, request tail for the driver, stats); end_kind: None (random) | "addr" | "plain" | "absent" """
    lines = []
    evs = []
    tgt = rng.choice(TARGETS)
    segname = "code"
    pcs = {}
    total = 0
    budget = {"small": 3000, "medium": 70000, "large": 210000}[size_class]

    def ctx():
        sid, gran = tgt["segs"][segname]
        return tgt["hdr"], sid, gran

    start = rng.choice([0, 0, 1, 0x100, 0x7ff])
    if start > tgt["max_addr"]["code"] - 8:
        start = 0x100
    org_first = rng.random() < 0.3
    if org_first:
        # the counter of the CODE segment is set before the first CPU statement (default target): it belongs to the
        # segment, not to the CPU, and the CPU statement must leave it alone
        lines.append("\torg %d" % start)
    lines.append("\tcpu %s" % tgt["cpu"])
    if tgt["style"] == "moto68k":
        lines.append("\tpadding off")
    if not org_first:
        lines.append("\torg %d" % start)
    pc = start
    c0 = ctx()
    first = (c0, start)
    nst = rng.randrange(1, {"small": 14, "medium": 60, "large": 400}[size_class])
    stats = dict(emits=0, reserves=0, orgs=0, segsw=0, cpusw=0, bigstmt=0, org_before_cpu=int(org_first), cpusw_keep_pc=0, save_restore=0)
    for _ in range(nst):
        if total >= budget:
            break
        hdr, sid, gran = ctx()
        r = rng.random()
        room = tgt["max_addr"][segname] - pc
        if r < 0.62 and room > 4:
            if size_class != "small" and gran == 1 and tgt["style"] in ("intel", "moto68k") and rng.random() < 0.15:
                n = rng.choice(BIG_POOL)
                stats["bigstmt"] += 1
            else:
                n = rng.choice(LEN_POOL) if rng.random() < 0.7 else rng.randrange(1, 700)
            n = min(n, room * gran, budget - total + 8)
            if tgt["style"] == "moto8":
                n = min(n, 200)
            if n < gran:
                continue
            src, bs = data_stmt(rng, tgt, gran, n, n)
            if pc + len(bs) // gran > tgt["max_addr"][segname]:
                continue
            lines.append(src)
            evs.append("e:" + bs.hex())
            pc += len(bs) // gran
            total += len(bs)
            stats["emits"] += 1
        elif r < 0.74 and room > 40:
            k = rng.choice([1, 1, 2, 3, 16])
            lines.append(reserve_stmt(tgt, k))
            pc += k
            evs.append("j:%d,%d,%d,%d" % (hdr, sid, gran, pc))
            stats["reserves"] += 1
        elif r < 0.84:
            lim = tgt["max_addr"][segname]
            a = rng.randrange(0, lim - 70000) if lim > 140000 else rng.randrange(0, max(1, lim // 2))
            if a == pc:
                a += 1
            lines.append("\torg %d" % a)
            pc = a
            evs.append("j:%d,%d,%d,%d" % (hdr, sid, gran, pc))
            stats["orgs"] += 1
        elif r < 0.92 and len(tgt["segs"]) > 1:
            pcs[segname] = pc
            back = segname
            segname = rng.choice([s for s in tgt["segs"] if s != segname])
            hdr, sid, gran = ctx()
            a = rng.randrange(0, tgt["max_addr"][segname] // 2)
            wrap = rng.random() < 0.3 and tgt["max_addr"][back] - pcs[back] > 600
            if wrap:
                lines.append("\tsave")
            lines.append("\tsegment %s" % segname)
            # SEGMENT itself opens a record at the segment's own counter; the ORG that follows
            # overwrites that (empty) record
            lines.append("\torg %d" % a)
            pc = a
            evs.append("j:%d,%d,%d,%d" % (hdr, sid, gran, pc))
            stats["segsw"] += 1
            if wrap:
                # SAVE / SEGMENT ... / RESTORE (the pattern of the shipped include files): RESTORE returns to the saved
                # segment, whose counter is where it was left; what follows directly must land there
                for _k in range(rng.choice([0, 1, 2])):
                    n = rng.choice([1, 2, 3, 8]) * gran
                    if tgt["max_addr"][segname] - pc > 40:
                        src, bs = data_stmt(rng, tgt, gran, n, n)
                        lines.append(src)
                        evs.append("e:" + bs.hex())
                        pc += len(bs) // gran
                        total += len(bs)
                        stats["emits"] += 1
                pcs[segname] = pc
                lines.append("\trestore")
                segname = back
                hdr, sid, gran = ctx()
                pc = pcs[back]
                evs.append("j:%d,%d,%d,%d" % (hdr, sid, gran, pc))
                stats["save_restore"] += 1
        else:
            if segname == "code":
                pcs["code"] = pc
            tgt = rng.choice(TARGETS)
            segname = "code"
            hdr, sid, gran = ctx()
            lines.append("\tcpu %s" % tgt["cpu"])
            if tgt["style"] == "moto68k":
                lines.append("\tpadding off")
            if "code" in pcs and rng.random() < 0.4 and tgt["max_addr"]["code"] - pcs["code"] > 800:
                # no SEGMENT / ORG: the CPU statement selects CODE, whose counter is where it was left
                pc = pcs["code"]
                stats["cpusw_keep_pc"] += 1
            else:
                lines.append("\tsegment code")
                a = rng.randrange(0, min(tgt["max_addr"]["code"] // 2, 0x7000))
                lines.append("\torg %d" % a)
                pc = a
            evs.append("j:%d,%d,%d,%d" % (hdr, sid, gran, pc))
            stats["cpusw"] += 1
    # how the source ends: END <address> (entry record), END without operand, no END statement at all
    if end_kind is None:
        r = rng.random()
        end_kind = "addr" if r < 0.35 else ("plain" if r < 0.55 else "absent")
    endtok = "-"
    if end_kind == "addr":
        entry = rng.randrange(0, 0x10000) if rng.random() < 0.85 else rng.randrange(0x10000, 0x80000000)
        lines.append("\tend %d" % entry)
        endtok = str(entry)
    elif end_kind == "plain":
        lines.append("\tend")
        endtok = "e"
    stats["end_" + end_kind] = 1
    if end_kind != "absent" and rng.random() < 0.4:
        # "Lines that eventually follow in the source file will be ignored"
        hdr, sid, gran = ctx()
        src_, _bs = data_stmt(rng, tgt, gran, 3 * gran, 3 * gran)
        lines.append(src_)
        stats["after_end"] = 1
    (hdr, sid, gran), pc0 = first
    tail = "%d %d %d %d %s %s" % (hdr, sid, gran, pc0, endtok, " ".join(evs))
    stats["bytes"] = total
    return "\n".join(lines) + "\n", tail, stats


def gen_long_run(rng, which):
    """one contiguous run of more than 64 KiB on a word- or dword-granular target (record split
    must happen by *byte* count), optionally under an active PHASE (the split must use the load address)"""
    tgt = [x for x in TARGETS if x["cpu"] == which][0]
    hdr = tgt["hdr"]
    sid, gran = tgt["segs"]["code"]
    lines = ["\tcpu %s" % tgt["cpu"]]
    if tgt["style"] == "moto68k":
        lines.append("\tpadding off")
    start = rng.choice([0, 16, 0x100])
    lines.append("\torg %d" % start)
    evs = []
    phase = rng.random() < 0.5
    phase_val = rng.choice([0x2000, 0x4000]) if phase else 0
    if phase:
        lines.append("\tphase %d" % phase_val)
    total = 0
    target_bytes = rng.choice([65536 + 2 * gran, 66000, 70000, 131072 + 4 * gran])
    if tgt["style"] == "c25":
        target_bytes = min(target_bytes, 2 * (0xffff - start - phase_val - 64))
    while total < target_bytes:
        if gran == 1:
            n = rng.choice([255, 256, 509, 513, 1024, 4096, 30000])
            v = rng.randrange(256)
            if tgt["style"] == "moto68k":
                lines.append("\tdc.b [%d]%d" % (n, v))
            else:
                lines.append("\tdb %d dup (%d)" % (n, v))
            bs = bytes([v]) * n
        else:
            h = rng.choice([gran, 2 * gran, 3 * gran, 20, 60, 120, 120])
            src, bs = data_stmt(rng, tgt, gran, h, h)
            lines.append(src)
        evs.append("e:" + bs.hex())
        total += len(bs)
    if phase:
        lines.append("\tdephase")
    lines.append("\tds.b 2" if tgt["style"] == "moto68k" else reserve_stmt(tgt, 2))
    src, bs = data_stmt(rng, tgt, gran, 8, 8)
    lines.append(src)
    pc = start + total // gran + 2
    evs.append("j:%d,%d,%d,%d" % (hdr, sid, gran, pc))
    evs.append("e:" + bs.hex())
    tail = "%d %d %d %d - %s" % (hdr, sid, gran, start, " ".join(evs))
    return "\n".join(lines) + "\n", tail, dict(emits=len(evs) - 1, reserves=1, orgs=0, segsw=0, cpusw=0, bigstmt=0, bytes=total, longruns=1, phased=int(phase))


def verdict_fields(ans):
    return dict(x.split("=", 1) for x in ans.split() if "=" in x)


def spec_ok(kv):
    return kv.get("parse") == "ok" and kv.get("cells") == "eq" and kv.get("entry") == "eq" and kv.get("consistent") == "ok"


def short(kv):
    return " ".join("%s=%s" % (k, v) for k, v in kv.items() if k != "modelfile")


def run(args):
    res = common.Result("C04", args.tier, args.seed, "proof")
    bdir, audit, proof_problems = common.standard_setup(res, "C04", ["FileFormat", "ListParams", "TargetDesc"])
    if bdir is None:
        return res.finish()
    ok = not any(p.startswith("driver does not build") for p in proof_problems)

    # ---- correspondence (B) and spec-on-impl (C)
    quick = args.tier == "quick"
    n_prog = 260 if quick else 3000
    rng = common.rng_for(args.seed, "C04")
    rng2 = common.rng_for(args.seed, "C04-stmt")
    spec_fail = []
    corr_fail = []
    samples = []
    agg = dict(emits=0, reserves=0, orgs=0, segsw=0, cpusw=0, bigstmt=0, bytes=0, records=0, asl_rejected=0, longruns=0, phased=0)
    distinct = set()
    reqs = []
    metas = []
    inc = os.path.join(common.REPO, "include")
    with common.Workdir("c04") as wd:
        pool = c04_stmt.FilePool(rng2, wd, args.tier)
        # corpus first
        progs = []     # (source, request tail, stats, tag, names of the BINCLUDEd files)
        cdir = os.path.join(common.VERIF, "corpus", "C04")
        if os.path.isdir(cdir):
            for f in sorted(os.listdir(cdir)):
                if f.endswith(".asm"):
                    src = open(os.path.join(cdir, f)).read()
                    tail = open(os.path.join(cdir, f[:-4] + ".req")).read().strip()
                    progs.append((src, tail, dict(emits=0, reserves=0, orgs=0, segsw=0, cpusw=0, bigstmt=0, bytes=0), "corpus:" + f, []))
        lr = ["320c25", "320c30", "68000", "68000"] if quick else ["320c25", "320c30", "68000", "320c30"] * 8
        for i, which in enumerate(lr):
            src, tail, st = gen_long_run(rng, which)
            progs.append((src, tail, st, "longrun:%d:%s" % (i, which), []))
        # statements that reach WriteBytes block by block / copy by copy
        # (`q:`: above this cost estimate the driver takes the byte machine's file from theorem C04_refine, see Driver/C04.lean)
        qtok = " q:%d" % (3000000 if quick else 30000000)
        for i in range(14 if quick else 120):
            src, tail, st, used = c04_stmt.gen_chunked(rng2, pool, args.tier, small_wide=(i % 7 == 6))
            progs.append((src, tail + qtok, st, "binclude:%d" % i, used))
        for i in range(6 if quick else 40):
            src, tail, st, used = c04_stmt.gen_rept(rng2, TARGETS, data_stmt, reserve_stmt, args.tier)
            progs.append((src, tail + qtok, st, "rept:%d" % i, used))
        # record boundaries decided by the statement layer: processor / address space changed by CPU, SEGMENT, SAVE / RESTORE
        rng3 = common.rng_for(args.seed, "C04-ctl")
        for i in range(90 if quick else 900):
            src, tail, st, used = c04_ctl.gen_ctl(rng3, TARGETS, data_stmt, reserve_stmt, args.tier, shape="wrap" if i % 5 < 2 else ("order" if i % 5 == 4 else None))
            progs.append((src, tail, st, "ctl:%d" % i, used))
        # sources for the joint runs (each is also judged alone, like every other program)
        plans = c04_stmt.session_plan(rng2, args.tier)
        sess = []     # per plan: [index into progs]
        for si, kinds in enumerate(plans):
            ids = []
            for j, kind in enumerate(kinds):
                if rng2.random() < 0.12:
                    src, tail, st, used = c04_stmt.gen_chunked(rng2, pool, args.tier, small_wide=True, end_kind=kind)
                else:
                    src, tail, st = gen_program(rng2, "small", end_kind=kind)
                    used = []
                ids.append(len(progs))
                progs.append((src, tail, st, "sess:%d:%d:%s" % (si, j, kind), used))
            sess.append(ids)
        for i in range(n_prog):
            sc = "small" if i % 10 < 6 else ("medium" if i % 10 < 9 else "large")
            if quick and sc == "large" and i % 30 != 9:
                sc = "medium"
            src, tail, st = gen_program(rng, sc)
            progs.append((src, tail, st, "gen:%d:%s" % (i, sc), []))
        alone = {}
        for idx, (src, tail, st, tag, used) in enumerate(progs):
            f = os.path.join(wd, "p%d.asm" % idx)
            open(f, "w").write(src)
            pf = os.path.join(wd, "p%d.p" % idx)
            rc, so, se = common.run_tool(bdir, "asl", ["-q", "-i", inc, f, "-o", pf], wd, timeout=120)
            if rc != 0 or not os.path.exists(pf):
                agg["asl_rejected"] += 1
                # a valid data-only program must assemble
                spec_fail.append(dict(tag=tag, why="asl rejected a valid data program: rc=%s %s" % (rc, (so + se).decode(errors="replace")[-400:]), source=src,
                                      files={n: pool.files[n].hex() for n in used}))
                continue
            fb = open(pf, "rb").read()
            os.unlink(pf)
            os.unlink(f)
            alone[idx] = fb
            reqs.append(fb.hex() + " " + tail)
            metas.append((src, tail, st, tag, used))
            for k in st:
                agg[k] = agg.get(k, 0) + st[k]
            distinct.add(tail if len(tail) < 4000 else hash(tail))
        # the processor table of the statement-level generator (family byte, address units, list units, TurnWords) against the
        # parameters dumped from the current build, and the hypothesis of C04_order_word_bytes for every processor given 16-bit data
        if ok:
            preqs, ptgts = c04_ctl.params_requests(TARGETS)
            for t, ans in zip(ptgts, common.driver("c04p", preqs)):
                kv = verdict_fields(ans)
                agg["params_" + kv.get("params", "?")] = agg.get("params_" + kv.get("params", "?"), 0) + 1
                if kv.get("params") != "ok":
                    corr_fail.append(dict(tag="params:" + t["cpu"], why="processor description used by the generator / the model differs from what "
                                          "`cpu %s` establishes in the current build (Generated/ListParams): %s" % (t["cpu"], ans)))
                if c04_ctl.order_of(t)[0] is not None and kv.get("coherent") != "ok":
                    proof_problems.append("processor description of %s is outside the hypothesis of C04_order_word_bytes: %s" % (t["cpu"], ans))
        answers = common.driver("c04", reqs, timeout=3600) if ok and reqs else []
        for (src, tail, st, tag, used), ans in zip(metas, answers):
            kv = verdict_fields(ans)
            agg["records"] += int(kv.get("nrec", 0))
            agg["l1_" + kv.get("l1", "?")] = agg.get("l1_" + kv.get("l1", "?"), 0) + 1
            if len(samples) < 3 and st["emits"] >= 2:
                samples.append(dict(tag=tag, source=src[:600], verdict={k: v for k, v in kv.items() if k != "modelfile"}))
            elif tag in ("binclude:0", "rept:0") or tag.startswith("sess:0:0"):
                samples.append(dict(tag=tag, source=src[:600], verdict={k: v for k, v in kv.items() if k != "modelfile"}))
            files = {n: pool.files[n].hex() for n in used}
            if not spec_ok(kv):
                f = dict(tag=tag, why="spec check on the real code file failed: " + short(kv), source=src, request_tail=tail, files=files)
                spec_fail.append(f)
            elif kv.get("model") != "eq":
                corr_fail.append(dict(tag=tag, why="real code file differs from the model's file (image still as specified)", source=src, request_tail=tail, files=files, model_file=kv.get("modelfile", "")[:4000]))
            if kv.get("l2") != "eq":
                proof_problems.append("model-internal: L1 file != serialise(L2) on " + tag)

        # ---- several sources in one asl call: every order, both ways of naming the outputs, with / without further passes
        sreqs = []
        smetas = []
        for si, ids in enumerate(sess):
            if any(i not in alone for i in ids):
                continue
            members = [("s%d_%d" % (si, j), progs[i][0]) for j, i in enumerate(ids)]
            for oi, order in enumerate(c04_stmt.orders_of(rng2, len(ids), args.tier)):
                style = "default" if (si + oi) % 2 == 0 else "dash_o"
                extra = 1 if (si + oi) % 4 == 3 else 0
                rc, out, pbs = c04_stmt.run_session(bdir, wd, "j", members, order, style, extra)
                agg["session_runs"] = agg.get("session_runs", 0) + 1
                names = [members[i][0] + ".asm" for i in order]
                kinds = [progs[ids[i]][3].split(":")[-1] for i in order]
                info = dict(tag="session:%d:order=%s:%s:extra_passes=%d" % (si, "".join(map(str, order)), style, extra),
                            command="asl -q -i <include> " + " ".join(names) + ("" if style == "default" else " -o <one per source>"),
                            ends=kinds, sources=[members[i][1] for i in order], names=names,
                            tails=[progs[ids[i]][1] for i in order], style=style, extra_passes=extra,
                            source="".join("; ---- %s (%s)\n%s" % (n, k, members[i][1]) for n, k, i in zip(names, kinds, order)),
                            files={n: pool.files[n].hex() for i in order for n in progs[ids[i]][4]})
                if rc != 0 or any(b is None for b in pbs):
                    spec_fail.append(dict(info, why="joint run of sources that assemble alone failed: rc=%s %s" % (rc, out[-400:])))
                    continue
                agg["session_files"] = agg.get("session_files", 0) + len(pbs)
                tails = [t + (" p:%d" % extra if extra else "") for t in info["tails"]]
                sreqs.append(" | ".join(b.hex() + " " + t for b, t in zip(pbs, tails)))
                smetas.append((info, [pbs[k] == alone[ids[i]] for k, i in enumerate(order)]))
                distinct.add(("session", si, order, style, extra))
        sanswers = common.driver("c04s", sreqs, timeout=3600) if ok and sreqs else []
        for (info, same), ans in zip(smetas, sanswers):
            parts = ans.split(" | ")
            for k, part in enumerate(parts):
                kv = verdict_fields(part)
                where = "code file %d (%s, source ends: %s)" % (k + 1, info["names"][k][:-4] + ".p", info["ends"][k])
                if not spec_ok(kv):
                    spec_fail.append(dict(info, file_index=k, why="%s of `%s` is not what its own source specifies: %s" % (where, info["command"], short(kv))))
                elif kv.get("model") != "eq":
                    corr_fail.append(dict(info, file_index=k, why="%s differs from the session model's file (still as specified): %s" % (where, short(kv))))
                elif not same[k]:
                    corr_fail.append(dict(info, file_index=k, why="%s is not byte-identical to the file of the same source assembled alone" % where))
                if kv.get("l2") != "eq":
                    proof_problems.append("model-internal: L1 file != serialise(L2) on " + info["tag"])

    res.coverage = common.proof_coverage(audit, "C04", [
        "translate/tables.py (Granularity table, fileformat.h constants via compiled dumper)",
        "correspondence: real asl vs Model.CodeFile L1 on generated programs (differential test)",
        "the C library's fread/fseek on a regular file behave like List.drop/List.take (BINCLUDE)"])
    res.coverage.update(
        evaluations=len(reqs) + sum(len(m[1]) for m in smetas), distinct_nontrivial=len(distinct),
        rule="random data/reservation/ORG/SEGMENT/CPU/END programs over 9 targets (gran 1/2/4), lengths from pools around 511/512/513, 1023..1025, 65534/65535; "
             "BINCLUDE of generated files (0..140000 bytes; whole / offset / offset+length) at chosen fill levels of the open record on 6 byte-addressed targets with 16 MiB..4 GiB address spaces; "
             "REPT bodies and nested DUP groups; statement-level sources (CPU over 24 processors of 19 families incl. members of one family, big- and little-endian, word- and byte-listed back ends "
             "(H8/300, H8/300H, H8/500, 68000, 6809, 68HC11, TMS9900, SH7000, XGATE, Z8001, 1802 / Z80, 8051, 6502, 8086, MSP430, PIC, AVR, C2x) in every order, 16-bit data statements directly behind CPU / RESTORE "
             "judged per byte by Model/CodeOrder (word buffer, TurnWords, DreheCodes) + specWordBytes, SEGMENT, ORG also to the current address, reservations, "
             "SAVE / RESTORE nested up to 5 deep restoring processor, address space, both or neither, data directly behind RESTORE) judged by Model/CodeCtl + specCellsC; joint runs of 2..4 sources ending in END <address> / END / nothing in every order (at most 6 per set in the quick tier), output names by default and by -o, "
             "with and without a forced further pass; non-trivial = at least one emitting statement; distinct by event list / by (source set, order, naming, passes)",
        samples=samples, distribution=agg)
    res.assumptions = ["generator's byte encoding of data statements (little-endian words on PIC/C3x) is the oracle for what the source specifies",
                       "the byte order class of each processor (c04_ctl.ORDER_TARGETS / ORDER_OF: big- or little-endian 16-bit data) is taken from the processors' data books / doc/pseudo-instructions.md",
                       "host is little-endian (HostBigEndian = 0): Model/CodeOrder lays WAsmCode[] words down low byte first",
                       "creator string is not compared (taken from the real file)",
                       "where the answer says l1=thm the byte machine's file was taken from theorem C04_refine (= serialised record machine) instead of executing it"]
    return common.conclude(res, proof_problems, spec_fail, corr_fail, len(reqs) + len(sreqs))


def replay(args):
    import json
    d = json.load(open(args.replay))
    print(json.dumps({k: (v if len(str(v)) < 2000 else str(v)[:2000] + "...") for k, v in d.items()}, indent=1))
    bdir = common.repo_build("hooks")
    inc = os.path.join(common.REPO, "include")
    with common.Workdir("c04r") as wd:
        for n, hx in (d.get("files") or {}).items():
            open(os.path.join(wd, n), "wb").write(bytes.fromhex(hx))
        if "sources" in d:
            members = list(zip([n[:-4] for n in d["names"]], d["sources"]))
            rc, out, pbs = c04_stmt.run_session(bdir, wd, "j", members, list(range(len(members))), d["style"], d["extra_passes"])
            print("asl rc =", rc, out[-500:])
            if all(b is not None for b in pbs):
                tails = [t + (" p:%d" % d["extra_passes"] if d["extra_passes"] else "") for t in d["tails"]]
                ans = common.driver("c04s", [" | ".join(b.hex() + " " + t for b, t in zip(pbs, tails))])[0]
                for n, part in zip(d["names"], ans.split(" | ")):
                    print(n, short(verdict_fields(part)))
        elif "source" in d:
            f = os.path.join(wd, "r.asm")
            open(f, "w").write(d["source"])
            rc, so, se = common.run_tool(bdir, "asl", ["-q", "-i", inc, f, "-o", os.path.join(wd, "r.p")], wd)
            print("asl rc =", rc, (so + se).decode(errors="replace")[-500:])
            if os.path.exists(os.path.join(wd, "r.p")) and "request_tail" in d:
                fb = open(os.path.join(wd, "r.p"), "rb").read()
                print(short(verdict_fields(common.driver("c04", [fb.hex() + " " + d["request_tail"]])[0])))
    return 0
