"""C01, parts "PHASE blocks", "near branches" and "sections" (Model/PassPhase.lean, Spec/Scope.lean, Model/Sym.lean,
driver mode c01x; Props/C01_Phase.lean).

Input classes added to the C01 streams:

 (PB) abstract programs in the statement language of Model/PassPhase.lean (labels, fillers, PHASE/DEPHASE nested up to
      two levels, value-dependent references: 6502 `lda` zero-page/absolute against *phased* label values, 68000
      BRA/Bcc/BSR without size attribute at distances 0, 2, 4 ... and around the 8-bit limit, incl. the label directly
      behind the instruction) rendered for 6502 and 68000: real asl vs the Lean model in status, number of passes,
      size and encoded value of every reference, extent of the image (B); termination under the pass cap and
      acceptance (C).
 (PC) programs over the six sampled targets (6502/6809/68HC11/68000/68000 with padding/8086) with marker bytes behind
      every label, before every reference and behind every PHASE statement: the value every reference encodes must be
      the *phased* address of the label (load address of its marker + phase address - load address of the PHASE
      marker), PC-relative forms are decoded against the phased address of the instruction (doc/pseudo-instructions.md
      "PHASE and DEPHASE"); "near groups" put a reference directly before/behind its label (distance 0, 1, 2 ...) with
      the fixed 8-bit branches of every target, subroutine calls and the auto-sized forms; each program is assembled
      normally and with one forced extra pass (C).
 (NS) the same near groups enumerated systematically: target x instruction form x gap x direction x {plain, PHASE}.
 (SB) section trees (depth <= 3) with FORWARD / PUBLIC / GLOBAL declarations, same-named labels on several levels,
      uses before and behind the section's own definition, qualified uses, in programs that need a single pass
      otherwise ("single") or contain ordinary forward references ("multi"), rendered for the six targets with marker
      bytes: the label every reference must be bound to is computed by the Lean SPEC (`Scope.judge` through driver mode
      `c01x S`: the manual's scope rule over the section tree), the value it really encodes is decoded from the image;
      each program also with one forced extra pass (C).
 (SA) the same trees rendered in the statement language of Model/Sym.lean (6502/Z80, labels on `nop`, uses as data
      words) and run through driver mode `c13`: real asl vs MODEL `Sym.assemble` (B) and SPEC `Scope.judge` (C).
"""
import os
import re
from collections import Counter
from concurrent.futures import ThreadPoolExecutor

from .. import common

PASS_CAP = 40
PASSES_RE = re.compile(rb"^\s*(\d+) pass(?:es)?\s*$", re.M)
SIG_SHADOW = "section-use-before-local-def-binds-outer"
SIG_BSR = "bsr-size-oscillation"
SIG_GLOBPAD = "global-copy-of-padded-label"

CC68 = {"bra": 0x60, "bhi": 0x62, "bls": 0x63, "bcc": 0x64, "bcs": 0x65, "bne": 0x66, "beq": 0x67, "bvc": 0x68,
        "bvs": 0x69, "bpl": 0x6A, "bmi": 0x6B, "bge": 0x6C, "blt": 0x6D, "bgt": 0x6E, "ble": 0x6F}


def s8(x):
    return x - 256 if x >= 128 else x


def s16(x):
    return x - 65536 if x >= 32768 else x


# ---------------------------------------------------------------- (PB) abstract PHASE programs
def gen_phase_abstract(rng, flavour):
    """-> (base, model tokens, source text, [(kind, opcode)] per reference in program order)"""
    nlab = rng.randrange(1, 7)
    labs = list(range(1, nlab + 1))
    pending = labs[:]
    rng.shuffle(pending)
    toks, src, kinds = [], [], []
    depth = 0
    if flavour == "6502":
        base = rng.choice([0x40, 0x200, 0x300, 0x1000])
        src += ["\tcpu 6502", "\torg %d" % base]
        paddrs = [0x10, 0x80, 0xC0, 0xF0, 0xF8, 0xFC, 0xFE, 0x100, 0x180, 0x2000, 0x8000, base, base + 1]
        fills = [1, 1, 2, 3, 5, 100, 126, 127, 128, 129, 130, 250, 253, 254, 255, 256]
        gaps = [0, 0, 0, 1, 2, 3]
    else:
        base = rng.choice([0x400, 0x1000, 0x2000])
        src += ["\tcpu 68000", "\torg %d" % base]
        paddrs = [0, 0x10, 0x400, 0x1000, 0x1002, 0x2000, 0x4000, 0x6000, base, base + 2, base + 0x40, base + 0x80]
        fills = [2, 2, 4, 6, 8, 120, 122, 124, 126, 128, 130, 132, 250, 254, 256, 258]
        gaps = [0, 0, 0, 0, 2, 2, 4]

    def label(n):
        toks.append("L%d" % n)
        src.append("lab%d:" % n)

    def filler(k):
        while k > 0:
            c = min(k, 100)
            toks.append("S%d" % c)
            if flavour == "6502":
                src.append("\tbyt " + ",".join(str(rng.randrange(256)) for _ in range(c)))
            else:
                src.append("\tdc.w " + ",".join(str(rng.randrange(65536)) for _ in range(c // 2)))
            k -= c

    def ref(n):
        if flavour == "6502":
            if rng.random() < 0.7:
                toks.append("R%d:zp" % n)
                src.append("\tlda lab%d" % n)
                kinds.append(("zp", 0))
            else:
                toks.append("R%d:w2" % n)
                src.append("\tadr lab%d" % n)
                kinds.append(("w2le", 0))
        else:
            r = rng.random()
            if r < 0.36:
                toks.append("R%d:bsr" % n)
                src.append("\tbsr lab%d" % n)
                kinds.append(("bsr", 0x61))
            elif r < 0.72:
                m = rng.choice(sorted(CC68))
                toks.append("R%d:bcc" % n)
                src.append("\t%s lab%d" % (m, n))
                kinds.append(("bcc", CC68[m]))
            elif r < 0.86:
                toks.append("R%d:l4" % n)
                src.append("\tdc.l lab%d" % n)
                kinds.append(("l4", 0))
            else:
                toks.append("R%d:w2" % n)
                src.append("\tdc.w lab%d" % n)
                kinds.append(("w2be", 0))

    for _ in range(rng.randrange(4, 28)):
        r = rng.random()
        if r < 0.20 and pending:
            label(pending.pop())
        elif r < 0.31 and depth < 2:
            a = rng.choice(paddrs)
            if rng.random() < 0.3:
                a += rng.randrange(0, 8) * (1 if flavour == "6502" else 2)
            toks.append("H%d" % a)
            src.append("\tphase %d" % a)
            depth += 1
        elif r < 0.39 and depth > 0:
            toks.append("D")
            src.append("\tdephase")
            depth -= 1
        elif r < 0.82:
            n = rng.choice(labs)
            if n in pending and rng.random() < 0.6:
                # the label directly behind the reference (or a few bytes further)
                if rng.random() < 0.25:
                    # label first: distance -(size)
                    pending.remove(n)
                    label(n)
                    ref(n)
                else:
                    ref(n)
                    filler(rng.choice(gaps))
                    if rng.random() < 0.12 and depth < 2:
                        a = rng.choice(paddrs)
                        toks.append("H%d" % a)
                        src.append("\tphase %d" % a)
                        depth += 1
                    pending.remove(n)
                    label(n)
            else:
                ref(n)
        else:
            filler(rng.choice(fills))
    for n in pending:
        label(n)
    if flavour == "68000":
        filler(2)
    close = depth if rng.random() < 0.85 else rng.randrange(0, depth + 1)
    for _ in range(close):
        toks.append("D")
        src.append("\tdephase")
    return base, toks, "\n".join(src) + "\n", kinds


# hand-written shapes: the BSR to the label directly behind it, plain / in PHASE blocks / behind a label of its own; the witness
# of known finding bsr-size-oscillation (the flag "label directly behind a BSR" does not say behind WHICH BSR)
PB_FIXED = [
    (0x1000, ["R1:bsr", "L1", "S2"], ["\tbsr lab1", "lab1:", "\tdc.w 1"]),
    (0x1000, ["H32768", "R1:bsr", "L1", "S2", "D"], ["\tphase 32768", "\tbsr lab1", "lab1:", "\tdc.w 1", "\tdephase"]),
    (0x1000, ["H16", "H8192", "R1:bsr", "L1", "D", "R1:bsr", "L2", "S2", "D"],
     ["\tphase 16", "\tphase 8192", "\tbsr lab1", "lab1:", "\tdephase", "\tbsr lab1", "lab2:", "\tdc.w 1", "\tdephase"]),
    (0x1000, ["H4096", "L2", "R1:bsr", "L1", "R1:bsr", "R2:bsr", "S2", "D"],
     ["\tphase 4096", "lab2:", "\tbsr lab1", "lab1:", "\tbsr lab1", "\tbsr lab2", "\tdc.w 1", "\tdephase"]),
    (0x400, ["R3:bsr", "L2", "R2:bsr", "L3", "S2"], ["\tbsr lab3", "lab2:", "\tbsr lab2", "lab3:", "\tdc.w 1"]),
]


def compare_phase_refs(img, flavour, kinds, refs):
    """the model's references against the real image; -> list of mismatch texts"""
    mism = []
    g = lambda a: img.get((1, a))
    if len(refs) != len(kinds):
        return ["model lists %d references, program has %d" % (len(refs), len(kinds))]
    for (kind, op), r in zip(kinds, refs):
        a, epc, sym, v, size = (int(x) for x in r.split(":"))
        b = [g(a + k) for k in range(4)]
        ok = False
        if kind == "zp":
            if size == 2:
                ok = b[0] == 0xA5 and b[1] == (v & 0xFF) and 0 <= v < 256
            else:
                ok = b[0] == 0xAD and b[1] == (v & 0xFF) and b[2] == ((v >> 8) & 0xFF)
        elif kind == "w2le":
            ok = b[0] == (v & 0xFF) and b[1] == ((v >> 8) & 0xFF)
        elif kind == "w2be":
            ok = b[0] == ((v >> 8) & 0xFF) and b[1] == (v & 0xFF)
        elif kind == "l4":
            ok = None not in b and int.from_bytes(bytes(b), "big") == (v & 0xFFFFFFFF)
        elif kind in ("bcc", "bsr"):
            d = v - (epc + 2)
            if size == 2:
                if d == 0 and kind == "bcc":
                    ok = b[0] == 0x4E and b[1] == 0x71
                else:
                    ok = b[0] == op and b[1] == (d & 0xFF) and b[1] not in (0, 0xFF)
            else:
                ok = b[0] == op and b[1] == 0 and None not in b and ((b[2] << 8) | b[3]) == (d & 0xFFFF)
        if not ok:
            mism.append("ref to lab%d at load address %d (phased %d): image holds %s, model: value %d in %d bytes" % (sym, a, epc, b, v, size))
    return mism


def part_phase_abstract(args, bdir, wd, n, out):
    rng = common.rng_for(args.seed, "C01X/PB")
    env_cap = {"ASL_VERIF_MAX_PASSES": str(PASS_CAP)}
    from . import c01 as c01m
    reqs, meta, gen = [], [], []
    for i in range(n):
        flavour = "6502" if i % 3 == 0 else "68000"
        gen.append((i, flavour) + gen_phase_abstract(rng, flavour))
    for (base, toks, lines) in PB_FIXED:
        kinds = [("bsr", 0x61) if t.endswith(":bsr") else ("bcc", 0x60) for t in toks if t[0] == "R"]
        gen.append((len(gen), "68000", base, toks, "\tcpu 68000\n\torg %d\n" % base + "\n".join(lines) + "\n", kinds))

    def one(g):
        i, flavour, base, toks, text, kinds = g
        f = os.path.join(wd, "xb%d.asm" % i)
        open(f, "w").write(text)
        p = os.path.join(wd, "xb%d.p" % i)
        rc, so, se = common.run_tool(bdir, "asl", [f, "-o", p], wd, env=env_cap, timeout=60)
        m = PASSES_RE.search(so)
        real = dict(rc=rc, passes=int(m.group(1)) if m else None, img=None)
        if os.path.exists(p):
            real["img"] = c01m.image_of(open(p, "rb").read())
            os.unlink(p)
        os.unlink(f)
        return real

    with ThreadPoolExecutor(max_workers=4) as ex:
        reals = list(ex.map(one, gen))
    for (i, flavour, base, toks, text, kinds), real in zip(gen, reals):
        reqs.append("P %d %d %s" % (base, PASS_CAP, " ".join(toks)))
        meta.append((flavour, base, toks, text, kinds, real))
        out["distinct"].add(" ".join(toks))
        out["dist"]["PB:flavour/" + flavour] += 1
        out["dist"]["PB:phase-statements"] += sum(1 for t in toks if t[0] == "H")
    try:
        answers = common.driver("c01x", reqs, timeout=1800)
    except RuntimeError as ex:
        out["problems"].append(str(ex))
        answers = []
    if len(answers) != len(reqs):
        out["problems"].append("driver c01x answered %d of %d PHASE requests" % (len(answers), len(reqs)))
        answers = [""] * len(reqs)
    for (flavour, base, toks, text, kinds, real), rq, ans in zip(meta, reqs, answers):
        out["evaluations"] += 1
        rc = real["rc"]
        if rc == 97 or rc == "timeout":
            out["dist"]["PB:cap-hits"] += 1
            # known finding only when the bug-compatible model reproduces the livelock and an auto-sized BSR is involved
            known = ans.startswith("passes=none") and any(t.endswith(":bsr") for t in toks)
            out["dist"]["PB:cap-hits-reproduced-by-the-model"] += 1 if ans.startswith("passes=none") else 0
            out["spec_fail"].append(dict(sig=SIG_BSR if known else None, why="pass loop does not terminate within %d passes (program with PHASE blocks / near branches); model: %s" % (PASS_CAP, ans[:40]),
                                         source=text, model_request=rq))
            continue
        if rc != 0:
            out["spec_fail"].append(dict(sig=None, why="asl rejected a valid program: rc=%s" % rc, source=text, model_request=rq))
            continue
        m = re.match(r"passes=(\S+) pc=(\d+) refs=(.*)", ans)
        if not m:
            if ans:
                out["problems"].append("driver rejected a c01x request: %r / %s" % (ans, rq[:200]))
            continue
        out["dist"]["PB:passes=%s" % real["passes"]] += 1
        mism = []
        if m.group(1) == "none":
            mism.append("model: no convergence within %d passes, real asl: %s passes" % (PASS_CAP, real["passes"]))
        else:
            if real["passes"] != int(m.group(1)):
                mism.append("passes %s vs model %s" % (real["passes"], m.group(1)))
            img = real["img"] or {}
            refs = [x for x in m.group(3).split(",") if x]
            mism += compare_phase_refs(img, flavour, kinds, refs)
            addrs = sorted(a for (s, a) in img if s == 1)
            if addrs != list(range(base, int(m.group(2)))):
                mism.append("image covers %s..%s, model %d..%d" % (addrs[0] if addrs else None, addrs[-1] + 1 if addrs else None, base, int(m.group(2))))
            out["dist"]["PB:references-compared"] += len(refs)
            for (kind, op), r in zip(kinds, refs):
                a, epc, sym, v, size = (int(x) for x in r.split(":"))
                if kind in ("bcc", "bsr"):
                    d = v - (epc + 2)
                    key = "0" if d == 0 else "2" if d == 2 else "other-8bit" if -128 <= d <= 127 else "16bit"
                    out["dist"]["PB:%s-distance/%s%s" % (kind, key, "/phased" if a != epc else "")] += 1
        if mism:
            out["corr_fail"].append(dict(why="; ".join(mism[:4]), correspondence="asl passes / sizes / encoded references == Model.PassPhase.assemble",
                                         source=text, model_request=rq))
        elif len(out["samples"]) < 2 and real["passes"] and real["passes"] >= 3 and any(t[0] == "H" for t in toks):
            out["samples"].append(dict(kind="phase-abstract/" + flavour, source=text[:500], model_request=rq[:300], passes=real["passes"]))


# ---------------------------------------------------------------- resolution oracle shared by (PC), (NS), (SB)
XT = {
    # far: forms that reach any label of the program; near: fixed 8-bit forms, only used next to their label
    "6502": dict(cpu="6502", db="byt", dwm="adr", endian="little", bits=16, word=False,
                 far=[("lda", "lda", 0), ("jmp", "jmp", 0), ("dw", "adr", 0), ("jsr65", "jsr", 0x20)],
                 near=[("rel8", "bne", 0xD0), ("rel8", "beq", 0xF0), ("rel8", "bcc", 0x90)]),
    "6809": dict(cpu="6809", db="fcb", dwm="fdb", endian="big", bits=16, word=False,
                 far=[("lda", "lda", 0), ("jmp", "jmp", 0), ("dw", "fdb", 0), ("lrel16", "lbra", 0x16), ("lrel16", "lbsr", 0x17), ("jsr11", "jsr", 0)],
                 near=[("rel8", "bra", 0x20), ("rel8", "bsr", 0x8D), ("rel8", "bne", 0x26)]),
    "68hc11": dict(cpu="6811", db="fcb", dwm="fdb", endian="big", bits=16, word=False,
                   far=[("ldaa", "ldaa", 0), ("jmp3", "jmp", 0), ("dw", "fdb", 0), ("jsr11", "jsr", 0)],
                   near=[("rel8", "bra", 0x20), ("rel8", "bsr", 0x8D), ("rel8", "bne", 0x26)]),
    "68000": dict(cpu="68000", db="dc.b", dwm="dc.w", endian="big", bits=32, word=False,
                  far=[("b68", "bra", 0x60), ("b68", "bsr", 0x61), ("b68", None, 0), ("jmp68", "jmp", 0), ("dw", "dc.w", 0), ("dl", "dc.l", 0)],
                  near=[]),
    "68000p": dict(cpu="68000", db="dc.b", dwm="dc.w", endian="big", bits=32, word=True,
                   far=[("b68", "bra", 0x60), ("b68", "bsr", 0x61), ("b68", None, 0), ("jmp68", "jmp", 0), ("dl", "dc.l", 0)],
                   near=[]),
    "8086": dict(cpu="8086", db="db", dwm="dw", endian="little", bits=16, word=False,
                 far=[("jmp86", "jmp", 0), ("dw", "dw", 0), ("call86", "call", 0xE8)],
                 near=[("rel8", "jnz", 0x75), ("rel8", "jz", 0x74), ("rel8", "jc", 0x72)]),
    "z80": dict(cpu="z80", db="db", dwm="dw", endian="little", bits=16, word=False,
                far=[("abs16le", "jp", 0xC3), ("abs16le", "call", 0xCD), ("dw", "dw", 0)],
                near=[("rel8", "jr", 0x18), ("rel8", "djnz", 0x10)]),
}
PCSYM = {"6502": "*", "6809": "*", "68hc11": "*", "68000": "*", "68000p": "*", "8086": "$", "z80": "$"}
XNAMES = sorted(XT)


def pick_spec(rng, spec):
    """fix the mnemonic of a 68000 conditional branch"""
    if spec[0] == "b68" and spec[1] is None:
        m = rng.choice([x for x in sorted(CC68) if x != "bra"])
        return ("b68", m, CC68[m])
    return spec


def marker_line(t, tag, ident):
    """4 marker bytes: tag, id hi, id lo, closing byte"""
    close = {0xEE: 0x77, 0xDD: 0x66, 0xCC: 0x55}[tag]
    if t["word"]:
        return "dc.w %d,%d" % ((tag << 8) | (ident >> 8), ((ident & 255) << 8) | close)
    return "%s %d,%d,%d,%d" % (t["db"], tag, ident >> 8, ident & 255, close)


def guard_line(t):
    return "\tdc.w 257,257" if t["word"] else "\t%s 1,1,1,1" % t["db"]


def ref_line(t, spec, operand):
    kind, mnem, _ = spec
    return "\t%s %s" % (mnem, operand)


def decode_any(img, a, epc, spec, t, tname):
    """(value the reference at load address a encodes, bits) or (None, why); epc = phased address of the instruction"""
    from . import c01 as c01m
    kind, mnem, opc = spec
    g = lambda k: img.get((1, a + k))
    mask = (1 << t["bits"]) - 1
    try:
        if kind == "rel8":
            if g(0) == opc:
                return (epc + 2 + s8(g(1))) & mask, t["bits"]
        elif kind == "b68":
            if g(0) == opc and g(1) not in (0, 0xFF):
                return (epc + 2 + s8(g(1))) & mask, 32
            if g(0) == opc and g(1) == 0:
                return (epc + 2 + s16((g(2) << 8) | g(3))) & mask, 32
            if opc != 0x61 and g(0) == 0x4E and g(1) == 0x71:     # Bcc to the next instruction is a NOP
                return (epc + 2) & mask, 32
        elif kind == "lrel16":
            if g(0) == opc:
                return (epc + 3 + s16((g(1) << 8) | g(2))) & mask, 16
        elif kind == "call86":
            if g(0) == 0xE8:
                return (epc + 3 + (g(1) | (g(2) << 8))) & mask, 16
        elif kind == "abs16le":
            if g(0) == opc:
                return g(1) | (g(2) << 8), 16
        elif kind == "jsr65":
            if g(0) == 0x20:
                return g(1) | (g(2) << 8), 16
        elif kind == "jsr11":
            if g(0) == 0xBD:
                return (g(1) << 8) | g(2), 16
            if g(0) == 0x9D:
                return g(1), 16
        else:
            tn = "68000" if tname == "68000p" else tname
            val, bits = c01m.decode_ref(img, a, kind, t["endian"], tn)
            if val is None:
                return None, bits
            relative = kind in ("bra", "jmp86") or (kind == "jmp68" and g(0) == 0x4E and g(1) == 0xFA)
            if relative:
                val = (val + (epc - a)) & ((1 << bits) - 1)
            return val, bits
    except TypeError:
        return None, "image ends inside the instruction"
    return None, "opcode %s not understood by the mini decoder" % [g(0), g(1)]


def check_resolution(img, tname, labels, refs, phases):
    """labels: {id: ctx}; refs: [(rid, spec, target id, ctx)]; phases: {pid: phase address}; ctx = pid or None.
    -> (bad texts, failing ref ids, number decoded, label values, {ref id: encoded - wanted})"""
    t = XT[tname]
    # one scan of the image: (tag, id) -> load addresses of the 4-byte markers
    close = {0xEE: 0x77, 0xDD: 0x66, 0xCC: 0x55}
    marks = {}
    for (s, a), b in img.items():
        if s == 1 and b in close and img.get((1, a + 3)) == close[b]:
            hi, lo = img.get((1, a + 1)), img.get((1, a + 2))
            if hi is not None and lo is not None:
                marks.setdefault((b, (hi << 8) | lo), []).append(a)
    off = {None: 0}
    for pid, paddr in phases.items():
        h = marks.get((0xCC, pid), [])
        if len(h) == 1:
            off[pid] = paddr - h[0]
    lab_val = {}
    for lid, ctx in labels.items():
        h = marks.get((0xEE, lid), [])
        if len(h) == 1 and ctx in off:
            lab_val[lid] = h[0] + off[ctx]
    bad, bad_ids, decoded = [], [], 0
    diffs = {}
    for (rid, spec, target, ctx) in refs:
        h = marks.get((0xDD, rid), [])
        if len(h) != 1 or (target != "self" and target not in lab_val) or ctx not in off:
            continue
        a = h[0] + 4
        val, bits = decode_any(img, a, a + off[ctx], spec, t, tname)
        if val is None:
            bad.append("reference %d (%s) at %d: %s" % (rid, spec[1], a, bits))
            bad_ids.append(rid)
            continue
        decoded += 1
        if target == "self":
            # the program counter symbol: "readout of the program counter via the symbols * or $" gives the phased address
            if val != (a + off[ctx]) & ((1 << bits) - 1):
                bad.append("reference %d (%s of the program counter symbol) at load address %d encodes %d, the phased address there is %d" % (rid, spec[1], a, val, a + off[ctx]))
                bad_ids.append(rid)
            continue
        want = lab_val[target] & ((1 << bits) - 1)
        if val != want:
            bad.append("reference %d (%s) at load address %d encodes %d, its label (marker id %d) has the value %d" % (rid, spec[1], a, val, target, lab_val[target]))
            bad_ids.append(rid)
            diffs[rid] = val - want
    return bad, bad_ids, decoded, lab_val, diffs


def map_syms(text):
    out = {}
    for line in text.split("\n"):
        t = line.split()
        if len(t) >= 3 and t[1] == "Int":
            out[t[0]] = t[2]
    return out


def assemble_twice(bdir, wd, tag, text, flags=()):
    """normal run and run with one forced extra pass -> dict(rc, passes, img, extra=(why or None))"""
    from . import c01 as c01m
    env_cap = {"ASL_VERIF_MAX_PASSES": str(PASS_CAP)}
    f = os.path.join(wd, tag + ".asm")
    open(f, "w").write(text)
    p1 = os.path.join(wd, tag + ".p")
    rc, so, se = common.run_tool(bdir, "asl", list(flags) + ["-g", "MAP", f, "-o", p1], wd, env=env_cap, timeout=60)
    m = PASSES_RE.search(so)
    res = dict(rc=rc, passes=int(m.group(1)) if m else None, img=None, extra=None, msg=(so + se)[-300:].decode(errors="replace"))
    mapf = os.path.join(wd, tag + ".map")
    if rc == 0 and os.path.exists(p1):
        d1 = open(p1, "rb").read()
        mp1 = open(mapf, errors="replace").read() if os.path.exists(mapf) else ""
        res["img"] = c01m.image_of(d1)
        rc2, so2, se2 = common.run_tool(bdir, "asl", list(flags) + ["-q", "-g", "MAP", f, "-o", p1], wd, env=dict(env_cap, ASL_VERIF_EXTRA_PASSES="1"), timeout=60)
        d2 = open(p1, "rb").read() if os.path.exists(p1) else None
        mp2 = open(mapf, errors="replace").read() if os.path.exists(mapf) else ""
        if rc2 != 0 or d2 != d1 or map_syms(mp1) != map_syms(mp2):
            res["extra"] = "one further pass changes the result: rc=%s code file equal=%s symbols equal=%s" % (rc2, d2 == d1, map_syms(mp1) == map_syms(mp2))
    for x in (f, p1, mapf):
        if os.path.exists(x):
            os.unlink(x)
    return res


# ---------------------------------------------------------------- (PC) real targets with PHASE blocks and near groups
PHASE_ADDRS = {
    "byte": [0x10, 0x60, 0x80, 0xC0, 0xF0, 0xFC, 0x100, 0x180, 0x1000, 0x4000, 0xC000, 0xE000],
    "68000": [0, 0x10, 0x400, 0x1000, 0x2000, 0x4000, 0x6000],
    "68000p": [0x7000, 0x7E00, 0x7F00, 0x7FF0, 0x8000, 0x8100, 0x9000],
}


def render_plan(tname, base, plan):
    """plan items: ('label', id, name) ('ref', rid, spec, operand, guard) ('fill', k) ('phase', pid, addr) ('dephase',) ('raw', text)"""
    t = XT[tname]
    lines = ["\tcpu %s" % t["cpu"]]
    if tname == "68000":
        lines.append("\tpadding off")
    lines.append("\torg %d" % base)
    for it in plan:
        if it[0] == "label":
            if t["word"]:
                lines.append("%s:\t%s" % (it[2], marker_line(t, 0xEE, it[1])))
            else:
                lines.append("%s:" % it[2])
                lines.append("\t" + marker_line(t, 0xEE, it[1]))
        elif it[0] == "tlabel":
            # nameless temporary label `+` / `-`
            if t["word"]:
                lines.append("%s\t%s" % (it[2], marker_line(t, 0xEE, it[1])))
            else:
                lines.append(it[2])
                lines.append("\t" + marker_line(t, 0xEE, it[1]))
        elif it[0] == "ref":
            _, rid, spec, operand, guard = it
            lines.append("\t" + marker_line(t, 0xDD, rid))
            lines.append(ref_line(t, spec, operand))
            if guard:
                lines.append(guard_line(t))
        elif it[0] == "fill":
            k = it[1]
            while k > 0:
                c = min(k, 64)
                lines.append("\t%s %s" % (t["db"], ",".join(str((7 * c + j) % 5 + 1) for j in range(c))))
                k -= c
        elif it[0] == "phase":
            if t["word"]:
                lines.append("\tdc.w 257")          # brings the load address to an even value
            lines.append("\tphase %d" % it[2])
            lines.append("\t" + marker_line(t, 0xCC, it[1]))
        elif it[0] == "dephase":
            if t["word"]:
                lines.append("\tdc.w 257")
            lines.append("\tdephase")
        elif it[0] == "raw":
            lines.append(it[1])
    return "\n".join(lines) + "\n"


# option variety: case-sensitive symbols, repass diagnostics (-r), both
FLAG_SETS = [(), (), ("-U",), ("-r",), (), ("-U", "-r")]


def gen_real_phase(rng, tname):
    """-> (text, labels {id: ctx}, refs [(rid, spec, target, ctx)], phases {pid: addr}, stats)"""
    t = XT[tname]
    nlab = rng.randrange(2, 8)
    if tname == "68000p":
        base = rng.choice([0x7E00, 0x7F00, 0x7F80, 0x7FC0, 0x7FF0, 0x8000 - 2 * rng.randrange(1, 200)])
        paddrs = PHASE_ADDRS["68000p"]
    elif tname == "68000":
        base = rng.choice([0, 0x40, 0x80, 0x100, 0x1000])
        paddrs = PHASE_ADDRS["68000"]
    else:
        base = rng.choice([0, 0x40, 0x80, 0xE0, 0x100, 0x1000])
        paddrs = PHASE_ADDRS["byte"]
    even = tname in ("68000", "68000p")
    if even:
        # phased ranges that overlap neither each other nor the load range: a label value can then coincide with the
        # address behind a BSR only where the source says so (the BSR size rule has no fixpoint at accidental distances
        # 0/2 - known finding bsr-size-oscillation, exercised with the model in part PB)
        paddrs = [0x2000, 0x4000, 0x6000] if tname == "68000" else [0x6000, 0xA000, 0xB800]
        rng.shuffle(paddrs)
    pending = list(range(nlab))
    rng.shuffle(pending)
    plan, labels, refs, phases = [], {}, [], {}
    ctx = []
    st = Counter()
    rid = [0]

    def cur():
        return ctx[-1] if ctx else None

    def put_label(n):
        plan.append(("label", n, "lab%d" % n))
        labels[n] = cur()

    def put_ref(spec, n, guard):
        spec = pick_spec(rng, spec)
        plan.append(("ref", rid[0], spec, "lab%d" % n, guard))
        refs.append((rid[0], spec, n, cur()))
        rid[0] += 1

    def put_fill(k):
        if tname == "68000" and k % 2:
            k += 1
        if k > 0:
            plan.append(("fill", k))

    for _ in range(rng.randrange(4, 24)):
        r = rng.random()
        if r < 0.20 and pending:
            put_label(pending.pop())
        elif r < 0.50:
            put_ref(rng.choice(t["far"]), rng.randrange(nlab), True)
        elif r < 0.68 and pending:
            # near group: reference and label next to each other
            n = pending.pop()
            specs = t["near"] + t["far"]
            spec = rng.choice(specs)
            gap = rng.choice([0, 0, 0, 1, 2, 2, 3, 4])
            if tname == "68000" and gap % 2:
                gap += 1
            if rng.random() < 0.7:
                put_ref(spec, n, False)
                put_fill(gap)
                put_label(n)
                st["near-forward/gap%d" % gap] += 1
            else:
                put_label(n)
                put_fill(gap)
                put_ref(spec, n, True)
                st["near-backward"] += 1
            if cur() is not None:
                st["near-in-phase"] += 1
        elif r < 0.715:
            # the program counter symbol as a data item
            spec = [x for x in t["far"] if x[0] in ("dw", "dl")][0]
            plan.append(("ref", rid[0], spec, PCSYM[tname], True))
            refs.append((rid[0], spec, "self", cur()))
            rid[0] += 1
            st["pc-symbol-references"] += 1
        elif r < 0.75:
            # nameless temporary labels: `+` is the next one, `-` the most recent one
            spec = pick_spec(rng, rng.choice(t["near"] + t["far"]))
            gap = rng.choice([0, 0, 1, 2, 4])
            if tname == "68000" and gap % 2:
                gap += 1
            lid = 1000 + len(labels)
            if rng.random() < 0.6:
                plan.append(("ref", rid[0], spec, "+", False))
                refs.append((rid[0], spec, lid, cur()))
                rid[0] += 1
                put_fill(gap)
                plan.append(("tlabel", lid, "+"))
                labels[lid] = cur()
                st["temporary-forward"] += 1
            else:
                plan.append(("tlabel", lid, "-"))
                labels[lid] = cur()
                put_fill(gap)
                plan.append(("ref", rid[0], spec, "-", True))
                refs.append((rid[0], spec, lid, cur()))
                rid[0] += 1
                st["temporary-backward"] += 1
        elif r < 0.80 and len(ctx) < 2:
            pid = len(phases)
            if even:
                if not paddrs:
                    continue
                a = paddrs.pop()
            else:
                a = rng.choice(paddrs)
            if rng.random() < 0.3:
                a += rng.randrange(0, 16) * (2 if even else 1)
            phases[pid] = a
            plan.append(("phase", pid, a))
            ctx.append(pid)
            st["phase-statements"] += 1
        elif r < 0.86 and ctx:
            plan.append(("dephase",))
            ctx.pop()
        else:
            k = rng.choice([1, 2, 4, 30, 60, 100, 118, 120, 122, 124, 126, 127, 128, 129, 130, 250, 255, 256])
            if tname == "68000p":
                k = rng.choice([1, 1, 3, 5, k, k | 1])
            put_fill(k)
    for n in pending:
        put_label(n)
    while ctx:
        plan.append(("dephase",))
        ctx.pop()
    return render_plan(tname, base, plan), labels, refs, phases, st


def judge_real(out, tag, tname, text, labels, refs, phases, res, hazard_rids=None, extra_info=None, global_rids=()):
    """(C) on one program of the marker streams: termination, acceptance, resolution, extra pass"""
    base = dict(source=text, target=tname)
    if extra_info:
        base.update(extra_info)
    rc = res["rc"]
    if rc == 97 or rc == "timeout":
        out["dist"][tag + ":cap-hits"] += 1
        out["spec_fail"].append(dict(base, sig=None, why="pass loop does not terminate within %d passes" % PASS_CAP))
        return False
    if rc != 0:
        out["spec_fail"].append(dict(base, sig=None, why="asl rejected a valid program: rc=%s %s" % (rc, res["msg"])))
        return False
    bad, bad_ids, decoded, lab_val, diffs = check_resolution(res["img"], tname, labels, refs, phases)
    out["dist"][tag + ":references-decoded"] += decoded
    out["dist"][tag + ":labels-located"] += len(lab_val)
    out["dist"][tag + ":passes=%s" % res["passes"]] += 1
    known = False
    if bad:
        # the manual's documented accident: only when the SPEC marks every wrong reference as one and no second pass happened
        known = hazard_rids is not None and len(hazard_rids) > 0 and all(i in hazard_rids for i in bad_ids) and res["passes"] == 1
        # GLOBAL's composed copy of a label that a padding byte moved: only references through the composed name, off by the one padding byte
        glob = (not known) and XT[tname]["word"] and all(i in global_rids and diffs.get(i) == -1 for i in bad_ids)
        out["spec_fail"].append(dict(base, sig=SIG_SHADOW if known else SIG_GLOBPAD if glob else None, why="; ".join(bad[:4])))
    if res["extra"]:
        # the same accident shows as a result that one further pass changes
        out["spec_fail"].append(dict(base, sig=SIG_SHADOW if known else None, why=res["extra"]))
    return not bad and not res["extra"]


def part_phase_real(args, bdir, wd, n, out):
    rng = common.rng_for(args.seed, "C01X/PC")
    gen = []
    for i in range(n):
        tname = XNAMES[i % len(XNAMES)]
        gen.append((i, tname) + gen_real_phase(rng, tname))
    with ThreadPoolExecutor(max_workers=4) as ex:
        ress = list(ex.map(lambda g: assemble_twice(bdir, wd, "xc%d" % g[0], g[2], flags=FLAG_SETS[g[0] % len(FLAG_SETS)]), gen))
    for (i, tname, text, labels, refs, phases, st), res in zip(gen, ress):
        out["distinct"].add(text)
        out["evaluations"] += 1
        out["dist"]["PC:target/" + tname] += 1
        for k, v in st.items():
            out["dist"]["PC:" + k] += v
        ok = judge_real(out, "PC", tname, text, labels, refs, phases, res, extra_info=dict(flags=" ".join(FLAG_SETS[i % len(FLAG_SETS)])))
        if ok and len(out["samples"]) < 4 and phases and len(refs) > 4:
            out["samples"].append(dict(kind="phase-real/" + tname, source=text[:700], passes=res["passes"]))


# ---------------------------------------------------------------- (NS) near groups, systematically
def near_snippets(tname):
    """one snippet per instruction form x gap x direction x phase variant:
    [(descr, plan, labels, refs, phases)] with identities that are unique over the whole list"""
    t = XT[tname]
    even = tname in ("68000", "68000p")
    specs = []
    for s in t["near"] + t["far"]:
        if s[0] == "b68" and s[1] is None:
            specs += [("b68", "bne", 0x66), ("b68", "ble", 0x6F)]
        else:
            specs.append(s)
    if tname == "68000p":
        variants = [("plain", None), ("phase", 0x8000), ("phase-far", 0x9000)]
    elif even:
        variants = [("plain", None), ("phase", 0x4000), ("phase-low", 0x10)]
    else:
        variants = [("plain", None), ("phase", 0x4000), ("phase-zp", 0x40)]
    gaps = [0, 2, 4] if even else [0, 1, 2, 3]
    out = []
    for spec in specs:
        for gap in gaps:
            for direction in ("fwd", "bwd"):
                if direction == "bwd" and gap != gaps[0]:
                    continue
                for (vn, pa) in variants:
                    i = len(out)
                    name = "near%d" % i
                    ctx = i if pa is not None else None
                    plan = []
                    if pa is not None:
                        plan.append(("phase", i, pa))
                    if direction == "fwd":
                        plan.append(("ref", 2 * i, spec, name, False))
                        if gap:
                            plan.append(("fill", gap))
                        plan.append(("label", i, name))
                    else:
                        plan.append(("label", i, name))
                        plan.append(("ref", 2 * i, spec, name, True))
                    # a second reference from a little further away, to the same label
                    plan.append(("ref", 2 * i + 1, t["far"][0], name, True))
                    if pa is not None:
                        plan.append(("dephase",))
                    out.append(("%s %s gap=%d %s" % (spec[1], direction, gap, vn), plan, {i: ctx},
                                [(2 * i, spec, i, ctx), (2 * i + 1, t["far"][0], i, ctx)], {i: pa} if pa is not None else {}))
    return out


def part_near_sweep(args, bdir, wd, out):
    for tname in XNAMES:
        base = 0x7F00 if tname == "68000p" else 0x1000
        snips = near_snippets(tname)
        plan, labels, refs, phases = [], {}, [], {}
        for i, (descr, pl, lb, rf, ph) in enumerate(snips):
            plan.append(("raw", "\torg %d" % (base + 0x40 * i)))
            plan += pl
            labels.update(lb)
            refs += rf
            phases.update(ph)
        text = render_plan(tname, base, plan)
        res = assemble_twice(bdir, wd, "xn_" + tname, text)
        out["evaluations"] += len(snips)
        out["distinct"].add(text)
        out["dist"]["NS:snippets/" + tname] += len(snips)
        probe = dict(spec_fail=[], dist=Counter())
        if judge_real(probe, "NS", tname, text, labels, refs, phases, res):
            for k, v in probe["dist"].items():
                out["dist"][k] += v
            continue
        # something is wrong in the combined source: every snippet on its own, so that the failing input is small
        found = 0
        for i, (descr, pl, lb, rf, ph) in enumerate(snips):
            text1 = render_plan(tname, base + 0x40 * i, pl)
            res1 = assemble_twice(bdir, wd, "xn1", text1)
            if not judge_real(out, "NS", tname, text1, lb, rf, ph, res1, extra_info=dict(snippet=descr)):
                found += 1
        if not found:
            out["spec_fail"] += probe["spec_fail"]


# ---------------------------------------------------------------- (SB)/(SA) sections
SYMS = ["sya", "syb", "syc", "syd"]
SECS = ["seca", "secb", "secc"]


class SecGen:
    """section tree with labels (identities), uses and declarations; the generator's own bookkeeping only steers the
    generation (what is visible, what would become the documented accident) - the judgement is the Lean SPEC's"""

    def __init__(self, rng, mode, allow_hazard):
        self.rng = rng
        self.mode = mode                    # "single": no ordinary forward reference; "multi": any
        self.allow_hazard = allow_hazard
        self.items = []                     # ('S', name) ('E',) ('L', name, id) ('U', ref text, rid) ('F'|'P'|'G', name, sect) ('fill', k)
        self.defs = {}                      # (path, name) -> id
        self.reserved = set()               # (home, name) promised by an open declaration
        self.uses = []                      # (path, name, bound path | None | 'exact')
        self.nid = 0
        self.nrid = 0
        self.st = Counter()

    def visible(self, path, name):
        for k in range(len(path), -1, -1):
            if (path[:k], name) in self.defs:
                return path[:k]
        return None

    def would_shadow(self, home, name):
        """a definition of `name` at `home` comes after a use below `home` that was bound further out"""
        for (p, n, b) in self.uses:
            if n == name and p[:len(home)] == home and b is not None and b != "exact" and len(b) < len(home):
                return True
        return False

    def define(self, path, pend, name, forced=False):
        d = pend.get(name)
        home = path
        extra = None
        if d:
            if d[0] == "P":
                home = d[1]
            elif d[0] == "G":
                extra = (d[1], "_".join(list(path[len(d[1]):]) + [name]))
        elif (path, name) in self.reserved:
            return False
        if (home, name) in self.defs or (not d and (home, name) in self.reserved):
            return False
        if extra and extra in self.defs:
            return False
        sh = self.would_shadow(home, name) or (extra is not None and self.would_shadow(extra[0], extra[1]))
        if sh and not (self.allow_hazard or forced):
            return False
        if sh:
            self.st["hazard-definitions"] += 1
        lid = self.nid
        self.nid += 1
        self.defs[(home, name)] = lid
        if extra:
            self.defs[extra] = lid
        if d:
            self.reserved.discard((home, name))
            if extra:
                self.reserved.discard(extra)
            del pend[name]
            self.st["declared-definitions/" + d[0]] += 1
        self.items.append(("L", name, lid))
        self.st["labels"] += 1
        return True

    def qual_text(self, path, home):
        k = len(path) - len(home)
        forms = []
        if not home:
            forms.append("")
        forms.append("PARENT%d" % k)
        if k == 1:
            forms.append("PARENT")
        if home and [i for i in range(len(path)) if path[i] == home[-1]][-1] == len(home) - 1:
            forms.append(home[-1])
        return self.rng.choice(forms)

    def use(self, path, pend, stack_pends):
        rng = self.rng
        cands = list(SYMS)
        # composed names of GLOBAL exports are ordinary names of their target scope
        cands += [n for (h, n) in self.defs if n not in SYMS and h == path[:len(h)]]
        rng.shuffle(cands)
        for name in cands:
            vis = self.visible(path, name)
            d = pend.get(name)
            outer_pending = any(name in sp for sp in stack_pends)
            if d and d[0] == "F":
                # announced local and not yet defined: the class "use before the section's own definition"
                self.items.append(("U", name, self.nrid))
                self.uses.append((path, name, "exact"))
                self.nrid += 1
                self.st["uses-of-FORWARD-name-before-definition" + ("/outer-same-name-exists" if vis is not None else "")] += 1
                return True
            if d:   # PUBLIC/GLOBAL pending
                if vis is None and self.mode == "multi":
                    self.items.append(("U", name, self.nrid))
                    self.uses.append((path, name, None))
                    self.nrid += 1
                    self.st["uses-of-PUBLIC/GLOBAL-name-before-definition"] += 1
                    return True
                if vis is not None and self.allow_hazard:
                    self.items.append(("U", name, self.nrid))
                    self.uses.append((path, name, vis))
                    self.nrid += 1
                    self.st["hazard-uses"] += 1
                    return True
                continue
            if outer_pending and not self.allow_hazard:
                continue
            if vis is None:
                if self.mode != "multi":
                    continue
                self.items.append(("U", name, self.nrid))
                self.uses.append((path, name, None))
                self.nrid += 1
                self.st["uses-forward"] += 1
                return True
            if rng.random() < 0.2:
                self.items.append(("U", "%s[%s]" % (name, self.qual_text(path, vis)), self.nrid))
                self.uses.append((path, name, "exact"))
                self.st["uses-qualified"] += 1
            else:
                self.items.append(("U", name, self.nrid))
                self.uses.append((path, name, vis))
                self.st["uses-backward" + ("/same-name-on-several-levels" if sum(1 for (h, n) in self.defs if n == name and h == path[:len(h)]) > 1 else "")] += 1
            self.nrid += 1
            return True
        return False

    def declare(self, path, pend):
        rng = self.rng
        name = rng.choice(SYMS)
        if name in pend or (path, name) in self.defs or (path, name) in self.reserved:
            return False
        kind = rng.choice(["F", "F", "F", "P", "G"])
        if kind == "F":
            if self.would_shadow(path, name) and not self.allow_hazard:
                return False
            pend[name] = ("F", path)
            self.reserved.add((path, name))
            self.items.append(("F", name, None))
        else:
            lvl = rng.randrange(0, len(path))
            tgt = path[:lvl]
            sect = None if (lvl == 0 and rng.random() < 0.6) else (self.qual_text(path, tgt) or None)
            if kind == "P":
                if (tgt, name) in self.defs or (tgt, name) in self.reserved:
                    return False
                if self.would_shadow(tgt, name) and not self.allow_hazard:
                    return False
                pend[name] = ("P", tgt)
                self.reserved.add((tgt, name))
            else:
                comb = "_".join(list(path[lvl:]) + [name])
                if (tgt, comb) in self.defs or (tgt, comb) in self.reserved:
                    return False
                if self.would_shadow(path, name) and not self.allow_hazard:
                    return False
                pend[name] = ("G", tgt)
                self.reserved.add((path, name))
                self.reserved.add((tgt, comb))
            self.items.append((kind, name, sect))
        self.st["declarations/" + kind] += 1
        return True

    def body(self, path, depth, stack_pends):
        rng = self.rng
        pend = {}
        used_secs = set()
        for _ in range(rng.randrange(2, 9) if path else rng.randrange(4, 12)):
            r = rng.random()
            if r < 0.24:
                self.define(path, pend, rng.choice(list(pend) if pend and rng.random() < 0.5 else SYMS))
            elif r < 0.56:
                self.use(path, pend, stack_pends)
            elif r < 0.72 and path:
                self.declare(path, pend)
            elif r < 0.90 and depth < 3:
                sn = rng.choice(SECS)
                if sn in used_secs:
                    continue
                used_secs.add(sn)
                self.items.append(("S", sn))
                self.st["sections"] += 1
                self.st["max-depth"] = max(self.st["max-depth"], depth + 1)
                self.body(path + (sn,), depth + 1, stack_pends + [pend])
                self.items.append(("E",))
            else:
                self.items.append(("fill", rng.choice([1, 2, 4, 100, 126, 128, 130, 250, 256])))
        for name in list(pend):
            if not self.define(path, pend, name, forced=True):
                # cannot be honoured (name taken meanwhile): the spec will say what that means
                self.st["unresolved-declarations"] += 1
        return pend

    def program(self):
        self.body((), 0, [])
        # ordinary forward references that never found a definition get a global one at the end
        for (p, n, b) in list(self.uses):
            if b is None and self.visible(p, n) is None and ((), n) not in self.defs and ((), n) not in self.reserved:
                lid = self.nid
                self.nid += 1
                self.defs[((), n)] = lid
                self.items.append(("L", n, lid))
        return self.items


def shape_program(depth, kind, outer, before, force, qualified=False):
    """the systematic shapes: a section nest of the given depth whose innermost section defines `sya`;
    kind: None (no declaration) | 'F' | 'P' | 'G'; outer: a global `sya` exists; before: `sya` is used before the
    inner definition; force: an unrelated forward reference forces a second pass"""
    items = []
    lid = 0
    if outer:
        items.append(("L", "sya", lid))
        lid += 1
    names = SECS[:depth]
    for n in names:
        items.append(("S", n))
    if kind == "F":
        items.append(("F", "sya", None))
    elif kind == "P":
        # exported one level up (to the enclosing section; for depth 1 that would collide with the global one)
        items.append(("P", "sya", "PARENT1"))
    elif kind == "G":
        items.append(("G", "sya", "PARENT1"))
    rid = 0
    if before:
        items.append(("U", "sya", rid))
        rid += 1
        if qualified:
            items.append(("U", "sya[PARENT0]", rid))
            rid += 1
    items.append(("fill", 2))
    items.append(("L", "sya", lid))
    lid += 1
    items.append(("U", "sya", rid))
    rid += 1
    for i, n in enumerate(reversed(names)):
        items.append(("E",))
        if outer or (kind == "P" and i == 0):
            items.append(("U", "sya", rid))
            rid += 1
        if i == 0 and kind == "G":
            items.append(("U", "%s_sya" % names[-1], rid))      # the composed name lives in the target scope
            rid += 1
    if force:
        items.append(("U", "later", rid))
        rid += 1
        items.append(("L", "later", lid))
    return items


def sec_tokens(items):
    out = []
    for it in items:
        if it[0] == "S":
            out.append("S:" + it[1])
        elif it[0] == "E":
            out.append("E")
        elif it[0] == "L":
            out.append("L:%s:%d" % (it[1], it[2]))
        elif it[0] == "U":
            out.append("U:" + it[1])
        elif it[0] in "FPG":
            out.append("%s:%s%s" % (it[0], it[1], "=" + it[2] if it[2] is not None else ""))
    return out


def sec_plan(rng, tname, items):
    """section items -> plan of the marker streams; -> (plan, refs without targets [(rid, spec)])"""
    t = XT[tname]
    plan, specs = [], {}
    open_secs = []
    for it in items:
        if it[0] == "S":
            plan.append(("raw", "\tsection %s" % it[1]))
            open_secs.append(it[1])
        elif it[0] == "E":
            plan.append(("raw", "\tendsection" + (" " + open_secs[-1] if rng.random() < 0.3 else "")))
            open_secs.pop()
        elif it[0] == "L":
            plan.append(("label", it[2], it[1]))
        elif it[0] == "U":
            spec = pick_spec(rng, rng.choice(t["far"]))
            if "[" in it[1]:
                # name[section]: as a data item (instruction parsers of some targets read brackets as an addressing mode)
                spec = [x for x in t["far"] if x[0] in ("dw", "dl")][0]
            specs[it[2]] = spec
            plan.append(("ref", it[2], spec, it[1], True))
        elif it[0] in "FPG":
            word = {"F": "forward", "P": "public", "G": "global"}[it[0]]
            plan.append(("raw", "\t%s %s%s" % (word, it[1], ":" + it[2] if it[2] is not None else "")))
        elif it[0] == "fill":
            k = it[1]
            if tname == "68000" and k % 2:
                k += 1
            plan.append(("fill", k))
    return plan, specs


def c13_stmts(items):
    out = []
    for it in items:
        if it[0] == "S":
            out.append(("S", it[1]))
        elif it[0] == "E":
            out.append(("E", None))
        elif it[0] == "L":
            out.append(("L", it[1]))
        elif it[0] == "U":
            out.append(("U", it[1]))
        elif it[0] in "FPG":
            out.append((it[0], [(it[1], it[2])]))
    return out


def part_sections(args, bdir, wd, n_rand, n_model, out):
    rng = common.rng_for(args.seed, "C01X/S")
    progs = []      # (tag, items, hazard flag)
    for depth in (1, 2, 3):
        for kind in (None, "F", "P", "G"):
            for outer in (False, True):
                for before in (False, True):
                    for force in (False, True):
                        if kind == "P" and depth == 1 and outer:
                            continue        # PUBLIC to the global level next to a global symbol of that name: double definition
                        if args.tier == "quick" and ((force and not before) or (depth == 3 and kind != "F")):
                            continue
                        progs.append(("shape:d%d:%s:outer%d:before%d:force%d" % (depth, kind, outer, before, force),
                                      shape_program(depth, kind, outer, before, force, qualified=(depth == 2)), kind is None or kind in "PG"))
    # GLOBAL export of a label that a padding byte moves (witness of known finding global-copy-of-padded-label on the
    # padding target; the same source must resolve on every other target), and its PUBLIC counterpart
    for kind in ("G", "P"):
        for tn in ("68000p", "68000", "6502"):
            items = [("S", "seca"), (kind, "syb", None), ("fill", 1), ("L", "syb", 0), ("U", "syb", 0), ("E",),
                     ("U", "seca_syb" if kind == "G" else "syb", 1)]
            progs.append(("shape:%s-export-behind-odd-filler" % kind, items, False, tn))
    for i in range(n_rand):
        mode = "single" if i % 3 != 2 else "multi"
        hz = (i % 16 == 5)
        g = SecGen(rng, mode, hz)
        items = g.program()
        if sum(1 for it in items if it[0] == "U") == 0:
            continue
        progs.append(("rand:%s%s:%d" % (mode, ":hazard" if hz else "", i), items, hz))
        for k, v in g.st.items():
            if k == "max-depth":
                out["dist"]["S:generator/max-depth"] = max(out["dist"]["S:generator/max-depth"], v)
            else:
                out["dist"]["S:generator/" + k] += v
    # SPEC: the binding of every reference
    reqs = ["S " + " ".join(sec_tokens(p[1])) for p in progs]
    try:
        answers = common.driver("c01x", reqs, timeout=1800)
    except RuntimeError as ex:
        out["problems"].append(str(ex))
        return
    if len(answers) != len(reqs):
        out["problems"].append("driver c01x answered %d of %d section requests" % (len(answers), len(reqs)))
        return
    judged = []
    for pr, rq, ans in zip(progs, reqs, answers):
        tag, items, hz = pr[:3]
        forced = pr[3] if len(pr) > 3 else None
        kv = dict(x.split("=", 1) for x in ans.split() if "=" in x)
        v = kv.get("verdict")
        out["dist"]["S:spec-verdict/%s" % v] += 1
        if v is None:
            out["problems"].append("driver rejected a c01x request: %r / %s" % (ans, rq[:200]))
            continue
        judged.append((tag, items, (hz, forced), rq, kv))
    # (SB) marker streams on the real targets
    rendered = []
    for idx, (tag, items, hz, rq, kv) in enumerate(judged):
        tname = hz[1] or XNAMES[(idx + args.seed) % len(XNAMES)]
        plan, specs = sec_plan(rng, tname, items)
        base = rng.choice([0x7E00, 0x7F80, 0x7FF0]) if tname == "68000p" else rng.choice([0, 0x40, 0xE0, 0x100, 0x1000])
        phases = {}
        if rng.random() < 0.25:
            # the whole section tree inside a PHASE block
            key = "68000p" if tname == "68000p" else "68000" if tname == "68000" else "byte"
            phases = {0: rng.choice(PHASE_ADDRS[key])}
            plan = [("phase", 0, phases[0])] + plan + [("dephase",)]
        flags = FLAG_SETS[(idx // len(XNAMES)) % len(FLAG_SETS)]
        rendered.append((idx, tname, specs, render_plan(tname, base, plan), phases, flags))
    with ThreadPoolExecutor(max_workers=4) as ex:
        ress = list(ex.map(lambda r: assemble_twice(bdir, wd, "xs%d" % r[0], r[3], flags=r[5]), rendered))
    for (tag, items, hz, rq, kv), (idx, tname, specs, text, phases, flags), res in zip(judged, rendered, ress):
        ctx = 0 if phases else None
        out["distinct"].add(text)
        out["evaluations"] += 1
        out["dist"]["SB:target/" + tname] += 1
        out["dist"]["SB:inside-PHASE"] += 1 if phases else 0
        out["dist"]["SB:flags/" + (" ".join(flags) or "none")] += 1
        info = dict(tag=tag, flags=" ".join(flags), spec_request=rq, spec_answer=" ".join("%s=%s" % kvp for kvp in kv.items())[:400])
        if kv["verdict"] == "reject":
            if res["rc"] == 0:
                out["spec_fail"].append(dict(info, sig=None, source=text, why="asl accepted a program the manual rejects: " + kv.get("why", "")))
            continue
        if kv["verdict"] != "accept":
            continue
        words = [int(x) for x in kv["words"].split(",")] if kv["words"] != "-" else []
        hazard = set(int(x) for x in kv["hazard"].split(",")) if kv["hazard"] != "-" else set()
        uses = [it for it in items if it[0] == "U"]
        if len(words) != len(uses):
            out["problems"].append("c01x S: %d bindings for %d references (%s)" % (len(words), len(uses), tag))
            continue
        labels = {it[2]: ctx for it in items if it[0] == "L"}
        refs = [(u[2], specs[u[2]], w, ctx) for u, w in zip(uses, words)]
        hazard_rids = set(uses[i][2] for i in hazard if i < len(uses))
        out["dist"]["SB:references-the-spec-marks-as-documented-accident"] += len(hazard_rids)
        global_rids = set(u[2] for u in uses if "_" in u[1])        # composed names `section_symbol` only come from GLOBAL
        ok = judge_real(out, "SB", tname, text, labels, refs, phases, res, hazard_rids=hazard_rids, extra_info=info, global_rids=global_rids)
        if ok and len(out["samples"]) < 6 and tag.startswith("rand") and len(refs) > 5 and "F:" in rq:
            out["samples"].append(dict(kind="sections/" + tname, tag=tag, source=text[:900], bindings=kv["words"], passes=res["passes"]))
    # (SA) MODEL Sym.assemble and SPEC Scope.judge through driver mode c13
    from . import c13 as c13m
    cases = []
    for (tag, items, hz, rq, kv) in judged[:n_model]:
        cases.append(dict(tag=tag, cs=False, cpu="6502" if len(cases) % 2 == 0 else "z80", stmts=c13_stmts(items), stats=None, hazard=kv.get("hazard", "-") != "-"))
    if cases:
        try:
            reals, obss, answers = c13m.run_cases(bdir, wd, cases)
        except RuntimeError as ex:
            out["problems"].append(str(ex))
            return
        for c, (st, errs, pb, src, line0), obs, ans in zip(cases, reals, obss, answers):
            k = c13m.kv(ans)
            out["evaluations"] += 1
            if not k:
                out["problems"].append("driver c13 rejected a request: %s (%s)" % (c["tag"], ans[:80]))
                continue
            out["dist"]["SA:model-passes=%s" % k.get("mpasses")] += 1
            out["dist"]["SA:spec=%s" % k.get("spec")] += 1
            base = dict(tag=c["tag"], source=src, request=c13m.request(c, obs), driver={a: b for a, b in k.items() if a != "exp"})
            if k.get("spec") == "bad":
                known = k.get("model") == "eq" and k.get("why") == "bytes" and k.get("onlyshadow") == "1" and c["hazard"]
                out["spec_fail"].append(dict(base, sig=SIG_SHADOW if known else None,
                                             why="the manual's resolution (Spec/Scope.judge) does not hold on the real asl: %s" % k.get("why")))
            elif k.get("model") != "eq":
                out["corr_fail"].append(dict(base, why="real asl differs from Model/Sym.assemble (status / bytes / diagnostics)",
                                             correspondence="asl == Model.Sym.assemble on section programs"))


# ---------------------------------------------------------------- entry
def run_part(args, bdir, wd):
    """returns dict(spec_fail, corr_fail, evaluations, distinct, dist, samples, problems)"""
    quick = args.tier == "quick"
    out = dict(spec_fail=[], corr_fail=[], evaluations=0, distinct=set(), dist=Counter(), samples=[], problems=[])
    part_near_sweep(args, bdir, wd, out)
    part_phase_abstract(args, bdir, wd, 210 if quick else 2500, out)
    part_phase_real(args, bdir, wd, 168 if quick else 2100, out)
    part_sections(args, bdir, wd, 140 if quick else 2000, 140 if quick else 1500, out)
    out["dist"] = dict(sorted(out["dist"].items()))
    return out
