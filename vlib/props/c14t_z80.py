"""C14 target plug-in: Zilog Z80 (codez80.c, `cpu z80`).

Operands are passed to the Lean driver as pairs `<kind> <value>` (see lean/Driver/C14_Z80.lean); the operand TEXT
(register names, `(IX+d)` syntax, number spelling, letter case) is produced here.

The generator takes the SPEC's instruction tables (driver mode `c14forms`: one token per table line, operand classes
joined by '.') and enumerates
 * every table line x every member of its register classes x operand values at 0, the field limits, limits +-1/+-2,
   random interior and far outside (8-bit fields exhaustively in the thorough tier),
 * every mnemonic with 0 and 1 operands of every operand shape, and operand pairs: around every legal instance one
   operand replaced by every other shape (quick) / the full cross product of shapes (thorough),
 * JR/DJNZ at program counters around 0, 0x80, page and segment ends with every distance around both limits.
"""
from .c14 import Case, limits, num_intel

GENERATED = ["Isa_Z80"]

SIGS = {
    "SubHLAbs": "z80-sub-hl-abs-assembled-as-z380-form",
    "SubSPImm": "z80-sub-sp-imm-assembled-as-z380-form",
    "InIndHL": "z80-in-ind-hl-assembled-as-undocumented-ed70",
    "OutIndHL": "z80-out-ind-hl-assembled-as-undocumented-ed71",
}

R8 = ["B", "C", "D", "E", "H", "L", "(HL)", "A"]
R16 = ["BC", "DE", "HL", "SP"]
CC = ["NZ", "Z", "NC", "PO", "PE", "P", "M", "NV", "V", "NS", "S"]

# operand shapes without a numeric value: (kind, value)
CLOSED = [(0, r) for r in range(8)] + [(1, r) for r in range(4)] + [(2, 0), (2, 1), (3, 0), (3, 1), (6, 0), (6, 1), (7, 0),
          (10, 0), (11, 0), (12, 0), (13, 0), (14, 0)] + [(15, c) for c in range(11)]


def randcase(rng, t):
    k = rng.random()
    return t.lower() if k < 0.35 else t


def optext(rng, kind, v):
    N = num_intel
    if kind == 0:
        return randcase(rng, R8[v])
    if kind == 1:
        return randcase(rng, R16[v])
    if kind == 2:
        return randcase(rng, ["IX", "IY"][v])
    if kind == 3:
        return randcase(rng, ["(BC)", "(DE)"][v])
    if kind in (4, 5):
        reg = randcase(rng, ["IX", "IY"][kind - 4])
        if v < 0:
            return "(%s-%s)" % (reg, N(rng, -v))
        return "(%s+%s)" % (reg, N(rng, v))
    if kind == 6:
        return randcase(rng, ["(IX)", "(IY)"][v])
    if kind == 7:
        return randcase(rng, "(SP)")
    if kind == 8:
        return "(%s)" % N(rng, v)
    if kind == 9:
        return N(rng, v)
    if kind == 10:
        return randcase(rng, "I")
    if kind == 11:
        return randcase(rng, "R")
    if kind == 12:
        return randcase(rng, "AF")
    if kind == 13:
        return randcase(rng, "AF'")
    if kind == 14:
        return randcase(rng, "(C)")
    if kind == 15:
        return randcase(rng, CC[v])
    raise AssertionError(kind)


class T:
    name = "z80"
    cpus = [("Z80", 0)]
    sentinel = 0xF000
    gran = 1
    sample_tags = ("form", "jr", "djnz", "finding")

    @staticmethod
    def header(cpuname):
        return ["\tcpu %s" % cpuname]

    @staticmethod
    def org(a):
        return "\torg %d" % a

    @staticmethod
    def sent(k):
        return "\tdb %d" % (k % 100 + 1)

    @staticmethod
    def sent_bytes(k):
        return bytes([k % 100 + 1])

    @classmethod
    def cases(cls, rng, tier, forms):
        quick = tier == "quick"
        out = []
        pcs_plain = [0, 0x100, 0x1234, 0xefe0]

        def add(pc, mn, ops, tag):
            args = []
            for k, v in ops:
                args += [k, v]
            text = ",".join(optext(rng, k, v) for k, v in ops)
            out.append(Case("z80", 0, pc, mn, args, "\t%s %s" % (randcase(rng, mn), text), tag))

        def plain(mn, ops, tag):
            add(rng.choice(pcs_plain), mn, ops, tag)

        wide8 = (lambda: list(range(-135, 262))) if not quick else (lambda: [])
        dvals = sorted(set(limits(-128, 127, rng, 6) + ([] if quick else list(range(-135, 135)))))
        nvals = sorted(set(limits(-128, 255, rng, 8) + [127, 128, -1] + wide8()))
        nnvals = sorted(set(limits(-32768, 65535, rng, 8) + [255, 256, 32767, 32768, 65534, -1, -128, -129]))
        avals = sorted(set(limits(0, 65535, rng, 8) + [255, 256, 32767, 32768, -32768]))
        pvals = sorted(set(limits(0, 255, rng, 6) + [127, 128, -128]))

        def members(c, pc):
            """operands to try for an operand class: its members, and for value classes values in and out of range"""
            if c == "r":
                return [(0, r) for r in (0, 1, 2, 3, 4, 5, 7)]
            if c == "m":
                return [(0, 6), (6, 0), (6, 1)] + [(4, d) for d in dvals] + [(5, d) for d in dvals]
            if c == "A":
                return [(0, 7)]
            if c == "n":
                return [(9, v) for v in nvals]
            if c == "nn":
                return [(9, v) for v in nnvals]
            if c == "mnn":
                return [(8, v) for v in avals]
            if c in ("indBC", "indDE"):
                return [(3, 0 if c == "indBC" else 1)]
            if c == "I":
                return [(10, 0)]
            if c == "R":
                return [(11, 0)]
            if c == "dd":
                return [(1, r) for r in range(4)]
            if c == "qq":
                return [(1, 0), (1, 1), (1, 2), (12, 0)]
            if c == "xy":
                return [(2, 0), (2, 1)]
            if c == "ix":
                return [(2, 0)]
            if c == "iy":
                return [(2, 1)]
            if c == "HL":
                return [(1, 2)]
            if c == "SP":
                return [(1, 3)]
            if c == "DE":
                return [(1, 1)]
            if c == "AF":
                return [(12, 0)]
            if c == "AF'":
                return [(13, 0)]
            if c == "indSP":
                return [(7, 0)]
            if c == "pp":
                return [(1, 0), (1, 1), (2, 0), (1, 3)]
            if c == "rr":
                return [(1, 0), (1, 1), (2, 1), (1, 3)]
            if c == "cc":
                return [(15, k) for k in range(11)] + [(0, 1)]
            if c == "ccJR":
                return [(15, 0), (15, 1), (15, 2), (0, 1)]
            if c == "adr":
                return [(9, v) for v in avals] + [(8, v) for v in avals[::3]]
            if c == "e":
                ds = sorted(set(limits(-128, 127, rng, 4, wide=False) + [-131, -130, 130, 131]))
                ts = [pc + 2 + d for d in ds] + [0, 65535, 65536, -1, 1 << 20]
                return [(9, t) for t in ts] + [(8, pc + 2 + rng.choice(ds))]
            if c == "bit":
                return [(9, v) for v in range(-2, 11)] + [(9, 255), (9, 256), (9, -128), (8, 3), (8, 8)]
            if c == "rstv":
                return [(9, v) for v in list(range(-9, 66)) + [0x38 + 256, 128, 255, 256, -128, -200, 0x40, 0x80]] + [(8, 16), (8, 3)]
            if c == "imv":
                return [(9, v) for v in range(-2, 6)] + [(9, 255), (9, 256), (8, 1), (8, 3)]
            if c == "port":
                return [(8, v) for v in pvals] + [(9, v) for v in pvals[::2]]
            if c == "indC":
                return [(14, 0)]
            if c == "jpHL":
                return [(0, 6)]
            if c == "jpXY":
                return [(6, 0), (6, 1)]
            raise AssertionError("z80: unknown operand class %s of the spec" % c)

        def few(lst, n=3):
            return lst if len(lst) <= 9 else [lst[0], lst[-1]] + [rng.choice(lst) for _ in range(n)]

        # representatives of every operand shape (valued shapes: in range and out of range)
        shapes = list(CLOSED) + [(4, 5), (5, -3), (4, 128), (5, -129), (8, 0x1234), (8, 40), (8, -1), (8, 65536),
                                 (9, 5), (9, -5), (9, 300), (9, -300), (9, 70000), (9, -40000)]
        mns = []
        for (mn, form, mincpu) in forms:
            if mn not in mns:
                mns.append(mn)
        two_op = []   # mnemonics with at least one one- or two-operand table line
        for (mn, form, mincpu) in forms:
            classes = [] if form == "none" else form.split(".")
            if classes and mn not in two_op:
                two_op.append(mn)
            pc = rng.choice(pcs_plain)
            if "e" in classes:
                continue  # relative branches below
            if len(classes) == 0:
                plain(mn, [], "form")
            elif len(classes) == 1:
                for o in members(classes[0], pc):
                    plain(mn, [o], "form")
            else:
                m1, m2 = members(classes[0], pc), members(classes[1], pc)
                seen = set()
                for (l1, l2) in ((m1, few(m2)), (few(m1), m2)):
                    for o1 in l1:
                        for o2 in l2:
                            if (o1, o2) not in seen:
                                seen.add((o1, o2))
                                plain(mn, [o1, o2], "form")
                # around the legal instances: one operand replaced by every other shape
                for _ in range(2 if quick else 6):
                    o1, o2 = rng.choice(m1), rng.choice(m2)
                    for s in shapes:
                        plain(mn, [s, o2], "near-miss")
                        plain(mn, [o1, s], "near-miss")
        # operand counts and shapes the tables do not have
        for mn in mns:
            plain(mn, [], "argcnt")
            for s in shapes:
                plain(mn, [s], "one-operand")
            plain(mn, [rng.choice(shapes), rng.choice(shapes), rng.choice(shapes)], "argcnt")
            if mn in two_op:
                pairs = [(a, c) for a in shapes for c in shapes]
                if quick:
                    pairs = rng.sample(pairs, 150)
                for a, c in pairs:
                    plain(mn, [a, c], "pair")
            else:
                for _ in range(6):
                    plain(mn, [rng.choice(shapes), rng.choice(shapes)], "pair")
        # the four known findings and their neighbours, every run (see known_findings.json)
        for v in (0, 0x1234, 65535, 65536, -1):
            plain("SUB", [(1, 2), (8, v)], "finding")
            plain("SUB", [(1, 3), (9, v)], "finding")
            plain("SUB", [(1, 2), (9, v)], "finding")
            plain("SUB", [(1, 3), (8, v)], "finding")
            plain("ADD", [(1, 2), (8, v)], "finding")
            plain("ADD", [(1, 3), (9, v)], "finding")
        for mn in ("AND", "OR", "XOR", "CP"):
            plain(mn, [(1, 2), (8, 0x1234)], "finding")
            plain(mn, [(1, 3), (9, 0x1234)], "finding")
        for r in [(0, k) for k in range(8)] + [(4, 1), (6, 0), (9, 0), (12, 0)]:
            plain("IN", [r, (14, 0)], "finding")
            plain("OUT", [(14, 0), r], "finding")
        plain("BIT", [(9, 3), (9, 2), (0, 0)], "argcnt")
        plain("SET", [(0, 0), (9, 3), (4, 2)], "argcnt")
        # relative branches
        pcs = [0, 1, 0x7d, 0x7e, 0x7f, 0x80, 0x81, 0x100, 0x1000, 0x7ffe, 0x8000, 0xefd0, 0xff00, 0xff7d, 0xff7e, 0xff80, 0xfffd, 0xfffe]
        if quick:
            pcs = [0, 0x7e, 0x80, 0x1000, 0xff7e, 0xfffd] + rng.sample(pcs, 3)
        pcs += [rng.randrange(0, 0xef00) for _ in range(2 if quick else 12)]
        dist = list(range(-135, -120)) + list(range(-3, 4)) + list(range(120, 136))
        if not quick:
            dist = list(range(-140, 141))
        for pc in pcs:
            for d in dist + [rng.randrange(-128, 128) for _ in range(4)]:
                t = pc + 2 + d
                add(pc, "JR", [(9, t)], "jr")
                add(pc, "DJNZ", [(9, t)], "djnz")
                c = rng.choice([(15, 0), (15, 1), (15, 2), (0, 1)])
                add(pc, "JR", [c, (9, t)], "jr")
            for t in (0, 65535, 65536, -1, pc, pc + 2):
                add(pc, "JR", [(9, t)], "jr")
                add(pc, "DJNZ", [(8, t)], "djnz")
            for c in [(15, k) for k in range(11)] + [(0, 1), (0, 7), (12, 0)]:
                add(pc, "JR", [c, (9, pc + 2 + rng.randrange(-128, 128))], "jr-cond")
            for s in shapes:
                add(pc, "JR", [s], "one-operand")
                add(pc, "DJNZ", [s], "one-operand")
            if not quick or pc in (0x1000,):
                for d in range(-128, 128):
                    add(pc, "DJNZ", [(9, pc + 2 + d)], "djnz-all-distances")
        return out

    @staticmethod
    def sig(case, kv):
        """known findings: statements outside the Z80 instruction set which codez80.c assembles on CPU Z80"""
        if case.real is None or case.real.startswith("E") or case.real == "none":
            return None
        a = case.args
        if case.mn == "SUB" and len(a) == 4 and a[0:2] == [1, 2] and a[2] == 8:
            return SIGS["SubHLAbs"]
        if case.mn == "SUB" and len(a) == 4 and a[0:2] == [1, 3] and a[2] == 9:
            return SIGS["SubSPImm"]
        if case.mn == "IN" and a == [0, 6, 14, 0]:
            return SIGS["InIndHL"]
        if case.mn == "OUT" and a == [14, 0, 0, 6]:
            return SIGS["OutIndHL"]
        return None
