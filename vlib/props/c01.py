"""C01 - multipass assembly ends at a fixpoint with every reference resolved."""
import os
import re
import time

from .. import common
from . import c01_term
from . import c01_ext
from . import c01_opnd
from . import c01_assume

PASS_CAP = 40
PASSES_RE = re.compile(rb"^\s*(\d+) pass(?:es)?\s*$", re.M)


# ---------------------------------------------------------------- part B: abstract programs
def gen_abstract(rng, flavour):
    """A program in the statement language of Model/Pass.lean together with its 6502 or 68000
    rendering.  Returns (model stmts, source lines, has_padded_forward_ref)."""
    nlab = rng.randrange(1, 7)
    labs = list(range(1, nlab + 1))
    stmts, src = [], []
    placed = set()
    pending = labs[:]
    rng.shuffle(pending)
    nitems = rng.randrange(3, 30)
    padded_forward = False
    referenced_before_def = set()
    if flavour == "6502":
        src.append("\tcpu 6502")
        for _ in range(nitems):
            r = rng.random()
            if r < 0.30 and pending:
                n = pending.pop()
                stmts.append("L%d" % n)
                src.append("lab%d:" % n)
                placed.add(n)
            elif r < 0.55:
                n = rng.choice(labs)
                stmts.append("R%d:zp" % n)
                src.append("\tlda lab%d" % n)
            elif r < 0.70:
                n = rng.choice(labs)
                stmts.append("R%d:w2" % n)
                src.append("\tadr lab%d" % n)
            else:
                k = rng.choice([1, 2, 3, 5, 100, 120, 126, 127, 128, 129, 130, 200, 250, 251, 252, 253, 254, 255, 256])
                while k > 0:
                    c = min(k, 100)
                    stmts.append("S%d" % c)
                    src.append("\tbyt " + ",".join(str(rng.randrange(256)) for _ in range(c)))
                    k -= c
        for n in pending:
            stmts.append("L%d" % n)
            src.append("lab%d:" % n)
    else:  # 68000 with padding
        src.append("\tcpu 68000")
        for _ in range(nitems):
            r = rng.random()
            if r < 0.30 and pending:
                n = pending.pop()
                if rng.random() < 0.6:
                    stmts += ["P%d" % n, "S2"]
                    src.append("lab%d:\tnop" % n)
                    if n in referenced_before_def:
                        padded_forward = True
                else:
                    stmts.append("L%d" % n)
                    src.append("lab%d:" % n)
                placed.add(n)
            elif r < 0.55:
                n = rng.choice(labs)
                stmts += ["A", "R%d:l4" % n]
                src.append("\tdc.l lab%d" % n)
                if n not in placed:
                    referenced_before_def.add(n)
            elif r < 0.65:
                n = rng.choice(labs)
                stmts += ["A", "R%d:w2" % n]
                src.append("\tdc.w lab%d" % n)
                if n not in placed:
                    referenced_before_def.add(n)
            elif r < 0.75:
                stmts += ["A", "S2"]
                src.append("\tnop")
            else:
                k = rng.choice([1, 1, 2, 3, 4, 5, 7])
                stmts.append("S%d" % k)
                src.append("\tdc.b " + ",".join(str(rng.randrange(256)) for _ in range(k)))
        for n in pending:
            stmts.append("L%d" % n)
            src.append("lab%d:" % n)
        # LabelModify moves the most recent label when the *next* statement inserts the padding byte
        for i in range(len(stmts) - 1):
            if stmts[i].startswith("L") and stmts[i + 1] == "A":
                stmts[i] = "P" + stmts[i][1:]
    return stmts, src, padded_forward


def image_of(pdata):
    items = common.parse_pfile_py(pdata)
    img = {}
    if items is None:
        return None
    for it in items:
        if it[0] == "D":
            _, cpu, seg, gran, start, data = it
            for i, b in enumerate(data):
                img[(seg, start * gran + i)] = b
    return img


# ---------------------------------------------------------------- part C: resolution oracle on real targets
TARGETS = {
    "6502": dict(cpu="6502", db="byt", dw=("adr", "little"), refs=["lda", "jmp", "dw"], res="dfs"),
    "6809": dict(cpu="6809", db="fcb", dw=("fdb", "big"), refs=["lda", "jmp", "dw"], res="rmb"),
    "68hc11": dict(cpu="6811", db="fcb", dw=("fdb", "big"), refs=["ldaa", "jmp3", "dw"], res="rmb"),
    "68000": dict(cpu="68000", db="dc.b", dw=("dc.w", "big"), refs=["bra", "jmp68", "dw", "dl"], res="ds.b"),
    "8086": dict(cpu="8086", db="db", dw=("dw", "little"), refs=["jmp86", "dw"], res="db"),
    # 68000 with PADDING ON: odd-length fillers, labels on word data (moved behind the padding byte),
    # placed around $8000 where JMP switches between absolute short and long
    "68000p": dict(cpu="68000", db="dc.b", dw=("dc.w", "big"), refs=["jmp68", "jmp68", "dl", "bra"], res="ds.b"),
}


def gen_real(rng, tname):
    t = TARGETS[tname]
    nlab = rng.randrange(2, 8)
    lines = ["\tcpu %s" % t["cpu"]]
    if tname == "68000":
        lines.append("\tpadding off")
    base = rng.choice([0, 0x40, 0x80, 0xe0, 0x100, 0x1000])
    if tname == "68000p":
        base = rng.choice([0x7e00, 0x7f00, 0x7f80, 0x7fc0, 0x7ff0, 0x8000 - 2 * rng.randrange(1, 200)])
    lines.append("\torg %d" % base)
    items = []  # ('label', n) / ('ref', id, kind, n) / filler
    pending = list(range(nlab))
    rng.shuffle(pending)
    rid = 0
    plan = []
    for _ in range(rng.randrange(4, 26)):
        r = rng.random()
        if r < 0.28 and pending:
            plan.append(("label", pending.pop()))
        elif r < 0.72:
            plan.append(("ref", rid, rng.choice(t["refs"]), rng.randrange(nlab)))
            rid += 1
        else:
            plan.append(("fill", rng.choice([1, 2, 4, 30, 60, 90, 100, 110, 118, 119, 120, 121, 122, 123, 124, 125, 126, 127, 128, 129, 130, 240, 250, 255, 256, 300])))
    for n in pending:
        plan.append(("label", n))
    db = t["db"]
    for it in plan:
        if it[0] == "label" and tname == "68000p":
            lines.append("lab%d:\tdc.w %d,%d" % (it[1], 0xEE00 | (it[1] >> 8), ((it[1] & 255) << 8) | 0x77))
        elif it[0] == "label":
            lines.append("lab%d:" % it[1])
            lines.append("\t%s 238,%d,%d,119" % (db, it[1] >> 8, it[1] & 255))     # EE hi lo 77
        elif it[0] == "fill":
            k = it[1]
            if tname == "68000" and k % 2:
                k += 1
            if tname == "68000p":
                k = rng.choice([1, 1, 3, 5, k, k | 1])
            while k > 0:
                c = min(k, 64)
                lines.append("\t%s %s" % (db, ",".join(str(rng.choice([1, 2, 3, 0x11, 0x22, 0x41])) for _ in range(c))))
                k -= c
        else:
            _, i, kind, n = it
            if tname == "68000p":
                lines.append("\tdc.w %d,%d" % (0xDD00 | (i >> 8), ((i & 255) << 8) | 0x66))
            else:
                lines.append("\t%s 221,%d,%d,102" % (db, i >> 8, i & 255))            # DD hi lo 66
            if kind == "dw":
                lines.append("\t%s lab%d" % (t["dw"][0], n))
            elif kind == "dl":
                lines.append("\tdc.l lab%d" % n)
            elif kind in ("lda", "ldaa"):
                lines.append("\t%s lab%d" % (kind, n))
            elif kind in ("jmp", "jmp3", "jmp68", "jmp86"):
                lines.append("\tjmp lab%d" % n)
            elif kind == "bra":
                lines.append("\tbra lab%d" % n)
            # trailing guard so that a decoder never reads past the image
            lines.append("\tdc.w 257,257" if tname == "68000p" else "\t%s 1,1,1,1" % db)
    return "\n".join(lines) + "\n", plan


SWEEP = [("68000", "bra", "dc.b", 2), ("68000", "bsr", "dc.b", 2), ("68000", "bne", "dc.b", 2), ("6809", "bra", "fcb", 1),
         ("6809", "lbra", "fcb", 1), ("8086", "jmp", "db", 1), ("6502", "bne", "byt", 1), ("6811", "bra", "fcb", 1)]


def gen_sweep(tcpu, mnem, db, step):
    """every forward and backward distance around the 8-bit displacement limits, one snippet each"""
    lines = ["\tcpu %s" % tcpu]
    if tcpu == "68000":
        lines.append("\tpadding off")
    snippets = []
    base = 0x40
    sid = 0
    fixed_short = (tcpu, mnem) in (("6809", "bra"), ("6502", "bne"), ("6811", "bra"))
    for fill in list(range(100, 140, step)) + list(range(240, 262, step)):
        for direction in ("fwd", "bwd"):
            if fixed_short and ((direction == "fwd" and fill > 127) or (direction == "bwd" and fill + 10 > 128)):
                continue        # out of reach of an 8-bit displacement: legitimately rejected, not part of this sweep
            lines.append("\torg %d" % base)
            if direction == "fwd":
                lines.append("\t%s 221,%d,%d,102" % (db, sid >> 8, sid & 255))
                lines.append("\t%s sw%d" % (mnem, sid))
                k = fill
                while k > 0:
                    c = min(k, 50)
                    lines.append("\t%s %s" % (db, ",".join(["1"] * c)))
                    k -= c
                lines.append("sw%d:" % sid)
                lines.append("\t%s 238,%d,%d,119" % (db, sid >> 8, sid & 255))
            else:
                lines.append("sw%d:" % sid)
                lines.append("\t%s 238,%d,%d,119" % (db, sid >> 8, sid & 255))
                k = fill
                while k > 0:
                    c = min(k, 50)
                    lines.append("\t%s %s" % (db, ",".join(["1"] * c)))
                    k -= c
                lines.append("\t%s 221,%d,%d,102" % (db, sid >> 8, sid & 255))
                lines.append("\t%s sw%d" % (mnem, sid))
                lines.append("\t%s 1,1,1,1" % db)
            snippets.append((sid, direction, fill))
            sid += 1
            base += 0x200
    return "\n".join(lines) + "\n", snippets


def decode_branch(img, a, tcpu, mnem):
    """target address a relative branch at a encodes, or None when the opcode form is not one of the known ones"""
    g = lambda k: img.get((1, a + k))
    def s8(x): return x - 256 if x >= 128 else x
    def s16(x): return x - 65536 if x >= 32768 else x
    if None in (g(0), g(1)):
        return None
    if tcpu == "68000":
        op = {"bra": 0x60, "bsr": 0x61, "bne": 0x66}[mnem]
        if g(0) != op:
            return None
        if g(1) not in (0, 0xFF):
            return a + 2 + s8(g(1))
        if g(1) == 0 and None not in (g(2), g(3)):
            return a + 2 + s16((g(2) << 8) | g(3))
        return None
    if tcpu in ("6809", "6811"):
        if mnem == "bra" and g(0) == 0x20:
            return a + 2 + s8(g(1))
        if mnem == "lbra" and g(0) == 0x16 and g(2) is not None:
            return (a + 3 + s16((g(1) << 8) | g(2))) & 0xFFFF
        return None
    if tcpu == "8086":
        if g(0) == 0xEB:
            return (a + 2 + s8(g(1))) & 0xFFFF
        if g(0) == 0xE9 and g(2) is not None:
            return (a + 3 + s16(g(1) | (g(2) << 8))) & 0xFFFF
        return None
    if tcpu == "6502":
        if g(0) == 0xD0:
            return a + 2 + s8(g(1))
        return None
    return None


def find_all(img_bytes, base_addrs, pat):
    """addresses where the byte pattern occurs, img given as sorted address list + dict"""
    out = []
    for a in base_addrs:
        ok = True
        for j, b in enumerate(pat):
            if img_bytes.get((1, a + j)) != b:
                ok = False
                break
        if ok:
            out.append(a)
    return out


def decode_ref(img, a, kind, endian, tname):
    """value the reference at address a encodes, or (None, why)"""
    g = lambda k: img.get((1, a + k))
    def be16(k): return (g(k) << 8) | g(k + 1) if g(k) is not None and g(k + 1) is not None else None
    def le16(k): return g(k) | (g(k + 1) << 8) if g(k) is not None and g(k + 1) is not None else None
    w = be16 if endian == "big" else le16
    if kind == "dw":
        return w(0), 16
    if kind == "dl":
        hi, lo = be16(0), be16(2)
        return (None if hi is None or lo is None else (hi << 16) | lo), 32
    if kind == "lda" and tname == "6502":
        if g(0) == 0xA5: return g(1), 16
        if g(0) == 0xAD: return le16(1), 16
    if kind == "jmp" and tname == "6502":
        if g(0) == 0x4C: return le16(1), 16
    if kind == "lda" and tname == "6809":
        if g(0) == 0x96: return g(1), 16
        if g(0) == 0xB6: return be16(1), 16
    if kind == "jmp" and tname == "6809":
        if g(0) == 0x0E: return g(1), 16
        if g(0) == 0x7E: return be16(1), 16
    if kind == "ldaa":
        if g(0) == 0x96: return g(1), 16
        if g(0) == 0xB6: return be16(1), 16
    if kind == "jmp3":
        if g(0) == 0x7E: return be16(1), 16
    if kind == "bra":
        if g(0) == 0x60 and g(1) not in (0, 0xFF):
            d = g(1) - 256 if g(1) >= 128 else g(1)
            return (a + 2 + d) & 0xFFFFFFFF, 32
        if g(0) == 0x60 and g(1) == 0:
            d = be16(2)
            d = d - 65536 if d >= 32768 else d
            return (a + 2 + d) & 0xFFFFFFFF, 32
    if kind == "jmp68":
        if g(0) == 0x4E and g(1) == 0xF8:
            v = be16(2)
            return (v - 65536 if v >= 32768 else v) & 0xFFFFFFFF, 32
        if g(0) == 0x4E and g(1) == 0xF9:
            return (be16(2) << 16) | be16(4), 32
        if g(0) == 0x4E and g(1) == 0xFA:          # PC-relative form chosen by the assembler
            d = be16(2)
            d = d - 65536 if d >= 32768 else d
            return (a + 2 + d) & 0xFFFFFFFF, 32
    if kind == "jmp86":
        if g(0) == 0xEB:
            d = g(1) - 256 if g(1) >= 128 else g(1)
            return (a + 2 + d) & 0xFFFF, 16
        if g(0) == 0xE9:
            d = le16(1)
            return (a + 3 + d) & 0xFFFF, 16
    return None, "opcode %s not understood by the mini decoder" % [g(0), g(1)]


def map_symbols(text):
    """symbol section of a MAP file: name -> value text"""
    out = {}
    m = re.search(r"^Symbols in Segment.*$", text, re.M)
    for line in text.split("\n"):
        t = line.split()
        if len(t) >= 3 and t[0].upper().startswith("LAB"):
            out[t[0]] = t[2]
    return out


def run(args):
    res = common.Result("C01", args.tier, args.seed, "proof")
    bdir, audit, proof_problems = common.standard_setup(res, "C01", ["Widths", "PassConsts"])
    if bdir is None:
        return res.finish()
    rng = common.rng_for(args.seed, "C01")
    nB = {"quick": 250, "thorough": 4000}[args.tier]
    nC = {"quick": 250, "thorough": 4000}[args.tier]
    nCorpus = {"quick": 40, "thorough": 10 ** 6}[args.tier]
    spec_fail, corr_fail, samples = [], [], []
    dist = dict(abstract_6502=0, abstract_68000=0, passes={}, real_targets={}, refs_decoded=0, labels_located=0, padded_forward=0,
                corpus_extra_pass=0, extra_pass_generated=0, cap_hits=0)
    distinct = set()
    env_cap = {"ASL_VERIF_MAX_PASSES": str(PASS_CAP)}
    inc = os.path.join(common.REPO, "include")
    with common.Workdir("c01") as wd:
        # ---- corpus: the witness of the property text first
        witness = "\tcpu 68000\n\tdc.l lab\n\tdc.b 1\nlab:\tnop\n"
        f = os.path.join(wd, "wit.asm")
        open(f, "w").write(witness)
        rc, so, se = common.run_tool(bdir, "asl", ["-q", f, "-o", os.path.join(wd, "wit.p")], wd, env=env_cap, timeout=60)
        if rc == 97 or rc == "timeout":
            spec_fail.append(dict(sig="padding-livelock", why="pass loop does not terminate (cap %d passes): a forward-referenced label behind an inserted padding byte" % PASS_CAP, source=witness))
        # ---- part B
        reqsB, metaB = [], []
        for i in range(nB):
            flavour = "6502" if i % 2 == 0 else "68000"
            stmts, src, pf = gen_abstract(rng, flavour)
            dist["abstract_" + flavour] += 1
            dist["padded_forward"] += pf
            f = os.path.join(wd, "b%d.asm" % i)
            text = "\n".join(src) + "\n"
            open(f, "w").write(text)
            pf_path = os.path.join(wd, "b%d.p" % i)
            rc, so, se = common.run_tool(bdir, "asl", [f, "-o", pf_path], wd, env=env_cap, timeout=60)
            real = dict(rc=rc, passes=None, img=None)
            m = PASSES_RE.search(so)
            if m:
                real["passes"] = int(m.group(1))
            if os.path.exists(pf_path):
                real["img"] = image_of(open(pf_path, "rb").read())
                os.unlink(pf_path)
            os.unlink(f)
            metaB.append((flavour, stmts, text, pf, real))
            distinct.add(" ".join(stmts))
        # model under both comparison variants: the one that matches tells how the code behaves
        ansB = {}
        for variant in ("1", "0"):
            ansB[variant] = common.driver("c01", ["%s %d %s" % (variant, PASS_CAP, " ".join(st)) for (_f, st, _t, _p, _r) in metaB])
        variant_mismatch = {"0": 0, "1": 0}
        per_case = []
        for idx, (flavour, stmts, text, pf, real) in enumerate(metaB):
            outcome = {}
            for variant in ("1", "0"):
                a = ansB[variant][idx]
                m = re.match(r"passes=(\S+) pc=(\d+) refs=(.*)", a)
                mism = []
                if m.group(1) == "none":
                    if real["rc"] != 97:
                        mism.append("model: no convergence within %d passes, real rc=%s passes=%s" % (PASS_CAP, real["rc"], real["passes"]))
                else:
                    if real["rc"] != 0:
                        mism.append("model converges after %s passes, real rc=%s" % (m.group(1), real["rc"]))
                    else:
                        if real["passes"] != int(m.group(1)):
                            mism.append("passes %s vs model %s" % (real["passes"], m.group(1)))
                        img = real["img"] or {}
                        ref_list = [x for x in m.group(3).split(",") if x]
                        ref_stmts = [s for s in stmts if s.startswith("R")]
                        for ri, r in enumerate(ref_list):
                            a_, sym, v = (int(y) for y in r.split(":"))
                            if flavour == "6502":
                                got = (img.get((1, a_)), img.get((1, a_ + 1)), img.get((1, a_ + 2)))
                                # the references come in statement order: a data word (`adr`, kind w2) is read as a word even if its low
                                # byte happens to be $A5 / $AD - reading it as an LDA opcode was a false alarm of the harness
                                is_word = len(ref_stmts) == len(ref_list) and ref_stmts[ri].endswith(":w2")
                                # operand bytes
                                if got[0] == 0xA5 and not is_word:
                                    val = got[1]
                                elif got[0] == 0xAD and not is_word:
                                    val = got[1] | (got[2] << 8)
                                else:
                                    val = got[0] | (got[1] << 8) if None not in got[:2] else None
                                if val != (v & 0xFFFF):
                                    mism.append("ref at %d to lab%d: image holds %s, model %d" % (a_, sym, val, v))
                            else:
                                b4 = [img.get((1, a_ + k)) for k in range(4)]
                                cands = set()
                                if None not in b4:
                                    cands.add(int.from_bytes(bytes(b4), "big"))
                                if None not in b4[:2]:
                                    cands.add(int.from_bytes(bytes(b4[:2]), "big"))
                                if (v & 0xFFFFFFFF) not in cands and (v & 0xFFFF) not in cands:
                                    mism.append("ref at %d to lab%d: image holds %s, model %d" % (a_, sym, b4, v))
                outcome[variant] = mism
                if mism:
                    variant_mismatch[variant] += 1
            per_case.append(outcome)
            if real["rc"] == 97:
                dist["cap_hits"] += 1
                spec_fail.append(dict(sig="padding-livelock" if pf else None,
                                      why="pass loop does not terminate within %d passes" % PASS_CAP, source=text, model_stmts=" ".join(stmts)))
            elif real["rc"] != 0:
                spec_fail.append(dict(sig=None, why="asl rejected a valid program: rc=%s" % real["rc"], source=text))
            k = str(real["passes"])
            dist["passes"][k] = dist["passes"].get(k, 0) + 1
        # which variant describes the code?
        code_variant = "1" if variant_mismatch["1"] <= variant_mismatch["0"] else "0"
        dist["model_variant_matching_code"] = "cmpPre=" + code_variant + " (1 = label compared before padding, the livelock form)"
        for idx, (flavour, stmts, text, pf, real) in enumerate(metaB):
            mism = per_case[idx][code_variant]
            if mism and real["rc"] != 97:
                corr_fail.append(dict(why="; ".join(mism[:4]), correspondence="asl passes/encoded references == Model.Pass.assemble (variant cmpPre=%s)" % code_variant,
                                      source=text, model_stmts=" ".join(stmts)))
            if len(samples) < 3 and real["passes"] and real["passes"] >= 3:
                samples.append(dict(kind="abstract/" + flavour, source=text[:500], model_stmts=" ".join(stmts), passes=real["passes"]))

        # ---- part C: resolution oracle on real targets + extra pass
        tnames = sorted(TARGETS)
        for i in range(nC):
            tname = tnames[i % len(tnames)]
            text, plan = gen_real(rng, tname)
            distinct.add(text)
            dist["real_targets"][tname] = dist["real_targets"].get(tname, 0) + 1
            f = os.path.join(wd, "c%d.asm" % i)
            open(f, "w").write(text)
            p1 = os.path.join(wd, "c%d.p" % i)
            rc, so, se = common.run_tool(bdir, "asl", ["-q", "-g", "MAP", f, "-o", p1], wd, env=env_cap, timeout=60)
            if rc == 97:
                dist["cap_hits"] += 1
                spec_fail.append(dict(sig=None, why="pass loop does not terminate within %d passes" % PASS_CAP, source=text))
                continue
            if rc != 0:
                # a branch out of range is a legitimate rejection for bra.s-only targets; none here
                spec_fail.append(dict(sig=None, why="asl rejected a valid program: rc=%s %s" % (rc, (so + se)[-300:].decode(errors="replace")), source=text))
                continue
            d1 = open(p1, "rb").read()
            mp1 = open(os.path.join(wd, "c%d.map" % i)).read() if os.path.exists(os.path.join(wd, "c%d.map" % i)) else ""
            img = image_of(d1)
            addrs = sorted(a for (s, a) in img if s == 1)
            bad = []
            lab_addr = {}
            for it in plan:
                if it[0] == "label":
                    hits = find_all(img, addrs, [238, it[1] >> 8, it[1] & 255, 119])
                    if len(hits) == 1:
                        lab_addr[it[1]] = hits[0]
                        dist["labels_located"] += 1
            t = TARGETS[tname]
            for it in plan:
                if it[0] != "ref":
                    continue
                _, rid, kind, n = it
                hits = find_all(img, addrs, [221, rid >> 8, rid & 255, 102])
                if len(hits) != 1 or n not in lab_addr:
                    continue
                val, bits = decode_ref(img, hits[0] + 4, kind, t["dw"][1], tname)
                if val is None:
                    bad.append("reference %d (%s lab%d) at %d: %s" % (rid, kind, n, hits[0] + 4, bits))
                    continue
                dist["refs_decoded"] += 1
                want = lab_addr[n] & ((1 << bits) - 1)
                if val != want:
                    bad.append("reference %d (%s lab%d) encodes %d, the label is at %d" % (rid, kind, n, val, lab_addr[n]))
            if bad:
                spec_fail.append(dict(sig=None, why="; ".join(bad[:4]), source=text))
            # extra pass
            p2 = os.path.join(wd, "c%dx.p" % i)
            env2 = dict(env_cap, ASL_VERIF_EXTRA_PASSES="1")
            f2 = os.path.join(wd, "c%dx.asm" % i)
            open(f2, "w").write(text)
            rc2, so2, se2 = common.run_tool(bdir, "asl", ["-q", "-g", "MAP", f2, "-o", p2], wd, env=env2, timeout=60)
            dist["extra_pass_generated"] += 1
            d2 = open(p2, "rb").read() if os.path.exists(p2) else None
            mp2 = open(os.path.join(wd, "c%dx.map" % i)).read() if os.path.exists(os.path.join(wd, "c%dx.map" % i)) else ""
            if rc2 != 0 or d2 != d1 or map_symbols(mp1) != map_symbols(mp2):
                spec_fail.append(dict(sig=None, why="one further pass changes the result: rc=%s code file equal=%s symbols equal=%s" % (rc2, d2 == d1, map_symbols(mp1) == map_symbols(mp2)), source=text))
            for x in (f, f2, p1, p2):
                if os.path.exists(x):
                    os.unlink(x)
            if len(samples) < 5 and len(plan) > 8:
                samples.append(dict(kind="real/" + tname, source=text[:600], labels=lab_addr))
        # ---- part D: every branch distance around the displacement limits
        dist["sweep_snippets"] = 0
        dist["sweep_rejected_lines"] = 0
        for (tcpu, mnem, db, step) in SWEEP:
            text, snippets = gen_sweep(tcpu, mnem, db, step)
            f = os.path.join(wd, "sw_%s_%s.asm" % (tcpu, mnem))
            open(f, "w").write(text)
            p1 = f[:-4] + ".p"
            src_lines = text.split("\n")
            errlines = set()
            bad_other = []
            for _round in range(8):
                rc, so, se = common.run_tool(bdir, "asl", ["-q", "-E", "!2", f, "-o", p1], wd, env=env_cap, timeout=60)
                if rc == 0:
                    break
                # fixed-size short branches legitimately reject far targets (reported only once no repass is
                # pending, so several rounds may be needed): replace those lines by filler of the same size
                new = set(int(x) for x in re.findall(rb"\((\d+)\)[^\n]*: error", se)) - errlines
                if not new:
                    break
                bad_other = [ln for ln in new if not src_lines[ln - 1].strip().startswith(mnem)]
                if bad_other:
                    break
                errlines |= new
                kept = [l if (i + 1) not in errlines else "\t%s 0,0" % db for i, l in enumerate(src_lines)]
                open(f, "w").write("\n".join(kept))
            dist["sweep_rejected_lines"] += len(errlines)
            if bad_other:
                spec_fail.append(dict(sig=None, why="sweep source rejected at non-branch lines %s" % sorted(bad_other)[:5], source=text[:3000]))
                continue
            if rc != 0 or not os.path.exists(p1):
                spec_fail.append(dict(sig=None, why="sweep source does not assemble: rc=%s" % rc, source=text[:3000]))
                continue
            img = image_of(open(p1, "rb").read())
            addrs = sorted(a for (s, a) in img if s == 1)
            rejected_ids = set()
            for ln in errlines:
                m2 = re.search(r"sw(\d+)", src_lines[ln - 1])
                if m2:
                    rejected_ids.add(int(m2.group(1)))
            for (sid, direction, fill) in snippets:
                dist["sweep_snippets"] += 1
                if sid in rejected_ids:
                    # a rejection is only legitimate when the distance really exceeds the 8-bit range
                    d = fill if direction == "fwd" else -(fill + 4 + 2)
                    if -120 <= d <= 120 and mnem in ("bne",) and tcpu == "6502":
                        spec_fail.append(dict(sig=None, why="%s %s: branch over %d bytes rejected although it is in range" % (tcpu, mnem, d), source=text[:2000]))
                    continue
                lh = find_all(img, addrs, [238, sid >> 8, sid & 255, 119])
                rh = find_all(img, addrs, [221, sid >> 8, sid & 255, 102])
                if len(lh) != 1 or len(rh) != 1:
                    continue
                tgt = decode_branch(img, rh[0] + 4, tcpu, mnem)
                if tgt is None:
                    spec_fail.append(dict(sig=None, why="%s %s (%s, filler %d): opcode at %d not decodable: %s" % (tcpu, mnem, direction, fill, rh[0] + 4, [img.get((1, rh[0] + 4 + k)) for k in range(4)]), source="sweep %s %s filler=%d %s" % (tcpu, mnem, fill, direction)))
                elif tgt != lh[0]:
                    spec_fail.append(dict(sig=None, why="%s %s (%s, filler %d bytes): branch at %d leads to %d, the label is at %d" % (tcpu, mnem, direction, fill, rh[0] + 4, tgt, lh[0]),
                                          source="\tcpu %s ; sweep snippet: %s over %d filler bytes, %s" % (tcpu, mnem, fill, direction)))
            for x in (f, p1):
                if os.path.exists(x):
                    os.unlink(x)
        # ---- golden corpus: extra pass changes nothing
        tests = common.corpus_tests()
        rng.shuffle(tests)
        for (name, asm, flags) in tests[:nCorpus]:
            rc, so, se, p = common.assemble_test(bdir, wd, name, asm, flags, env=env_cap)
            if rc != 0:
                continue
            d1 = open(p, "rb").read()
            rc2, so2, se2, p2 = common.assemble_test(bdir, wd, name, asm, flags, env=dict(env_cap, ASL_VERIF_EXTRA_PASSES="1"), out_base=os.path.join(wd, name + "_x"))
            d2 = open(p2, "rb").read() if os.path.exists(p2) else None
            dist["corpus_extra_pass"] += 1
            if rc2 != 0 or d1 != d2:
                spec_fail.append(dict(sig=None, why="golden source %s: one further pass changes the code file (rc=%s)" % (name, rc2), source="tests/%s/%s.asm" % (name, name)))
            for x in (p, p2, p[:-2] + ".h", p2[:-2] + ".h"):
                if os.path.exists(x):
                    os.unlink(x)
        # ---- EQU chains, number of passes, termination (vlib/props/c01_term.py, driver mode c01t)
        tp = c01_term.run_part(args, bdir, wd)
        spec_fail += tp["spec_fail"]
        corr_fail += tp["corr_fail"]
        proof_problems += tp["problems"]
        distinct |= tp["distinct"]
        dist["equ_termination"] = tp["dist"]
        samples += tp["samples"]
        # ---- PHASE blocks, near branches, sections with FORWARD/PUBLIC/GLOBAL (vlib/props/c01_ext.py, driver mode c01x)
        t_xp = time.time()
        xp = c01_ext.run_part(args, bdir, wd)
        spec_fail += xp["spec_fail"]
        corr_fail += xp["corr_fail"]
        proof_problems += xp["problems"]
        distinct |= xp["distinct"]
        dist["phase_near_sections"] = xp["dist"]
        dist["phase_near_sections_wall_s"] = round(time.time() - t_xp, 2)
        samples += xp["samples"]
        # ---- operand positions: address fields behind extension words / prebytes / postbytes, PC-relative operands of the
        #      68000 family and the byte-oriented targets (vlib/props/c01_opnd.py, driver mode c01o)
        t_op = time.time()
        op = c01_opnd.run_part(args, bdir, wd)
        spec_fail += op["spec_fail"]
        corr_fail += op["corr_fail"]
        proof_problems += op["problems"]
        distinct |= op["distinct"]
        dist["operand_positions"] = op["dist"]
        dist["operand_positions_wall_s"] = round(time.time() - t_op, 2)
        samples += op["samples"]
        # ---- per-pass state set by statements: ASSUME registers / ON-OFF switches, operands in front of the first and behind
        #      the last ASSUME, one-pass vs multi-pass arrangements (vlib/props/c01_assume.py, driver mode c01a)
        t_as = time.time()
        ap = c01_assume.run_part(args, bdir, wd)
        spec_fail += ap["spec_fail"]
        corr_fail += ap["corr_fail"]
        proof_problems += ap["problems"]
        distinct |= ap["distinct"]
        dist["assumptions"] = ap["dist"]
        dist["assumptions_wall_s"] = round(time.time() - t_as, 2)
        samples += ap["samples"]
    total = nB + nC + dist["corpus_extra_pass"] + tp["evaluations"] + xp["evaluations"] + op["evaluations"] + ap["evaluations"]
    res.coverage = common.proof_coverage(audit, "C01", [
        "hook H1 in as.c (pass cap, forced extra pass) - guarded by ASL_VERIF",
        "correspondence: real asl vs Model.Pass on 6502 (direct/absolute choice) and 68000 (padding) programs",
        "resolution oracle: marker bytes + per-target mini decoders for lda/jmp/bra/data words (python harness)",
        "translate/tables.py gen_passconsts (MaxSymPass / first PassNo after AsmDefInit, dumper linked with the assembler's objects)",
        "correspondence: real asl vs Model.Pass2 (EQU expressions, pass count, reject in pass 2) on 6502 and 68000; listing parser for line addresses and symbol values (python harness)",
        "correspondence: real asl vs Model.PassPhase (PHASE/DEPHASE, BRA/Bcc/BSR size selection incl. the label behind a BSR) on 6502 and 68000, vs Model.Sym (sections, FORWARD/PUBLIC/GLOBAL) on 6502/Z80",
        "resolution oracle for PHASE blocks / near branches / sections: marker bytes + per-target mini decoders (python harness); the binding of every reference in a section tree is computed by Spec.Scope.judge (driver mode c01x S)",
        "operand positions: the address every field stands for is computed by the Lean SPEC decoders Spec/OperandPos.lean (written from the processor manuals; driver mode c01o D) from the real instruction bytes; the python harness only locates the marker bytes and compares with the label's address; correspondence real asl vs Model/M68kOpnd.encode (RelPos / extension-word layout of code68k.c) on the 68000 family, vs Model/M6809Pcr.encode (n,PCR behind prebytes / immediate bytes, code6809.c) and vs Model/M740Bbs.encode (BBC/BBS and InsNOP, code65.c)",
        "assumptions: the address an operand denotes under the ASSUME in force at its line is computed by the Lean SPEC Spec/AssumePos.lean (manual's ASSUME section + processor manuals; driver mode c01a J) from the real instruction bytes, likewise the value every ASSUMEDVAL / switch-symbol probe must show; the python harness locates markers, cuts data items and compares the code files of the one-pass and multi-pass arrangements; correspondence real asl vs Model/PassAssume.assemble with the per-pass reset (c01a P) on 6809 / 65CE02 / 68HC12X; the list of registers and switches is cross-checked against Generated/GenState.lean"])
    res.coverage.update(evaluations=total, distinct_nontrivial=len(distinct),
                        rule="(B) random label/reference/filler programs in the model's statement language rendered for 6502 and 68000, filler sizes around the 255/256 threshold; (C) programs over 6502/6809/68HC11/68000/8086 with marker bytes after each label and before each reference, distances around 127/128/255/256, each assembled normally and with one forced extra pass; (corpus) golden sources with a forced extra pass; (EQU) forward/backward/reordered EQU chains of length 0..12 with offsets and the PC symbol, mixed label/EQU/use programs, zero-page threshold shapes and operands falling with a rising label, on 6502 and 68000, compared in status, pass count, end address, operands, symbol values and checked against Spec.Pass2; distinct by program text, non-trivial = at least one EQU over another symbol; (PHASE/near/sections, see vlib/props/c01_ext.py) abstract programs with nested PHASE blocks and BRA/Bcc/BSR at distances 0,2,.. compared with Model.PassPhase, marker programs over six targets with PHASE blocks and references next to their labels, every near form x gap x direction x plain/PHASE enumerated, section trees with FORWARD/PUBLIC/GLOBAL and same-named symbols on several levels judged by Spec.Scope (binding) and compared with Model.Sym, each with a forced extra pass; (operand positions, see vlib/props/c01_opnd.py) marker programs over 68000/68010/68332/68340/68020/68030/68040, 6809/6309, 68HC11, 65C02, MELPS 740, 65C19, 8086/V35, Z80 whose references go through operands that do not directly follow the operation code (immediate / register-mask / command / bit-field words, prebytes, prefixes, postbytes, mask bytes), PC-relative (d16, d8+index, 16/32-bit base displacement, memory indirect; n,PCR; rel8 behind operand bytes) and absolute, forward / backward / next to the label / beyond the 16-bit range / inside PHASE blocks, judged by the Lean SPEC decoder and compared with Model.M68kOpnd / Model.M6809Pcr / Model.M740Bbs, each with a forced extra pass, plus one systematic program per CPU (every instruction class x operand form x direction); (assumptions, see vlib/props/c01_assume.py) abstract label / page-rule reference / filler / ASSUME programs on 6809, 65CE02, 68HC12X against Model.PassAssume, marker programs on 6809/6309/65CE02/68HC12X/65816/MELPS 7700/80C166/80C167/8086/V35 (segment assumptions, override prefixes) with operands in front of the first, between and behind the last ASSUME in five arrangements (variables first = one pass, plus forward reference, variables behind the code, forced extra passes) whose code files must agree and whose operands must denote the variable under the assumption in force at their line (Spec.AssumePos), ASSUMEDVAL / switch-symbol probe programs for every ASSUME register of 38 target configurations and 25 ON/OFF switch configurations in four arrangements",
                        samples=samples, distribution=dist)
    res.assumptions = ["termination is decided by search under a cap of %d passes for value-dependent sizes (theorems: C01_term_const_sizes / C01_term_backward prove it for value-independent sizes and for programs without forward reference; C01_oscillation_example disproves it in general; C01_fixpoint_at_exit(_equ) is conditional on loop exit)" % PASS_CAP,
                       "EQU part: operands are kept inside the range of their data word in every pass (range errors are outside Model.Pass2), each symbol is defined once, SET is not modelled",
                       "mini decoders cover only the instruction forms the generator emits",
                       "assumptions part: `ASSUME reg:NOTHING` is not generated (documented for the 8086 and ST6 only; on the 8086 it is), 65816 direct pages are kept below $FF00 (no wrap at the end of bank 0), the default of a register is judged only where the manual states one (elsewhere the arrangements must agree with each other), PACKING (AVR) is not probed because it changes the layout of the probing DATA statement itself"]
    return common.conclude(res, proof_problems, spec_fail, corr_fail, total)


def replay(args):
    import json
    d = json.load(open(args.replay))
    print(json.dumps(d, indent=1)[:3000])
    if "source" in d and "\n" in d["source"]:
        bdir = common.repo_build("hooks")
        with common.Workdir("c01r") as wd:
            f = os.path.join(wd, "r.asm")
            open(f, "w").write(d["source"])
            flags = str(d.get("flags") or "").split()
            env = {"ASL_VERIF_MAX_PASSES": str(PASS_CAP)}
            m_env = re.match(r"(ASL_VERIF_EXTRA_PASSES)=(\d+)$", str(d.get("env") or ""))
            if m_env:
                env[m_env.group(1)] = m_env.group(2)      # the arrangement "with forced extra passes" (hook H1)
            rc, so, se = common.run_tool(bdir, "asl", flags + [f], wd, env=env, timeout=60)
            print("asl", " ".join(flags), str(d.get("env") or ""), "rc =", rc, so.decode(errors="replace")[-400:])
            for key, mode in (("model_request", "c01x"), ("spec_request", "c01x")):
                if key in d and str(d[key])[:2] in ("P ", "S "):
                    print(key, "->", common.driver(mode, [d[key]])[0][:600])
                elif key in d and str(d[key])[:2] in ("D ", "M "):
                    print(key, "->", common.driver("c01o", [d[key]])[0][:600])
            for key in ("model_request_c01a", "spec_request_c01a"):
                if key in d:
                    print(key, "->", common.driver("c01a", [d[key]])[0][:600])
    return 0
