"""C17 - code output is deterministic and independent of reporting options.

Three parts (labelled in the evidence):
 (A) theorems of lean/AslModel/Props/C17.lean (option sources, DreheCodes involution, noninterference on the
     per-line pipeline model, the generated obligation on the real callback table) and of Props/C17_Flow.lean: the
     information-flow inventory of the report options, regenerated every run from the clang AST of all translation units
     of asl (translate/reportflow.py -> Generated/ReportFlow.lean) and joined with the hand-written classification
     Spec/ReportObjects.lean - every object a report variable reaches is report data or a listed, justified exception;
     this is what ties the abstract noninterference model to the C sources (C17_flow_model_premise);
 (B) correspondence: cmdarg.o's real ProcessCMD (linked into a probe with logging handlers) vs Model/CmdArg.lean,
     the real DreheCodes() (probe linked against the assembler's objects) vs Model/Drehe.lean, the pipeline model's
     code-file payload vs real .p files;
 (C) the property on the implementation - this is DIFFERENTIAL TESTING and carries most of the weight: golden-corpus
     and generated sources assembled under pairwise-covering report-option subsets, cwd / -o variants, LANG/LC_ALL,
     argv vs ASCMD vs @keyfile, repeated runs; sha of .p must be identical, listing/MAP/share reproducible modulo
     the date/time stamp.  The spec of Spec/Options.lean is evaluated on the probe's traces as well.
 Key files are treated as FILES everywhere (render_keyfile): LF / CR-LF / mixed line ends, last line with or without line end,
 empty / blank-only / comment lines, blanks before, between and after the parameters, one switch per line ... lines filled up to
 the documented 255 characters, key file references inside key files; the reader (fgets / ReadLn / the feof loop of ProcessFile)
 is part of Model/CmdArg.lean (keyFileLines) and of the theorems (C17_keyfile_reader, C17_keyfile_layout, C17_keyfile_final_line_end,
 C17_keyfile_as_argv).  (C2) run_placement: small programs whose code depends on every option of a random set of CODE-AFFECTING
 options (-D in several spellings, -cpu, -i, -U, -relaxed), the options given on the command line, in ASCMD, in key files named on
 the command line / by ASCMD / split over both, each in random layouts - same code file required, control run without options.
"""
import hashlib
import json
import os
import re
import shutil
import subprocess

from .. import common
from ..common import log
from translate import tables

# --------------------------------------------------------------------------
# probes

CMD_PROBE_C = r'''
#include "stdinc.h"
#include <stdio.h>
#include <stdlib.h>
#include <string.h>
#include <ctype.h>
#include "strutil.h"
#include "stringlists.h"
#include "nls.h"
#include "nlmessages.h"
#include "cmdarg.h"
#include "ioerrs.h"

#define MAXREC 64
static char idents[MAXREC][64];
static int kinds[MAXREC];
static int nrec;
static char logbuf[1 << 20]; static size_t loglen;
static char errbuf[1 << 18]; static size_t errlen;

static void hexs(char *dst, size_t *len, const char *s) {
  if (!*s) { dst[(*len)++] = '-'; return; }
  for (; *s; s++) *len += sprintf(dst + *len, "%02x", (unsigned char)*s);
}
static int digits(const char *a) { if (!*a) return 0; for (; *a; a++) if (!isdigit((unsigned char)*a)) return 0; return 1; }
static int isenum(const char *a) { char u[16]; size_t i; if (strlen(a) > 8) return 0;
  for (i = 0; a[i]; i++) u[i] = toupper((unsigned char)a[i]); u[i] = 0;
  return !strcmp(u, "MAP") || !strcmp(u, "ATMEL") || !strcmp(u, "NOICE"); }

static CMDResult generic(int idx, Boolean neg, const char *a) {
  CMDResult r;
  switch (kinds[idx]) {
    case 0: r = CMDOK; break;
    case 1: r = *a ? CMDArg : CMDErr; break;
    case 2: r = *a ? CMDArg : CMDOK; break;
    case 3: r = digits(a) ? CMDArg : CMDOK; break;
    case 4: if (neg) r = *a ? CMDErr : CMDOK; else if (!*a) r = CMDOK; else r = isenum(a) ? CMDArg : CMDErr; break;
    case 5: r = neg ? CMDOK : (*a ? CMDArg : CMDErr); break;
    default: r = CMDErr;
  }
  if (loglen) logbuf[loglen++] = ',';
  hexs(logbuf, &loglen, idents[idx]);
  loglen += sprintf(logbuf + loglen, ".%d.", neg ? 1 : 0);
  hexs(logbuf, &loglen, a);
  loglen += sprintf(logbuf + loglen, ".%d", r == CMDOK ? 0 : r == CMDArg ? 1 : 2);
  return r;
}
@WRAPPERS@
static void errproc(Boolean inenv, char *arg) {
  if (errlen) errbuf[errlen++] = ',';
  errbuf[errlen++] = inenv ? 'E' : 'A';
  hexs(errbuf, &errlen, arg);
}
static char *unhex(const char *h) {
  size_t n = strlen(h), i; char *o = malloc(n / 2 + 2);
  if (!strcmp(h, "-")) { o[0] = 0; return o; }
  for (i = 0; i + 1 < n; i += 2) { unsigned v; sscanf(h + i, "%2x", &v); o[i / 2] = (char)v; }
  o[n / 2] = 0; return o;
}
static char *fieldof(char *line, const char *key) {   /* returns malloc'd value of key= */
  char pat[16]; char *p, *e; size_t l;
  sprintf(pat, "%s=", key);
  p = line;
  while ((p = strstr(p, pat))) { if (p == line || p[-1] == ' ') break; p++; }
  if (!p) return strdup("");
  p += strlen(pat); e = strchr(p, ' '); l = e ? (size_t)(e - p) : strlen(p);
  { char *o = malloc(l + 1); memcpy(o, p, l); o[l] = 0; return o; }
}

int main(int argc, char **argv) {
  static char line[1 << 20];
  CMDRec recs[MAXREC];
  CMDProcessed unp;
  nls_init();
  if (!NLS_Initialize(&argc, argv)) return 4;
  strutil_init();
  cmdarg_init(argv[0]);
  while (fgets(line, sizeof line, stdin)) {
    char *T, *E, *K, *A, *tok, *sv; char *av[600]; int ac = 0;
    size_t l = strlen(line); if (l && line[l - 1] == '\n') line[--l] = 0;
    T = fieldof(line, "T"); E = fieldof(line, "E"); K = fieldof(line, "K"); A = fieldof(line, "A");
    nrec = 0;
    for (tok = strtok_r(T, ",", &sv); tok && nrec < MAXREC; tok = strtok_r(NULL, ",", &sv)) {
      char *c = strchr(tok, ':'); char *id; *c = 0; id = unhex(tok);
      strcpy(idents[nrec], id); kinds[nrec] = atoi(c + 1);
      recs[nrec].Ident = idents[nrec]; recs[nrec].Callback = cbs[nrec]; nrec++;
    }
    { char *e = unhex(E); setenv("C17CMD", e, 1); }
    unlink("K");
    if (strcmp(K, "none")) {           /* K = the key file's raw content (every byte, line ends included), "-" = empty file */
      FILE *f = fopen("K", "wb");
      if (strcmp(K, "-")) { size_t kn = strlen(K) / 2, ki; for (ki = 0; ki < kn; ki++) { unsigned v; sscanf(K + 2 * ki, "%2x", &v); fputc((int)v, f); } }
      fclose(f);
    }
    av[ac++] = "probe";
    for (tok = strtok_r(A, ",", &sv); tok && ac < 590; tok = strtok_r(NULL, ",", &sv)) av[ac++] = unhex(tok);
    av[ac] = NULL;
    loglen = errlen = 0;
    ProcessCMD(ac, av, recs, nrec, unp, "C17CMD", errproc);
    logbuf[loglen] = 0; errbuf[errlen] = 0;
    printf("calls:%s;files:", logbuf);
    { StringRecPtr lauf; int first = 1; static char hb[8192];
      for (lauf = FileArgList; lauf; lauf = lauf->Next) { size_t hl = 0; hexs(hb, &hl, lauf->Content); hb[hl] = 0; printf("%s%s", first ? "" : ",", hb); first = 0; } }
    printf(";errs:%s\n", errbuf);
    fflush(stdout);
    ClearStringList(&FileArgList);
  }
  return 0;
}
'''

AS_PROBE_C = r'''
#include "stdinc.h"
#include <stdio.h>
#include <stdlib.h>
#include <string.h>
#include "asmdef.h"
#include "asmsub.h"
#include "asmcode.h"
int main(int argc, char **argv) {
  static char line[1 << 16];
  SetMaxCodeLen(4096);
  while (fgets(line, sizeof line, stdin)) {
    unsigned gran, l, g, i, n = 0; char hex[8200];
    if (sscanf(line, "%u %u %u %8190s", &gran, &l, &g, hex) != 4) continue;
    if (!strcmp(hex, "-")) hex[0] = 0;
    n = strlen(hex) / 2;
    for (i = 0; i < n; i++) { unsigned v; sscanf(hex + 2 * i, "%2x", &v); BAsmCode[i] = v; }
    ActPC = SegCode; Grans[SegCode] = g; ActListGran = gran; CodeLen = l / g;
    DreheCodes();
    printf("once="); for (i = 0; i < n; i++) printf("%02x", BAsmCode[i]); if (!n) printf("-");
    DreheCodes();
    printf(" twice="); for (i = 0; i < n; i++) printf("%02x", BAsmCode[i]); if (!n) printf("-");
    printf("\n");
  }
  return 0;
}
'''


CMD_PROBE_C = CMD_PROBE_C.replace("@WRAPPERS@",
    "".join("static CMDResult cb%d(Boolean neg, const char *a) { return generic(%d, neg, a); }\n" % (i, i) for i in range(64))
    + "static CMDCallback cbs[MAXREC] = {" + ",".join("cb%d" % i for i in range(64)) + "};\n")


def _gcc(cmd, what):
    r = subprocess.run(cmd, stdout=subprocess.PIPE, stderr=subprocess.PIPE)
    if r.returncode != 0:
        raise tables.ExtractError("%s does not compile/link against the current tree:\n%s" % (what, r.stderr.decode(errors="replace")[-3000:]))


def build_cmd_probe(bdir, wd):
    cf = os.path.join(wd, "cmdprobe.c")
    open(cf, "w").write(CMD_PROBE_C)
    exe = os.path.join(wd, "cmdprobe")
    groups = ["ST_OBJECTS", "NLS_OBJECTS", "CMDLINE_COMMON"]
    _gcc(["gcc", "-w", "-std=gnu11", "-D" + common.GUARD, "-I", common.REPO, "-I", bdir, cf] + tables.objs(bdir, groups) + ["-lm", "-o", exe], "cmdarg probe")
    return exe


def build_as_probe(bdir, wd):
    """probe linked against the assembler's own objects; as.c.o gets `main` renamed and `ASParams` made global"""
    aso = os.path.join(bdir, "CMakeFiles", "AS_OBJECTS.dir", "as.c.o")
    nomain = os.path.join(wd, "as_nomain.o")
    r = subprocess.run(["objcopy", "--redefine-sym", "main=asl_main_renamed", "--globalize-symbol=ASParams", aso, nomain], stdout=subprocess.PIPE, stderr=subprocess.PIPE)
    if r.returncode != 0:
        raise tables.ExtractError("objcopy failed: " + r.stderr.decode(errors="replace"))
    cf = os.path.join(wd, "asprobe.c")
    open(cf, "w").write(AS_PROBE_C)
    exe = os.path.join(wd, "asprobe")
    _gcc(["gcc", "-w", "-std=gnu11", "-D" + common.GUARD, "-I", common.REPO, "-I", bdir, cf, nomain] + tables.objs(bdir, tables.AS_GROUPS, exclude=("as.c.o",)) + ["-lm", "-o", exe], "assembler probe")
    return exe


def run_probe(exe, bdir, wd, lines, args=()):
    r = subprocess.run([exe] + list(args), input=("\n".join(lines) + "\n").encode(), stdout=subprocess.PIPE, stderr=subprocess.PIPE,
                       cwd=wd, env=dict(os.environ, AS_MSGPATH=bdir, LC_ALL="C", LANG="C"), timeout=300)
    return r.returncode, r.stdout.decode(errors="replace").split("\n")[:-1], r.stderr.decode(errors="replace")


# --------------------------------------------------------------------------
# (B)/(C) for the option sources: generator of parameter lists

def hx(s):
    b = s.encode("latin-1") if isinstance(s, str) else bytes(s)
    return b.hex() if b else "-"


KIND_OF = {"g": 4, "E": 2, "r": 3, "SPLITBYTE": 2, "LISTRADIX": 5, "MAXERRORS": 5, "MAXINCLEVEL": 5, "NOICEMASK": 5,
           "o": 1, "i": 1, "t": 1, "D": 1, "OLIST": 1, "SHAREOUT": 1, "CPU": 1, "ALIAS": 1}

ARG_POOL = ["x.lst", "3", "16", "MAP", "map", "NoIce", "ATMEL", "zz", "0", "255", "a,b=1", "dir/sub", ";x", "9z", "#1", "~u"]
FILE_POOL = ["a.asm", "b", "dir/c.asm", "x-y", "q+r", ";semi", "1", "K"]


def gen_table(rng, idents):
    """the real ASParams names (regenerated) with a synthetic behaviour each; sometimes shuffled / extended"""
    ids = list(idents)
    if rng.random() < 0.3:
        rng.shuffle(ids)
    if rng.random() < 0.3:
        ids = ids[:rng.randrange(3, len(ids))]
    if rng.random() < 0.3:
        ids += rng.sample(["Z", "z", "QU", "LL", "lower", "X1", "#", "~"], 2)
    ids = ids[:64]
    tab = []
    for i in ids:
        k = KIND_OF.get(i, 0)
        if rng.random() < 0.15:
            k = rng.choice([0, 1, 2, 3, 4, 5, 6])
        tab.append((i, k))
    return tab


def gen_param(rng, tab):
    """one parameter (+ maybe its argument)"""
    r = rng.random()
    sign = "+" if rng.random() < 0.25 else "-"
    if r < 0.45:
        i, k = rng.choice(tab)
        name = i
        if len(i) > 1 and rng.random() < 0.5:
            name = "".join(c.lower() if rng.random() < 0.5 else c.upper() for c in i)
        elif len(i) == 1 and rng.random() < 0.15:
            name = ("#" if i.isupper() else "~") + (i.lower() if i.isupper() else i.upper())
        out = [sign + name]
        if k in (1, 2, 3, 4, 5) and rng.random() < 0.8:
            out.append(rng.choice(ARG_POOL))
        return out
    if r < 0.65:
        # cluster of single letters
        singles = [i for i, k in tab if len(i) == 1]
        n = rng.randrange(2, 5)
        cl = "".join(rng.choice(singles) for _ in range(n)) if singles else "q"
        if rng.random() < 0.2:
            cl += rng.choice("?Zz9")
        out = [sign + cl]
        if rng.random() < 0.4:
            out.append(rng.choice(ARG_POOL))
        return out
    if r < 0.85:
        return [rng.choice(FILE_POOL)]
    if r < 0.9:
        return [sign]                       # bare sign
    if r < 0.95:
        return [sign + rng.choice(["nosuch", "Lq?", "##", "~"])]
    return [rng.choice(ARG_POOL)]


# --------------------------------------------------------------------------
# key files as FILES: the layouts a user (or an editor / a script) may produce.  A key file is rendered from the parameter lists
# of its lines; the layout is random: LF / CR-LF / mixed line ends, the last line with or without line end, empty and blank-only
# lines, blanks before / after / several between the parameters, lines padded up to the documented 255 characters.

KEY_LINE_MAX = 255      # doc/assembler-usage.md: "several lines each with a maximum length of 255 characters"


def key_groups(params):
    """a flat parameter list as units that must stay on one line: a switch together with the parameters that follow it"""
    groups, cur = [], []
    for p in params:
        if p[:1] in "-+" and cur:
            groups.append(cur); cur = []
        cur.append(p)
    if cur:
        groups.append(cur)
    return groups


def pack_lines(rng, groups, mode=None):
    """distribute the units over lines: one per line, a few per line, as many as the documented line length allows, all in one"""
    mode = mode or rng.choice(["one", "few", "fill", "fill", "single"])
    lines, cur = [], []
    for g in groups:
        cand = cur + g
        full = len(" ".join(cand)) > KEY_LINE_MAX
        if cur and (full or mode == "one" or (mode == "few" and rng.random() < 0.45)):
            lines.append(cur); cur = list(g)
        else:
            cur = cand
    if cur:
        lines.append(cur)
    return lines, mode


def render_keyfile(rng, lines, final=None, eol=None, dirty=False, comments=False):
    """parameter lists -> (text of the key file, parameter lists of its lines incl. inserted empty ones, layout description).
    `dirty`: additionally things the manual says nothing about (tabs, a lone CR, Ctrl-Z, form feed, NUL, overlong lines) - for
    model-vs-real comparison only."""
    eol = eol or rng.choice(["lf", "lf", "crlf", "crlf", "mixed"])
    final = final or rng.choice(["eol", "none", "none"])
    lines = [list(l) for l in lines]
    desc = {"eol": eol, "final": final}
    # empty / blank-only lines anywhere
    if rng.random() < 0.5:
        for _ in range(rng.randrange(1, 4)):
            lines.insert(rng.randrange(0, len(lines) + 1), [])
        desc["empty_lines"] = 1
    if comments and rng.random() < 0.3:
        # lines whose first non-blank character is ';' are skipped by cmdarg.c (the manual does not mention them; the parameter-list
        # spec is simply not shown these lines) - also as the last, unterminated line
        for _ in range(rng.randrange(1, 3)):
            lines.insert(rng.randrange(0, len(lines) + 1), None)
        desc["comment_lines"] = 1
    bodies = []
    for l in lines:
        if l is None:
            bodies.append(rng.choice(["", " ", "   "]) + rng.choice([";", "; comment -L", ";-L -u", ";;", "; @K"]))
            continue
        if not l:
            bodies.append(rng.choice(["", "", " ", "    "]))
            continue
        style = rng.choice(["plain", "plain", "lead", "trail", "multi", "all", "pad"])
        seps = [" " * (rng.choice([2, 3, 7]) if style in ("multi", "all") and rng.random() < 0.6 else 1) for _ in l[:-1]] + [""]
        b = "".join(t + sp for t, sp in zip(l, seps))
        if style in ("lead", "all"):
            b = " " * rng.randrange(1, 5) + b
        if style in ("trail", "all"):
            b = b + " " * rng.randrange(1, 5)
        if len(b) > KEY_LINE_MAX:           # the extra blanks must not push the line over the documented maximum
            b = " ".join(l)
        if style == "pad" and len(b) < KEY_LINE_MAX - 6:
            # up to the documented maximum (and one / two characters below it), blanks at the end or between two parameters
            target = KEY_LINE_MAX - rng.choice([0, 0, 1, 2, 3])
            fill = " " * (target - len(b))
            if len(l) > 1 and rng.random() < 0.5:
                cut = b.index(" ")
                b = b[:cut] + fill + b[cut:]
            else:
                b = b + fill
            desc["padded_to"] = target
        desc[style] = desc.get(style, 0) + 1
        bodies.append(b)
    if dirty:
        for i in range(len(bodies)):
            r = rng.random()
            if r < 0.25 and bodies[i]:
                bodies[i] = bodies[i].replace(" ", rng.choice(["\t", " \t", "\t ", "\t\t", "\x0c", "\x0b "]), rng.choice([1, 1, 9]))
            elif r < 0.35:
                bodies[i] += rng.choice(["\x1a", "\r", "\t", "\x1a\r", "\r\x1a", "\r\r"])
            elif r < 0.42 and bodies[i]:
                k = rng.randrange(0, len(bodies[i]) + 1)
                bodies[i] = bodies[i][:k] + rng.choice(["\x00", "\r", "\x1a"]) + bodies[i][k:]
            elif r < 0.55 and bodies[i]:
                # longer than one ReadLn chunk: the line is cut after 255 characters
                target = rng.choice([256, 257, 300, 509, 510, 511, 520])
                if len(bodies[i]) < target:
                    fill = rng.choice([" ", "x", " y"]) * target
                    k = rng.randrange(0, len(bodies[i]) + 1)
                    bodies[i] = (bodies[i][:k] + fill)[:target - len(bodies[i]) + k] + bodies[i][k:]
        desc["dirty"] = 1
    text = ""
    for i, b in enumerate(bodies):
        e = {"lf": "\n", "crlf": "\r\n"}.get(eol) or rng.choice(["\n", "\r\n"])
        if i == len(bodies) - 1 and final == "none":
            e = ""
        text += b + e
    if dirty and rng.random() < 0.2:
        text += rng.choice(["\x1a", "\r", "\x1a\n", "\n\n"])
    return text, [l for l in lines if l is not None], desc


def fixed_key_cases(idents):
    """deterministic regression cases, run first: one option set written into a key file in the layouts that matter (every final
    line end, CR-LF, empty lines, blanks, one line), referenced from the command line and from ASCMD; the spec reads the raw file"""
    tab = [(i, KIND_OF.get(i, 0)) for i in idents][:64]
    T = ",".join("%s:%d" % (hx(i), k) for i, k in tab)
    texts = ["-u -C\n-D FILL=55h\n-D BASE=2000h\n", "-u -C\n-D FILL=55h\n-D BASE=2000h", "-D FILL=55h -D BASE=2000h -u -C",
             "-u -C\r\n-D FILL=55h\r\n-D BASE=2000h\r\n", "-u -C\r\n-D FILL=55h\r\n-D BASE=2000h", "-D BASE=2000h\r",
             "\n\n  -u   -C  \n\n -D FILL=55h\n   \n-D   BASE=2000h  ", "", "\n", "-L", " -L", "-L ", "-L\n\n", "-i\nx", "-i x\n-i",
             "-cpu z80 -x" + " " * 244, "-cpu z80 -x" + " " * 243 + "\n", "-cpu z80" + " " * 242 + "-x -g\r\nMAP"]
    out = []
    for t in texts:
        for E, A in (("-", ["@K", "a.asm"]), (hx("@K"), ["a.asm"]), ("-", ["-q", "@K", "-t", "3"])):
            out.append(dict(cls="keyfixed", req="T=%s E=%s K=%s A=%s" % (T, E, hx(t), ",".join(hx(a) for a in A)),
                            spec=" SE=%s SK=raw" % ("@" if E != "-" else ""), n=0, layout=None))
    return out


OPT_CLASSES = ["argv", "env", "keyenv", "keyargv", "mixed", "multiline", "dirty", "nested", "keylayout", "keydirty"]


def gen_opt_case(rng, idents, idx):
    """returns dict(request fields) for probe + driver; tokens are 'clean' except in the dirty classes"""
    tab = gen_table(rng, idents)
    T = ",".join("%s:%d" % (hx(i), k) for i, k in tab)
    n = rng.choice([0, 1, 1, 2, 3, 4, 6, 9, 14])
    params = []
    for _ in range(n):
        params += gen_param(rng, tab)
    cls = OPT_CLASSES[idx % len(OPT_CLASSES)]
    # env lines must not begin with ';' (comment) - keep the interesting token elsewhere
    def noc(ps):
        return ps if not ps or not ps[0].startswith(";") else ps[1:] + ps[:1] if len(ps) > 1 and not ps[1].startswith(";") else ["x"] + ps
    E, K, A, SE, SK = "-", "none", [], [], "none"
    layout = None
    if cls == "argv":
        A = params
    elif cls == "env":
        ps = noc(params)
        E = hx(" ".join(ps)); SE = ps
    elif cls == "keyenv":
        ps = noc(params)
        E = hx("@K"); K = hx(" ".join(ps) + "\n"); SE = "@"; SK = ",".join(hx(t) for t in ps)
        if not ps:
            SK = ""
    elif cls == "keyargv":
        ps = noc(params)
        pre = gen_param(rng, tab) if rng.random() < 0.5 else []
        post = gen_param(rng, tab) if rng.random() < 0.5 else []
        A = pre + ["@K"] + post
        K = hx(" ".join(ps) + "\n"); SK = ",".join(hx(t) for t in ps)
    elif cls == "mixed":
        cut = rng.randrange(0, len(params) + 1)
        ps = noc(params[:cut])
        E = hx(" ".join(ps)); SE = ps; A = params[cut:]
    elif cls == "multiline":
        lines = []
        cur = []
        for p in params:
            cur.append(p)
            if rng.random() < 0.4:
                lines.append(cur); cur = []
        if cur:
            lines.append(cur)
        lines = [noc(l) for l in lines]
        if rng.random() < 0.3:
            lines.insert(rng.randrange(0, len(lines) + 1), [";", "comment", "-L"])   # comment line
        A = ["@K"]
        K = hx("".join(" ".join(l) + "\n" for l in lines) or "\n")
        SK = ";".join(",".join(hx(t) for t in l) for l in lines if not l[0].startswith(";"))
        if not lines:
            SK = ""
    elif cls in ("keylayout", "keydirty"):
        # the key file as a FILE: random layout (line ends, final line end or none, empty lines, blanks, lines up to 255 characters);
        # referenced from the command line (in the middle of other parameters) or from ASCMD
        lines, cur = [], []
        for p in params:
            cur.append(p)
            if rng.random() < 0.35:
                lines.append(cur); cur = []
        if cur:
            lines.append(cur)
        lines = [noc(l) for l in lines]
        if lines and rng.random() < 0.15:
            # a key file reference inside a key file: "not allowed and will be answered with an error message"
            l = rng.choice(lines)
            l.insert(rng.randrange(0, len(l) + 1), rng.choice(["@K", "@K", "@other.key"]))
        text, slines, desc = render_keyfile(rng, lines, dirty=(cls == "keydirty"), comments=True)
        K = hx(text)
        SK = ";".join(",".join(hx(t) for t in l) for l in slines if l)
        if cls == "keylayout" and "comment_lines" not in desc and rng.random() < 0.7:
            SK = "raw"      # the spec reads the file itself: text lines, blank-separated words (Spec/Options.lean keyFileParams)
            desc["spec_reads_raw_file"] = 1
        if rng.random() < 0.5:
            E = hx("@K"); SE = "@"
            A = gen_param(rng, tab) if rng.random() < 0.3 else []
        else:
            pre = gen_param(rng, tab) if rng.random() < 0.4 else []
            post = gen_param(rng, tab) if rng.random() < 0.4 else []
            A = pre + ["@K"] + post
        if cls == "keydirty":
            SE = None                       # model vs real only
        layout = desc
    elif cls == "dirty":
        # separators: several blanks, leading/trailing blanks, tabs (model vs real only; the spec is not asked)
        ps = noc(params)
        seps = [rng.choice([" ", "  ", " \t", "\t", "\t ", "   "]) for _ in ps]
        s = rng.choice(["", " ", "\t", "  "]) + "".join(p + sp for p, sp in zip(ps, seps))
        if rng.random() < 0.5:
            s = s.rstrip()
        E = hx(s); SE = None
    else:  # nested key reference inside env / key file: must be rejected
        ps = noc(params) or ["first"]
        pos = rng.randrange(1, len(ps) + 1)     # an ASCMD value that *starts* with '@' names a key file
        ps = ps[:pos] + ["@K"] + ps[pos:]
        E = hx(" ".join(ps)); SE = ps
        K = hx("-L\n")
        SK = hx("-L")
    req = "T=%s E=%s K=%s A=%s" % (T, E, K, ",".join(hx(t) for t in A))
    spec = None
    if SE is not None:
        spec = " SE=%s SK=%s" % ("@" if SE == "@" else ",".join(hx(t) for t in SE), SK)
    return dict(cls=cls, req=req, spec=spec, n=len(params), layout=layout)


def strip_flags(real):
    """real/model trace -> spec view (error flags dropped)"""
    parts = dict(p.split(":", 1) for p in real.split(";"))
    errs = ",".join(e[1:] for e in parts["errs"].split(",") if e)
    return "calls:%s;files:%s;errs:%s" % (parts["calls"], parts["files"], errs)


# --------------------------------------------------------------------------
# (C) the differential part on real asl

NORM_RES = [
    (re.compile(rb"\d{1,2}[./-]\d{1,2}[./-]\d{2,4}"), b"<DATE>"),
    (re.compile(rb"\d{1,2}:\d{2}:\d{2}"), b"<TIME>"),
    (re.compile(rb"\d+[.,]\d+ (seconds|Sekunden)[^\n]*"), b"<SECS>"),
    (re.compile(rb"\d+ KByte[^\n]*"), b"<MEM>"),
]


def normalise(b):
    for rx, rep in NORM_RES:
        b = rx.sub(rep, b)
    return b


def report_option_sets(rng, wd_tag, n, allow_hex_case, allow_atmel=True):
    """pairwise-covering subsets of the report options: every option and every pair of options appears
    switched on together in some set and switched off together in some set (greedy random cover)."""
    opts = ["L", "l", "OLIST", "u", "C", "s", "I", "gMAP", "gNOICE", "gATMEL", "t", "x", "xx", "n", "q", "A", "r", "E",
            "gnuerrors", "LISTRADIX", "P", "M"]
    if allow_hex_case:
        opts += ["h", "SPLITBYTE"]
    if not allow_atmel:
        # -g ATMEL keeps one line-info record per code word in a sorted linked list: quadratic, ~30 s for a 25 KiB program
        opts.remove("gATMEL")
    excl = [{"gMAP", "gNOICE", "gATMEL"}, {"x", "xx"}, {"L", "l"}]
    need = set()
    for i, a in enumerate(opts):
        for b in opts[i + 1:]:
            if not any(a in e and b in e for e in excl):
                need.add((a, b))
    sets = []
    # all-on first (one of each exclusive group), then greedy random
    for _ in range(400):
        if not need or len(sets) >= n:
            break
        best = None
        for _try in range(12):
            p = rng.choice([0.3, 0.5, 0.7])
            cand = [o for o in opts if rng.random() < p]
            for e in excl:
                inter = [o for o in cand if o in e]
                for o in inter[1:]:
                    cand.remove(o)
            cs = set(cand)
            gain = sum(1 for a, b in need if a in cs and b in cs)
            if best is None or gain > best[0]:
                best = (gain, cand)
        sets.append(best[1])
        cs = set(best[1])
        need = {(a, b) for a, b in need if not (a in cs and b in cs)}
    return sets, len(need)


def render_options(sel, rng, out_dir, tag):
    """report option names -> asl parameter list (each followed by a parameter that cannot be mistaken for its argument)"""
    ps = []
    side = {}
    for o in sel:
        if o == "OLIST":
            side["olist"] = os.path.join(out_dir, tag + ".olst")
            ps += ["-OLIST", side["olist"]]
        elif o == "E":
            side["err"] = os.path.join(out_dir, tag + ".err")
            ps += ["-E", side["err"]]
        elif o.startswith("g") and o != "gnuerrors":
            ps += ["-g", o[1:]]
        elif o == "t":
            ps += ["-t", str(rng.choice([1, 3, 16, 255, 511]))]
        elif o == "xx":
            ps += ["-x", "-x"]
        elif o == "LISTRADIX":
            ps += ["-LISTRADIX", str(rng.choice([2, 8, 10, 16, 36]))]
        elif o == "SPLITBYTE":
            ps += ["-SPLITBYTE", rng.choice([".", ":", "'"])]
        elif o == "r":
            ps += ["-r", rng.choice(["1", "2", "3"])] if rng.random() < 0.7 else ["-r"]
        elif o == "l":
            ps += ["-l"]
        else:
            ps += ["-" + o]
    if "OLIST" in sel and "L" not in sel and "l" not in sel:
        ps += ["-L"]
    return ps, side


def _includes_of(text):
    out = []
    for line in text.split(b"\n"):
        if b"nclude" not in line.lower():
            continue
        toks = line.split(b";")[0].split()
        for i, t in enumerate(toks[:2]):
            if t.lower() in (b"include", b"binclude") and i + 1 < len(toks):
                out.append(toks[i + 1].strip(b'"\'').decode(errors="replace"))
    return out


def source_closure(asm):
    """the source and the files it includes (searched next to it and in /repo/include), transitively"""
    seen, todo = {}, [asm]
    while todo:
        f = todo.pop()
        if f in seen:
            continue
        try:
            seen[f] = open(f, "rb").read()
        except OSError:
            continue
        for n in _includes_of(seen[f]):
            for d in (os.path.dirname(f), os.path.dirname(asm), os.path.join(common.REPO, "include")):
                for cand in (os.path.join(d, n), os.path.join(d, n + ".inc")):
                    if os.path.isfile(cand):
                        todo.append(cand)
    return seen


def uses_stringified_numbers(asm):
    return any(b"\\{" in t for t in source_closure(asm).values())


def defines_functions(asm):
    return any(re.search(rb"^\S+\s+function\s", t, re.I | re.M) for t in source_closure(asm).values())


def run_asl(bdir, cwd, params, env=None, timeout=120):
    import time as _t
    t0 = _t.time()
    r = common.run_tool(bdir, "asl", params, cwd, timeout=timeout, env=env)
    if _t.time() - t0 > 5:
        log("C17: SLOW (%.0f s) asl %s env=%s cwd=%s" % (_t.time() - t0, " ".join(params), env, cwd))
    if r[0] == "timeout":
        log("C17: TIMEOUT asl %s env=%s cwd=%s" % (" ".join(params), env, cwd))
    return r


# --------------------------------------------------------------------------
# (C) option placement: the same CODE-AFFECTING options on the command line, in ASCMD, in key files of every layout

PLACE_CPUS = ["z80", "8080", "8051", "8086", "z180"]
PLACE_REPORT = [["-u"], ["-C"], ["-x"], ["-s"], ["-A"], ["-n"], ["-x", "-x"], ["-I"], ["-r", "2"], ["-t", "3"]]


def gen_place_case(rng, cdir):
    """a small program whose code depends on every option of a random set of code-affecting options (-D in several spellings,
    -cpu, -i, -U, -relaxed) + some report options; returns (source text, list of option units)"""
    files = {}
    feats = [f for f in ["D1", "D2", "cpu", "inc", "U", "relaxed"] if rng.random() < 0.6]
    if len(feats) < 2:
        feats = rng.sample(["D1", "D2", "cpu", "inc", "U", "relaxed"], 2)
    src, units = [], []
    if "cpu" in feats:
        units.append([rng.choice(["-cpu", "-CPU", "-Cpu"]), rng.choice(PLACE_CPUS)])
    else:
        src.append("\tcpu\t" + rng.choice(PLACE_CPUS))
    src += ["\tifndef\tFILL", "FILL\tequ\t0ffh", "\tendif", "\tifndef\tBASE", "BASE\tequ\t1000h", "\tendif",
            "\tifndef\tEXTRA", "EXTRA\tequ\t1", "\tendif", "\torg\tBASE", "start:\tdb\tFILL,EXTRA", "\tdw\tstart"]
    if "D1" in feats:
        units.append(["-D", "FILL=%d" % rng.randrange(2, 250)])
    if "D2" in feats:
        base, extra = "BASE=%d" % rng.choice([0x2000, 0x300, 0x4440]), "EXTRA=%d" % rng.randrange(2, 250)
        if rng.random() < 0.5:
            units.append(["-D", base + "," + extra])
        else:
            units += [["-D", base], ["-D", extra]]
    if "inc" in feats:
        d = os.path.join(cdir, "inc%d" % rng.randrange(3))
        os.makedirs(d, exist_ok=True)
        files[os.path.join(d, "plc.inc")] = "INCV\tequ\t%d\n" % rng.randrange(1, 255)
        open(os.path.join(d, "plc.inc"), "w").write(files[os.path.join(d, "plc.inc")])
        units.append(["-i", d])
        src += ["\tinclude\t\"plc.inc\"", "\tdb\tINCV"]
    if "U" in feats:
        units.append(["-U"])
        src += ["Foo\tequ\t%d" % rng.randrange(1, 99), "foo\tequ\t%d" % rng.randrange(100, 199), "\tdb\tFoo,foo"]
    if "relaxed" in feats:
        units.append([rng.choice(["-relaxed", "-RELAXED"])])
        src.append("\tdb\t0x%02x" % rng.randrange(256))
    for u in rng.sample(PLACE_REPORT, rng.randrange(0, 4)):
        units.append(list(u))
    rng.shuffle(units)
    return "\n".join(src) + "\n", units, feats, files


def run_placement(bdir, wd, rng, n_cases, bump, spec_fail, samples):
    """returns the number of asl runs.  Per case: reference = all options on the command line; then ASCMD, key files (named on the
    command line / by ASCMD / both, options split between them) in random layouts, always including a file whose LAST line has no
    line end and one written with CR-LF; control = no options at all (must NOT give the reference code, otherwise the case says nothing)."""
    runs = 0
    pdir = os.path.join(wd, "place")
    os.makedirs(pdir, exist_ok=True)
    for ci in range(n_cases):
        cdir = os.path.join(pdir, "c%d" % ci)
        os.makedirs(cdir, exist_ok=True)
        text, units, feats, files = gen_place_case(rng, cdir)
        asm = os.path.join(cdir, "prog.asm")
        open(asm, "w").write(text)
        files[asm] = text
        flat = [p for u in units for p in u]

        def go(tag, argv_opts, env=None, keyfiles=None):
            outp = os.path.join(cdir, tag + ".p")
            argv = ["-q"] + list(argv_opts) + [asm, "-o", outp]
            rc, so, se = run_asl(bdir, cdir, argv, env=env)
            data = open(outp, "rb").read() if os.path.exists(outp) else None
            return dict(tag=tag, rc=rc, p=data, argv=argv, env=dict(env or {}), cwd=cdir, keyfiles=dict(keyfiles or {}),
                        out=(so + se).decode(errors="replace")[-400:])

        def keyfile(name, us, **kw):
            lines, mode = pack_lines(rng, [list(u) for u in us])
            t, _, desc = render_keyfile(rng, lines, **kw)
            path = os.path.join(cdir, name)
            open(path, "wb").write(t.encode("latin-1"))
            for k_, v_ in desc.items():
                if isinstance(v_, str):
                    bump("place:keyfile_layout:%s=%s" % (k_, v_))
            bump("place:keyfile_packing:" + mode)
            return path, {path: t.encode("latin-1").hex()}

        ref = go("argv", flat)
        ctl = go("control", [])
        runs += 2
        if ref["rc"] != 0 or ref["p"] is None:
            bump("place:reference_rejected")
            log("C17: placement reference rejected (%s): %s" % (" ".join(flat), ref["out"][-200:]))
            continue
        if ctl["p"] == ref["p"]:
            bump("place:insensitive_case")
            continue
        variants = [go("ascmd", [], env={"ASCMD": " ".join(flat)})]
        bump("place:via_ascmd")
        # key file on the command line: random layout, forced 'no final line end', forced CR-LF
        for tag, kw in (("kf_rand", {}), ("kf_nofinal", {"final": "none"}), ("kf_crlf", {"eol": "crlf"})):
            path, kfs = keyfile(tag + ".key", units, **kw)
            variants.append(go(tag, ["@" + path], keyfiles=kfs))
            bump("place:via_keyfile_argv")
        for tag, kw in (("ke_rand", {}), ("ke_nofinal", {"final": "none"})):
            path, kfs = keyfile(tag + ".key", units, **kw)
            variants.append(go(tag, [], env={"ASCMD": "@" + path}, keyfiles=kfs))
            bump("place:via_keyfile_ascmd")
        # split: first part in the key file named by ASCMD, middle on the command line, rest in a key file on the command line
        c1 = rng.randrange(0, len(units) + 1)
        c2 = rng.randrange(c1, len(units) + 1)
        kfs = {}
        argv_opts = [p for u in units[c1:c2] for p in u]
        env = {}
        if c1:
            path, k1 = keyfile("sp_env.key", units[:c1]); kfs.update(k1); env["ASCMD"] = "@" + path
        if c2 < len(units):
            path, k2 = keyfile("sp_argv.key", units[c2:]); kfs.update(k2); argv_opts += ["@" + path]
        variants.append(go("split", argv_opts, env=env, keyfiles=kfs))
        bump("place:via_split")
        runs += len(variants)
        bump("place:cases")
        for f in feats:
            bump("place:feature_" + f)
        for v in variants:
            if v["rc"] != ref["rc"] or v["p"] != ref["p"]:
                same_as_ctl = v["p"] == ctl["p"] and v["rc"] == ctl["rc"]
                spec_fail.append(dict(tag="option-placement:" + v["tag"], sig=None, source=text, source_text=text,
                                      why="the options %s give a different result when they are not on the command line (%s): rc %s vs %s, code file %s%s; %s"
                                          % (" ".join(flat), v["tag"], v["rc"], ref["rc"],
                                             "missing" if v["p"] is None else "differs" if v["p"] != ref["p"] else "equal",
                                             " - it equals the code assembled with NO options" if same_as_ctl else "", v["out"][-200:].strip()),
                                      files={k_: v_.encode("latin-1").hex() for k_, v_ in files.items()},
                                      baseline=dict(argv=ref["argv"], env={}, cwd=cdir),
                                      variant=dict(argv=v["argv"], env=v["env"], cwd=cdir, keyfiles=v["keyfiles"])))
        if ci == 0:
            samples.append(dict(kind="option-placement", options=" ".join(flat), features=feats, places=[v["tag"] for v in variants]))
        shutil.rmtree(cdir, ignore_errors=True)
    return runs


GEN_PROGS = [
    ("g68k", "\tcpu 68000\n\torg $1000\nstart:\tmove.w #$1234,d0\n\tdc.w $1234,$5678\n\tdc.l $89abcdef\n\tdc.b 1,2,3\n\tbra.s start\nfwd2:\tdc.w fwd-start\nfwd:\tnop\n\tend start\n"),
    ("gz80", "\tcpu z80\n\torg 100h\nl1:\tld a,5\n\tjp l2\n\tdb 1,2,3,\"abc\"\n\tdw l1,l2\nl2:\tret\nm\tmacro x\n\tdb x,x+1\n\tendm\n\tm 7\n\tm 9\n\tds 4\n\tdb 0ffh\n"),
    ("gc3x", "\tcpu 320c30\n\torg 0\n\tword 12345678h,9abcdef0h\n\tword 1\n\tbss 3\n\tword 0deadbeefh\n"),
    ("gpic", "\tcpu 16c84\n\torg 0\n\tmovlw 18\n\tdata 4660,1383\n\tres 2\n\tdata 1\n"),
    ("g6502", "\tcpu 6502\n\torg $200\nz1\tequ $10\n\tlda z1\n\tlda abs1\n\tjmp abs1\n\tbyt 1,2,3\nabs1:\trts\n\tif mompass>1\n\tbyt 9\n\tendif\n"),
    ("gsec", "\tcpu 8051\n\tsegment code\n\torg 0\nloc:\tmov a,#1\n\tsection s1\nin1:\tmov a,#2\n\tsjmp in1\n\tendsection\n\tsegment data\n\torg 30h\nv1:\tdb ?\n\tsegment code\n\tmov a,v1\n\tsjmp loc\n"),
]


SOURCE_SIGS = {"corpus_m16_shxl": "m16-shxl-uninitialised-extension-words"}


def gen_path_programs(rng, wd, n):
    """Sources whose statements make library calls FAIL on the way to success - files that are found only through the `-i` search
    path (the probe beside the source fails first), in front of lines that a report option copies in a way of its own (labelled
    macro calls with / without INTLABEL, -P's muted copy; labels alone; calls without label): what a report option does with the
    process state such a failed call leaves behind (errno) must not decide about the code file.  The library holds macro
    definitions, symbols or raw bytes; every shape is drawn at random."""
    out = []
    for k in range(n):
        d = os.path.join(wd, "gpath%d" % k)
        lib = os.path.join(wd, "gpathlib%d" % k)
        os.makedirs(d, exist_ok=True)
        os.makedirs(lib, exist_ok=True)
        cpu, org, db, nop = rng.choice([("z80", "100h", "db", "nop"), ("6502", "$200", "byt", "nop"), ("8051", "0", "db", "nop"), ("68000", "$1000", "dc.b", "nop")])
        macs = []
        for m in range(rng.randrange(1, 4)):
            intl = rng.random() < 0.3
            macs.append(("mc%d" % m, intl))
        libsrc = []
        for name, intl in macs:
            libsrc.append("%s\tmacro %sx\n%s\t%s x,x+1\n\tendm\n" % (name, "{INTLABEL}," if intl else "", "__LABEL__:" if intl else "", db))
        if rng.random() < 0.3:
            libsrc.append("libconst\tequ %d\n" % rng.randrange(1, 200))
        open(os.path.join(lib, "maclib%d.inc" % k), "w").write("".join(libsrc))
        open(os.path.join(lib, "raw%d.bin" % k), "wb").write(bytes(rng.randrange(256) for _ in range(rng.randrange(1, 40))))
        L = ["\tcpu %s\n\torg %s\n" % (cpu, org)]
        if rng.random() < 0.5:
            L.append("first:\t%s\n" % nop)
        L.append("\tinclude \"maclib%d.inc\"\n" % k)
        lab = 0
        for i in range(rng.randrange(2, 9)):
            r = rng.random() * (0.6 if i == 0 else 1.0)      # the line right behind the INCLUDE is mostly a call
            name, intl = rng.choice(macs)
            lab += 1
            if r < 0.45:
                L.append("lp%d:\t%s %d\n" % (lab, name, rng.randrange(0, 250)))          # label + call on one line
            elif r < 0.55 and not intl:
                L.append("lp%d:\n\t%s %d\n" % (lab, name, rng.randrange(0, 250)))
            elif r < 0.7 and not intl:
                L.append("\t%s %d\n" % (name, rng.randrange(0, 250)))
            elif r < 0.7:
                L.append("lp%d:\t%s %d\n" % (lab, name, rng.randrange(0, 250)))
            elif r < 0.85:
                L.append("\tbinclude \"raw%d.bin\"\n" % k)
            elif r < 0.93:
                L.append("; note %d\n" % i)
            else:
                L.append("lp%d:\t%s\n" % (lab, nop))
        L.append("\t%s 255\n" % db)
        a = os.path.join(d, "gpath%d.asm" % k)
        open(a, "w").write("".join(L))
        out.append(("gpath%d" % k, a, ["-i", lib]))
    return out


def run(args):
    res = common.Result("C17", args.tier, args.seed, "proof")
    # ReportFlow: the information-flow inventory of the report options, regenerated from the clang AST of every translation
    # unit of asl (translate/reportflow.py); a translator failure is a proof problem, the obligations are Props/C17_Flow.lean
    bdir, audit, proof_problems = common.standard_setup(res, "C17", ["AsParams", "ReportFlow"])
    if bdir is None:
        return res.finish()
    flow_stats, flow_bad = None, []
    try:
        from translate import reportflow
        inv = reportflow.inventory(bdir)
        flow_stats = reportflow.statistics(inv)
        flow_stats["rows_covered_by_exception_class"] = reportflow.exception_classes(inv)
        flow_bad = reportflow.unjustified(inv)
        flow_stats["rows_without_classification_or_exception"] = len(flow_bad)
    except Exception as ex:      # the verdict comes from the Lean obligation; this is the diagnostic view
        log("C17: report-flow statistics unavailable: %s" % ex)
    if flow_bad and not audit["ok"]:
        proof_problems.append("report-flow inventory: %d flow(s) from a report option into objects that are neither classified as report data "
                              "(lean/AslModel/Spec/ReportObjects.lean) nor listed as exception (Props/C17_Flow.lean): %s"
                              % (len(flow_bad), json.dumps(flow_bad[:12])))
    ok = not any(p.startswith("driver does not build") for p in proof_problems)
    rng = common.rng_for(args.seed, "C17")
    spec_fail, corr_fail, samples = [], [], []
    dist = dict()

    def bump(k, n=1):
        dist[k] = dist.get(k, 0) + n

    if flow_stats:
        for k, v in flow_stats.items():
            if isinstance(v, dict):
                for k2, v2 in v.items():
                    dist["flow:%s:%s" % (k, k2)] = v2
            elif isinstance(v, list):
                dist["flow:" + k] = ", ".join(v)
            else:
                dist["flow:" + k] = v

    idents = tables.as_param_idents(bdir)
    evaluations = 0
    distinct = set()

    with common.Workdir("c17") as wd:
        # ------------------------------------------------------------------ (B1) ProcessCMD probe vs model vs spec
        try:
            cmdprobe = build_cmd_probe(bdir, wd)
            asprobe = build_as_probe(bdir, wd)
        except tables.ExtractError as ex:
            proof_problems.append("probe: " + str(ex))
            cmdprobe = asprobe = None
        n_opt = {"quick": 4000, "thorough": 50000}[args.tier]
        if cmdprobe and ok:
            cases = fixed_key_cases(idents) + [gen_opt_case(rng, idents, i) for i in range(n_opt)]
            pw = os.path.join(wd, "probe")
            os.makedirs(pw, exist_ok=True)
            rc, real, err = run_probe(cmdprobe, bdir, pw, [c["req"] for c in cases])
            model = common.driver("c17opt", [c["req"] + (c["spec"] or " SE= SK=none") for c in cases])
            if rc != 0 or len(real) != len(cases):
                corr_fail.append(dict(tag="cmdprobe", why="probe ended with rc=%s after %d of %d cases: %s" % (rc, len(real), len(cases), err[-300:]),
                                      request=cases[min(len(real), len(cases) - 1)]["req"]))
            for c, r, m in zip(cases, real, model):
                evaluations += 1
                bump("opt:" + c["cls"])
                if c.get("layout"):
                    for k_, v_ in c["layout"].items():
                        bump("opt:keyfile_layout:%s%s" % (k_, "=" + v_ if isinstance(v_, str) else ""))
                kv = dict(x.split("=", 1) for x in m.split(" ") if "=" in x)
                mm = kv.get("m", "")
                mcore = ";".join(p for p in mm.split(";") if not p.startswith("nokey:") and not p.startswith("ub:"))
                ncalls = r.split(";")[0].count(".") // 3
                bump("opt:calls", ncalls)
                if ";errs:" in r and r.split(";errs:")[1]:
                    bump("opt:cases_with_rejects")
                if ".1.,".replace(",", "") in r or ".1." in r:
                    bump("opt:cases_with_negation_or_arg")
                if ncalls:
                    distinct.add(r)
                if c["spec"] is not None and strip_flags(r) != kv.get("s"):
                    spec_fail.append(dict(tag="option-sources:" + c["cls"], sig=None,
                                          why="ProcessCMD of the real cmdarg.c does not deliver what the parameter-list spec says",
                                          real=r, spec=kv.get("s"), request=c["req"]))
                elif r != mcore or "ub:1" in mm:
                    corr_fail.append(dict(tag="option-sources:" + c["cls"], why="real ProcessCMD trace differs from Model/CmdArg.lean",
                                          real=r, model=mm, request=c["req"]))
                if len(samples) < 2 and ncalls >= 3 and c["cls"] in ("multiline", "mixed"):
                    samples.append(dict(kind="option-sources", cls=c["cls"], request=c["req"][c["req"].index(" E="):], real_trace=r))

        if os.environ.get("C17_TIMES"):
            log("C17: section 'B1 option sources' done at %.1f s" % (__import__("time").time() - res.t0))
        # ------------------------------------------------------------------ (B2) DreheCodes probe vs model
        if asprobe and ok:
            reqs = []
            for i in range({"quick": 600, "thorough": 6000}[args.tier]):
                gran = rng.choice([1, 2, 2, 4, 4, 3, 8])
                g = rng.choice([1, 1, 2, 4])
                n = rng.choice([0, 1, 2, 3, 4, 5, 7, 8, 9, 15, 16, 17, 64, 255, 256, 1024])
                units = rng.randrange(0, n // g + 1) if n >= g else 0
                buf = bytes(rng.randrange(256) for _ in range(n))
                reqs.append("%d %d %d %s" % (gran, units * g, g, buf.hex() or "-"))
            rc, real, err = run_probe(asprobe, bdir, wd, reqs)
            model = common.driver("c17drehe", ["%s %s %s" % (q.split()[0], q.split()[1], q.split()[3]) for q in reqs])
            if rc != 0 or len(real) != len(reqs):
                corr_fail.append(dict(tag="drehe-probe", why="probe rc=%s, %d of %d answers: %s" % (rc, len(real), len(reqs), err[-300:])))
            for q, r, m in zip(reqs, real, model):
                evaluations += 1
                bump("drehe:gran%s" % q.split()[0])
                kv = dict(x.split("=", 1) for x in r.split())
                buf = q.split()[3]
                if kv.get("twice") != buf:
                    spec_fail.append(dict(tag="drehe", sig=None, why="DreheCodes applied twice does not restore the buffer", request=q, real=r))
                elif r != m:
                    corr_fail.append(dict(tag="drehe", why="real DreheCodes differs from Model/Drehe.lean", request=q, real=r, model=m))
                if kv.get("once") != buf:
                    distinct.add("d" + q)
            if real:
                samples.append(dict(kind="drehe", request=reqs[5], real=real[5] if len(real) > 5 else None))

        if os.environ.get("C17_TIMES"):
            log("C17: section 'B2 drehe' done at %.1f s" % (__import__("time").time() - res.t0))
        # ------------------------------------------------------------------ (C) differential on real asl
        tests = common.corpus_tests()
        if args.tier == "quick":
            pick = rng.sample(tests, min(36, len(tests)))
            n_cfg = 12
        else:
            pick = tests
            n_cfg = 12
        gens = []
        gdir = os.path.join(wd, "gen")
        os.makedirs(gdir, exist_ok=True)
        for name, src in GEN_PROGS:
            p = os.path.join(gdir, name + ".asm")
            open(p, "w").write(src)
            gens.append((name, p, []))
        for g in gen_path_programs(rng, wd, {"quick": 4, "thorough": 24}[args.tier]):
            gens.append(g)
            bump("diff:path_programs")
        cdir = os.path.join(common.VERIF, "corpus", "C17")
        if os.path.isdir(cdir):
            for f in sorted(os.listdir(cdir)):
                if f.endswith(".asm"):
                    gens.append(("corpus_" + f[:-4], os.path.join(cdir, f), []))
        inc = os.path.join(common.REPO, "include")
        n_src = 0
        t_diff = 0
        extra_notes = []
        for name, asm, flags in gens + pick:
            n_src += 1
            srng = common.rng_for(args.seed, "C17/" + name)
            allow_hex = not uses_stringified_numbers(asm)
            od = os.path.join(wd, "o_" + name)
            os.makedirs(od, exist_ok=True)
            # -L / -P / -M / -g write next to the *source*: work on a private copy of the source's directory
            # (never inside /repo); relative includes keep working because the whole directory is copied
            orig_asm = asm
            srcdir = os.path.join(od, "src")
            shutil.copytree(os.path.dirname(asm), srcdir)
            asm = os.path.join(srcdir, os.path.basename(asm))
            base = ["-q", "-i", inc] + list(flags)

            def assemble(tag, extra, cwd=None, env=None, via="argv", outname=None):
                outp = os.path.join(od, (outname or tag) + ".p")
                sh = os.path.join(od, (outname or tag) + ".inc")
                tail = [asm, "-o", outp, "-shareout", sh]
                params = base + list(extra)
                envd = dict(env or {})
                keyfiles = {}
                if via == "argv":
                    argv = params + tail
                elif via == "ascmd":
                    envd["ASCMD"] = " ".join(params)
                    argv = tail
                else:
                    # key file named on the command line ("keyfile") or by ASCMD ("keyascmd"), written in a random layout: one switch
                    # (with its argument) per line ... as many as the documented 255 characters per line allow; LF / CR-LF;
                    # last line with or without line end; empty lines; blanks before / between / after the parameters
                    kf = os.path.join(od, tag + ".key")
                    lines, _mode = pack_lines(srng, key_groups(params), mode=("one" if via == "keyfile" and srng.random() < 0.4 else None))
                    text, _, desc = render_keyfile(srng, lines)
                    with open(kf, "wb") as f:
                        f.write(text.encode("latin-1"))
                    keyfiles[kf] = text.encode("latin-1").hex()
                    for k_, v_ in desc.items():
                        if isinstance(v_, str):
                            bump("diff:keyfile_layout:%s=%s" % (k_, v_))
                    if via == "keyfile":
                        argv = ["@" + kf] + tail
                    else:
                        envd["ASCMD"] = "@" + kf
                        argv = tail
                rc, so, se = run_asl(bdir, cwd or od, argv, env=envd)
                data = open(outp, "rb").read() if os.path.exists(outp) else None
                return dict(tag=tag, rc=rc, p=data, sha=hashlib.sha256(data).hexdigest() if data is not None else None,
                            argv=argv, env=envd, cwd=cwd or od, out=outp, stdout=so, stderr=se, share=sh, keyfiles=keyfiles)

            b0 = assemble("base", [])
            evaluations += 1
            bump("diff:runs")
            if b0["rc"] != 0 or b0["p"] is None:
                bump("diff:baseline_rejected")
                log("C17: baseline of %s rejected: rc=%s %s" % (name, b0["rc"], (b0["stdout"] + b0["stderr"]).decode(errors="replace")[-200:]))
                continue
            osets, uncovered = report_option_sets(srng, name, n_cfg, allow_hex, allow_atmel=len(b0["p"]) < 12000)
            bump("diff:uncovered_pairs_per_source_sum", uncovered)
            variants = []
            for ci, sel in enumerate(osets):
                ps, side = render_options(sel, srng, od, "c%d" % ci)
                via = ["argv", "argv", "ascmd", "keyfile", "keyascmd"][srng.randrange(5)] if ci % 2 else "argv"
                if via != "argv" and (any(" " in p for p in ps) or any(len(p) > 240 for p in base + ps) or
                                      (via == "ascmd" and len(" ".join(base + ps + ["-q"])) > 1000)):
                    via = "argv"      # documented limits: 255 characters per key file line, ASCMD length
                env = {}
                if ci % 3 == 1:
                    loc = srng.choice(["de_DE", "en_US", "C"])
                    env = {"LANG": loc, "LC_ALL": loc}
                cwd = None
                if ci % 4 == 2:
                    cwd = os.path.join(od, "elsewhere")
                    os.makedirs(cwd, exist_ok=True)
                variants.append(("c%d" % ci, ps, cwd, env, via, sel))
            # language only, cwd only, output path only
            variants.append(("lang_de", [], None, {"LANG": "de_DE", "LC_ALL": "de_DE"}, "argv", []))
            variants.append(("lang_en", ["-L"], None, {"LANG": "en_US", "LC_ALL": "en_US"}, "argv", ["L"]))
            outs = {}
            for tag, ps, cwd, env, via, sel in variants:
                # options that swallow the next parameter must not be last before the source: end with -q
                v = assemble(tag, ps + ["-q"], cwd=cwd, env=env, via=via,
                             outname=(tag + "_deep/dir/x" if tag == "c0" else None) if False else None)
                evaluations += 1
                bump("diff:runs")
                bump("diff:via_" + via)
                for o in sel:
                    bump("opt_on:" + o)
                if env:
                    bump("diff:lang_" + env["LANG"])
                if cwd:
                    bump("diff:other_cwd")
                outs[tag] = v
                if v["sha"] != b0["sha"] or v["rc"] != b0["rc"]:
                    sig = None
                    if "SPLITBYTE" in sel and v["rc"] == 2 and v["p"] is None:
                        # known finding: is -SPLITBYTE alone responsible?
                        ps2, k = [], 0
                        while k < len(ps):
                            if ps[k] == "-SPLITBYTE":
                                k += 2
                                continue
                            ps2.append(ps[k]); k += 1
                        v2 = assemble(tag + "_nosplit", ps2 + ["-q"], cwd=cwd, env=env, via=via)
                        if v2["sha"] == b0["sha"] and v2["rc"] == b0["rc"]:
                            # the assembly *fails* (no silently different code) and -SPLITBYTE alone is responsible
                            sig = "splitbyte-leaks-into-number-to-text-conversions"
                            bump("diff:splitbyte_rejections")
                    spec_fail.append(dict(tag="report-options:" + name, sig=sig, source_text=(open(asm).read() if not name.startswith("t_") else None),
                                          why="code file differs from the baseline (sha %s vs %s, rc %s vs %s)" % (v["sha"], b0["sha"], v["rc"], b0["rc"]),
                                          source=orig_asm, baseline=dict(argv=b0["argv"], env=b0["env"], cwd=b0["cwd"]),
                                          variant=dict(argv=v["argv"], env=v["env"], cwd=v["cwd"], options=sel, via=via, keyfiles=v["keyfiles"]),
                                          stdout=(v["stdout"] + v["stderr"]).decode(errors="replace")[-600:]))
                else:
                    t_diff += 1
            distinct.add("src:" + name)
            # repeated run of the richest listing configuration: listing / MAP / share reproducible modulo time stamps
            rich = None
            for tag, ps, cwd, env, via, sel in variants:
                if "L" in sel and "OLIST" not in sel and via == "argv" and not cwd:
                    if rich is None or len(sel) > len(rich[5]):
                        rich = (tag, ps, cwd, env, via, sel)
            if rich is None:
                rich = ("rich", ["-L", "-u", "-C", "-s", "-g", "MAP"], None, {}, "argv", ["L", "u", "C", "s", "gMAP"])
            stem = os.path.splitext(asm)[0]
            def collect(v):
                files = {}
                for ext in (".lst", ".map", ".noi", ".obj", ".i", ".mac", ".inc"):
                    for cand in (os.path.splitext(v["out"])[0] + ext, stem + ext, v["share"] if ext == ".inc" else None):
                        if cand and os.path.exists(cand):
                            files[ext] = normalise(open(cand, "rb").read())
                            if cand.startswith(stem):
                                os.unlink(cand)
                return files
            def clean():
                for ext in (".lst", ".map", ".noi", ".obj", ".i", ".mac", ".inc", ".p"):
                    for cand in (stem + ext, os.path.join(od, "rep1" + ext)):
                        if os.path.exists(cand):
                            os.unlink(cand)
            clean()
            r1 = assemble("rep1", rich[1] + ["-q"], env=rich[3])
            f1 = collect(r1)
            clean()
            r2 = assemble("rep1", rich[1] + ["-q"], env=rich[3])
            f2 = collect(r2)
            evaluations += 2
            bump("diff:runs", 2)
            bump("diff:repeat_files_compared", len(f1))
            # determinism: the two repetitions and the run of the same configuration in the loop above must agree; the comparison of
            # that configuration with the BASELINE was made (and attributed) in the loop - repeating it here without the attribution
            # reported the known -SPLITBYTE rejection a second time as an unattributed violation (false alarm at seed 5)
            if r1["sha"] != r2["sha"] or r1["sha"] != outs[rich[0]]["sha"]:
                spec_fail.append(dict(tag="repeat:" + name, sig=None, why="repeated run changes the code file", source=asm, variant=dict(argv=r1["argv"])))
            for ext in sorted(set(f1) | set(f2)):
                if f1.get(ext) != f2.get(ext) and ext not in (".lst", ".map", ".inc"):
                    # outputs the statement does not name (NoICE/ATMEL debug files, -P/-M outputs): recorded, not judged
                    # (the ATMEL file's defect has its own deterministic probe and known-finding entry below)
                    bump("diff:unstated_output_not_reproducible:" + ext)
                    if len(extra_notes) < 3:
                        extra_notes.append("%s of %s differs between two identical runs (%s)" % (ext, name, " ".join(a for a in r1["argv"] if a.startswith("-") or a in ("MAP", "ATMEL", "NOICE"))[:120]))
                elif f1.get(ext) != f2.get(ext):
                    spec_fail.append(dict(tag="repeat:" + name, sig=None, why="%s output differs between two identical runs (after normalising date/time)" % ext,
                                          source=asm, variant=dict(argv=r1["argv"], env=r1["env"], cwd=r1["cwd"])))
            # output path variant: -o into a deeper directory, relative path, from another cwd
            deep = os.path.join(od, "deep", "er")
            os.makedirs(deep, exist_ok=True)
            rc, so, se = run_asl(bdir, deep, base + [asm, "-o", "rel.p", "-shareout", "rel.inc"])
            evaluations += 1
            bump("diff:runs")
            dp = os.path.join(deep, "rel.p")
            d = open(dp, "rb").read() if os.path.exists(dp) else None
            if d != b0["p"]:
                spec_fail.append(dict(tag="outpath:" + name, sig=None, why="code file differs when written through a relative -o path from another directory",
                                      source=asm, baseline=dict(argv=b0["argv"]), variant=dict(argv=base + [asm, "-o", "rel.p"], cwd=deep)))
            if len(samples) < 5 and name.startswith("t_"):
                samples.append(dict(kind="differential", source=asm, configurations=len(variants) + 4, sha=b0["sha"][:16],
                                    example_variant=" ".join(variants[1][1]) + " via " + variants[1][4]))
            shutil.rmtree(od, ignore_errors=True)
            if os.environ.get("C17_TIMES"):
                log("C17: %s done at %.1f s" % (name, __import__("time").time() - res.t0))
        bump("diff:sources", n_src)
        bump("diff:identical_code_files", t_diff)

        if os.environ.get("C17_TIMES"):
            log("C17: section 'C differential' done at %.1f s" % (__import__("time").time() - res.t0))
        # ------------------------------------------------------------------ (C2) placement of code-affecting options
        evaluations += run_placement(bdir, wd, common.rng_for(args.seed, "C17/place"), {"quick": 40, "thorough": 600}[args.tier],
                                     bump, spec_fail, samples)

        if os.environ.get("C17_TIMES"):
            log("C17: section 'C2 placement' done at %.1f s" % (__import__("time").time() - res.t0))
        # ------------------------------------------------------------------ (B3) pipeline model payload vs real .p (68000/C3x/Z80 data lines)
        if ok:
            preqs, pmeta = [], []
            for i in range({"quick": 40, "thorough": 400}[args.tier]):
                tgt = rng.choice(["68000", "320c30", "z80"])
                lines, mlines, payload = [], [], b""
                for _ in range(rng.randrange(1, 9)):
                    if tgt == "68000":
                        k = rng.choice(["w", "l"])
                        vals = [rng.randrange(1 << (16 if k == "w" else 32)) for _ in range(rng.randrange(1, 5))]
                        lines.append("\tdc.%s %s" % (k, ",".join("$%x" % v for v in vals)))
                        be = b"".join(v.to_bytes(2 if k == "w" else 4, "big") for v in vals)
                        # WAsmCode holds 16-bit words in host order (little endian): memory image = byte pairs swapped
                        mem = b"".join(be[j:j + 2][::-1] for j in range(0, len(be), 2))
                        mlines.append("%d:%s:0" % (len(be), mem.hex()))
                        payload += be
                    elif tgt == "320c30":
                        vals = [rng.randrange(1 << 32) for _ in range(rng.randrange(1, 4))]
                        lines.append("\tword %s" % ",".join("0%xh" % v for v in vals))
                        mem = b"".join(v.to_bytes(4, "little") for v in vals)
                        mlines.append("%d:%s:0" % (len(vals), mem.hex()))
                        payload += mem
                    else:
                        vals = [rng.randrange(256) for _ in range(rng.randrange(1, 6))]
                        lines.append("\tdb %s" % ",".join(str(v) for v in vals))
                        mlines.append("%d:%s:0" % (len(vals), bytes(vals).hex()))
                        payload += bytes(vals)
                hdr = {"68000": "\tcpu 68000\n\tpadding off\n", "320c30": "\tcpu 320c30\n", "z80": "\tcpu z80\n"}[tgt]
                cfg = {"68000": "1 2 1", "320c30": "0 4 4", "z80": "0 1 1"}[tgt]
                src = hdr + "\torg 0\n" + "\n".join(lines) + "\n"
                f = os.path.join(wd, "pipe%d.asm" % i)
                open(f, "w").write(src)
                outp = os.path.join(wd, "pipe%d.p" % i)
                rc, so, se = run_asl(bdir, wd, ["-q", "-L", "-u", "-C", "-g", "MAP", f, "-o", outp])
                data = open(outp, "rb").read() if os.path.exists(outp) else b""
                items = common.parse_pfile_py(data) or []
                realpay = b"".join(it[5] for it in items if it[0] == "D")
                preqs.append(cfg + " " + " ".join(mlines))
                pmeta.append((src, payload, realpay, tgt))
            answers = common.driver("c17pipe", preqs)
            for (src, payload, realpay, tgt), q, a in zip(pmeta, preqs, answers):
                evaluations += 1
                bump("pipe:" + tgt)
                kv = dict(x.split("=", 1) for x in a.split() if "=" in x)
                mo = bytes.fromhex(kv.get("on", "-").replace("-", ""))
                if realpay != payload:
                    spec_fail.append(dict(tag="pipe:" + tgt, sig=None, why="code file payload is not the bytes the data statements specify (under -L -u -C -g MAP)", source=src))
                elif mo != realpay or kv.get("same") != "1":
                    corr_fail.append(dict(tag="pipe:" + tgt, why="pipeline model payload differs from the real code file", source=src, model=a[:300]))

        # ------------------------------------------------------------------ probes for the two known findings (deterministic witnesses)
        f = os.path.join(wd, "many.asm")
        open(f, "w").write("\tcpu 6502\n\tnop\n")
        many = ["-q"] * 300
        rc_a, _, _ = run_asl(bdir, wd, many + [f, "-o", os.path.join(wd, "many_a.p")])
        rc_e, _, _ = run_asl(bdir, wd, [f, "-o", os.path.join(wd, "many_e.p")], env={"ASCMD": " ".join(many)})
        evaluations += 2
        pa = os.path.exists(os.path.join(wd, "many_a.p")) and open(os.path.join(wd, "many_a.p"), "rb").read()
        pe = os.path.exists(os.path.join(wd, "many_e.p")) and open(os.path.join(wd, "many_e.p"), "rb").read()
        bump("finding_probe:argv_rc_%s" % rc_a)
        bump("finding_probe:ascmd_rc_%s" % rc_e)
        if rc_a == 0 and (rc_e != 0 or pa != pe):
            spec_fail.append(dict(tag="option-placement", sig="ascmd-more-than-255-parameters-overrun-envstr",
                                  why="300 parameters work on the command line (rc 0) but the same parameters in ASCMD end with rc=%s and %s code file" % (rc_e, "a different" if pe else "no"),
                                  source="\tcpu 6502\n\tnop\n", baseline=dict(argv=["-q"] * 300 + ["many.asm"]), variant=dict(env={"ASCMD": "-q " * 299 + "-q"}, argv=["many.asm"])))
        fsrc = "\tcpu z80\nlow8\tfunction x,x&255\n\tdb low8(372)\n"
        f = os.path.join(wd, "func.asm")
        open(f, "w").write(fsrc)
        rc_b, _, _ = run_asl(bdir, wd, ["-q", f, "-o", os.path.join(wd, "func_b.p")])
        rc_s, so_s, se_s = run_asl(bdir, wd, ["-q", "-SPLITBYTE", ":", "-q", f, "-o", os.path.join(wd, "func_s.p")])
        evaluations += 2
        pb = os.path.exists(os.path.join(wd, "func_b.p")) and open(os.path.join(wd, "func_b.p"), "rb").read()
        psb = os.path.exists(os.path.join(wd, "func_s.p")) and open(os.path.join(wd, "func_s.p"), "rb").read()
        bump("finding_probe:function_splitbyte_rc_%s" % rc_s)
        if rc_b == 0 and (rc_s != 0 or pb != psb):
            spec_fail.append(dict(tag="report-options:function", sig="splitbyte-leaks-into-number-to-text-conversions",
                                  why="a source without \\{...} that calls a user-defined FUNCTION assembles (rc 0) but fails under -SPLITBYTE (rc=%s): %s" % (rc_s, (so_s + se_s).decode(errors="replace")[-160:]),
                                  source=fsrc, baseline=dict(argv=["-q", "many.asm"]), variant=dict(argv=["-q", "-SPLITBYTE", ":", "-q", "many.asm"])))

        # -g ATMEL on a target whose code is counted in bytes: asmdebug.c AddLineInfo writes one record per unit of CodeLen and takes
        # WAsmCode[z] (16-bit words) for it, i.e. it reads 2*CodeLen bytes of the code buffer although CodeLen bytes were generated.
        # The property statement names listing, MAP and share as reproducible outputs; the ATMEL object file is the same debug
        # information as MAP in another format, and what ends up in it here is whatever the heap held (read beyond the generated
        # code, for longer lines beyond the allocated buffer) - recorded as a known finding, not silently as a note.
        asrc = "\tcpu z80\n\torg 100h\nl1:\tld a,5\n\tjp l2\n\tdb 1,2,3,\"abc\"\n\tdw l1,l2\nl2:\tret\n"
        f = os.path.join(wd, "atm.asm")
        open(f, "w").write(asrc)
        objs, codes, maps = [], [], []
        for i in range(3):
            for fmt, coll, ext in (("ATMEL", objs, ".obj"), ("MAP", maps, ".map")):
                dbg = os.path.join(wd, "atm" + ext)
                if os.path.exists(dbg):
                    os.unlink(dbg)
                outp = os.path.join(wd, "atm_%s%d.p" % (fmt, i))
                rc, so, se = run_asl(bdir, wd, ["-q", "-g", fmt, "-q", f, "-o", outp])
                evaluations += 1
                codes.append((rc, open(outp, "rb").read() if os.path.exists(outp) else None))
                for cand in (dbg, os.path.splitext(outp)[0] + ext):
                    if os.path.exists(cand):
                        coll.append(normalise(open(cand, "rb").read()))
                        os.unlink(cand)
                        break
        bump("finding_probe:atmel_obj_distinct_contents_in_3_runs", len(set(objs)))
        if len(set(codes)) != 1 or len(set(maps)) > 1:
            spec_fail.append(dict(tag="repeat:debug-probe", sig=None, why="code file / MAP file differ between identical runs with -g ATMEL / -g MAP",
                                  source=asrc, baseline=dict(argv=["-q", "many.asm"]), variant=dict(argv=["-q", "-g", "MAP", "-q", "many.asm"])))
        elif len(set(objs)) > 1:
            spec_fail.append(dict(tag="repeat:debug-probe", sig="atmel-debug-file-reads-code-buffer-beyond-generated-code",
                                  why="three identical runs of asl -g ATMEL on a Z80 source write %d different .obj files (same code file, same MAP file with -g MAP)" % len(set(objs)),
                                  source=asrc, baseline=dict(argv=["-q", "-g", "ATMEL", "-q", "many.asm"]), variant=dict(argv=["-q", "-g", "ATMEL", "-q", "many.asm"])))

        # report options that request additional *warnings* (-u: overlapping memory usage, -r: what forces another pass) under -WERROR
        for tag, opt, psrc in (("u", ["-u"], "\tcpu z80\n\torg 100h\n\tdb 1,2,3\n\torg 101h\n\tdb 9\n"),
                               ("r", ["-r"], "\tcpu 6502\n\torg $200\n\tlda fwd\n\tjmp fwd\n\torg $80\nfwd:\tnop\n")):
            f = os.path.join(wd, "werr_%s.asm" % tag)
            open(f, "w").write(psrc)
            outs = {}
            for name, extra in (("plain", []), ("opt", opt), ("werror", ["-WERROR"]), ("both", opt + ["-WERROR"])):
                outp = os.path.join(wd, "werr_%s_%s.p" % (tag, name))
                rc, so, se = run_asl(bdir, wd, ["-q"] + extra + ["-q", f, "-o", outp])
                evaluations += 1
                outs[name] = (rc, open(outp, "rb").read() if os.path.exists(outp) else None, (so + se).decode(errors="replace")[-200:])
            bump("finding_probe:%s_werror_rc_%s" % (tag, outs["both"][0]))
            if outs["plain"][:2] != outs["opt"][:2]:
                spec_fail.append(dict(tag="report-options:werror-probe", sig=None, why="-%s alone changes the code file / exit status" % tag, source=psrc,
                                      baseline=dict(argv=["-q", "many.asm"]), variant=dict(argv=["-q"] + opt + ["-q", "many.asm"])))
            elif outs["werror"][0] == 0 and outs["werror"][:2] != outs["both"][:2]:
                spec_fail.append(dict(tag="report-options:werror-probe", sig="report-option-warning-becomes-error-under-werror",
                                      why="with -WERROR the source assembles (rc 0, code file written); adding the report option -%s gives rc=%s and %s code file: %s"
                                          % (tag, outs["both"][0], "a different" if outs["both"][1] else "no", outs["both"][2].strip()),
                                      source=psrc, baseline=dict(argv=["-q", "-WERROR", "-q", "many.asm"]),
                                      variant=dict(argv=["-q"] + opt + ["-WERROR", "-q", "many.asm"])))

    res.coverage = common.proof_coverage(audit, "C17", [
        "translate/reportflow.py gen_reportflow (clang-14 JSON AST of all translation units of asl: syntactic, flow-insensitive taint inventory; calls through "
        "function pointers by name, libc by table; joined with the hand-written classification Spec/ReportObjects.lean by Props/C17_Flow.lean)",
        "translate/tables.py gen_asparams (ASParams names via clang AST; handler results on an empty argument via a probe linked against as.c.o)",
        "correspondence (differential testing): cmdarg.o ProcessCMD with logging handlers vs Model/CmdArg.lean; real DreheCodes() vs Model/Drehe.lean; pipeline payload vs real .p",
        "DIFFERENTIAL part (not proof): identical .p across report-option subsets / cwd / -o / LANG / option placement / repeated runs"])
    res.coverage.update(
        evaluations=evaluations, distinct_nontrivial=len(distinct),
        rule="option cases: random tables over the regenerated ASParams names x 10 source classes (argv, ASCMD, key file via ASCMD / argv, mixed, multi-line, dirty separators, nested reference, "
             "key file layouts [line ends, final line end or none, empty/comment lines, blanks, lines up to 255 characters, nested references], dirty key files [tabs, CR, Ctrl-Z, NUL, overlong lines; model vs real only]), "
             "non-trivial = at least one handler call, distinct by trace; DreheCodes: non-trivial = buffer actually changed; differential: one entry per source assembled under all its configurations",
        samples=samples, distribution=dist)
    res.notes += extra_notes
    res.assumptions = ["the differential part samples configurations (pairwise cover of the report options per source, not all subsets)",
                       "LANG/LC_ALL values without a codeset suffix (C, de_DE, en_US) as in the property statement",
                       "-h / -SPLITBYTE only for sources without \\{...}",
                       "key files: lines of at most 255 characters, parameters separated by blanks (tabs, control characters, longer lines: model vs real only, the manual says nothing); "
                       "lines starting with ';' are comments for cmdarg.c - not in the manual, the spec is not shown them",
                       "report-flow inventory: syntactic, flow-insensitive taint over the typed AST of the build configuration in use; calls through "
                       "function pointers resolved by name, heap objects keyed by record type and field, libc by a table; the printf core and the "
                       "message emitters are summarised (Spec/ReportObjects.lean); it shows where report options CAN reach, it does not prove C semantics"]
    # defects that make one particular regression source irreproducible whatever is compared: attributed by source
    for f in spec_fail:
        for src, sig in SOURCE_SIGS.items():
            if f.get("sig") is None and f.get("tag", "").endswith(":" + src):
                f["sig"] = sig
    # report one failure of every kind first (common.conclude prints the first five)
    seen_kinds, first, rest = set(), [], []
    for f in spec_fail:
        kind = f.get("tag", "").split(":")[0]
        (rest if kind in seen_kinds else first).append(f)
        seen_kinds.add(kind)
    spec_fail = first + rest
    return common.conclude(res, proof_problems, spec_fail, corr_fail, evaluations)


def replay(args):
    d = json.load(open(args.replay))
    print(json.dumps({k: (v if len(str(v)) < 3000 else str(v)[:3000] + "...") for k, v in d.items()}, indent=1))
    bdir = common.repo_build("hooks")
    with common.Workdir("c17r") as wd:
        if "request" in d and d.get("tag", "").startswith("option-sources"):
            exe = build_cmd_probe(bdir, wd)
            print("real :", run_probe(exe, bdir, wd, [d["request"]])[1])
            print("model:", common.driver("c17opt", [d["request"] + " SE= SK=none"]))
        elif "request" in d and d.get("tag") == "drehe":
            exe = build_as_probe(bdir, wd)
            print("real :", run_probe(exe, bdir, wd, [d["request"]])[1])
        elif "variant" in d:
            src = d.get("source", "")
            if not os.path.exists(src):
                p = os.path.join(wd, "many.asm")
                open(p, "w").write(src)
                src = p
            shas = {}
            m0 = re.search(r"(/[^\s\"]*?/w-c17-\d+-\d+)/", json.dumps(d))
            oldroot = m0.group(1) if m0 else None
            for fp, fhex in (d.get("files") or {}).items():          # source + include files of a placement case
                fp2 = fp.replace(oldroot, wd) if oldroot else fp
                os.makedirs(os.path.dirname(fp2), exist_ok=True)
                open(fp2, "wb").write(bytes.fromhex(fhex))
            for which in ("baseline", "variant"):
                c = d.get(which) or {}
                old = None
                for a in list(c.get("argv", [])) + [c.get("cwd") or ""] + list((c.get("env") or {}).values()):
                    m = re.search(r"(/\S*?/w-c17-\d+-\d+)/(o_[^/]+)", str(a))
                    if m:
                        old = m
                        break
                def fix(a):
                    a = str(a)
                    if old:
                        a = a.replace(old.group(1), wd)
                    elif oldroot:
                        a = a.replace(oldroot, wd)
                    return src if a == "many.asm" else a
                if old:
                    od = os.path.join(wd, old.group(2))
                    if not os.path.isdir(os.path.join(od, "src")):
                        os.makedirs(od, exist_ok=True)
                        if os.path.exists(d.get("source", "")):
                            shutil.copytree(os.path.dirname(d["source"]), os.path.join(od, "src"))
                        else:
                            os.makedirs(os.path.join(od, "src"))
                            open(os.path.join(od, "src", os.path.basename(d.get("source", "x.asm"))), "w").write(d.get("source_text", ""))
                for kp, khex in (c.get("keyfiles") or {}).items():      # key files of the original run, byte for byte
                    kp2 = fix(kp)
                    os.makedirs(os.path.dirname(kp2), exist_ok=True)
                    kbytes = bytes.fromhex(khex)
                    if oldroot:                     # paths inside the key file (-i, -OLIST, -E) point into the original scratch directory
                        kbytes = kbytes.replace(oldroot.encode(), wd.encode())
                    open(kp2, "wb").write(kbytes)
                    print("key file %s: %r" % (kp2, kbytes))
                argv = [fix(a) for a in c.get("argv", [src])]
                env = {k: fix(v) for k, v in (c.get("env") or {}).items()}
                for v in env.values():       # key file named by ASCMD
                    if v.startswith("@") and not os.path.exists(v[1:]):
                        print("(key file of the original run is gone; option placement via key file cannot be replayed exactly)")
                cwd = fix(c.get("cwd")) if c.get("cwd") else wd
                os.makedirs(cwd, exist_ok=True)
                rc, so, se = run_asl(bdir, cwd, argv, env=env)
                outp = argv[argv.index("-o") + 1] if "-o" in argv else None
                if outp and not os.path.isabs(outp):
                    outp = os.path.join(cwd, outp)
                sha = hashlib.sha256(open(outp, "rb").read()).hexdigest() if outp and os.path.exists(outp) else None
                shas[which] = (rc, sha)
                print(which, "rc =", rc, "sha =", sha, (so + se).decode(errors="replace")[-300:])
            print("REPRODUCED" if shas.get("baseline") != shas.get("variant") else "not reproduced")
    return 0
