"""C11, context of an expansion (called from c11.run): the current file name and the most recent label.

What is kept across input tags and must not depend on the construct a statement comes out of:
 * the file an INCLUDE/BINCLUDE statement names: the manual's rule is lexical (directory of the source file containing the statement first,
   then the -i list; a name with a path specification only in that directory).  Programs spread over several directories, the same file names
   with different contents in every directory (decoys) and on the -i list, INCLUDE/BINCLUDE statements at file level and issued from MACRO /
   REPT / IRP / IRPN / IRPC / WHILE bodies (also nested, also from included files), followed by further relative INCLUDE/BINCLUDE statements
   in the including file and in later iterations; main file in the working directory or below it, -i entries relative or absolute, names
   bare, with sub-directories, with `..`, absolute.
 * the label in front of a construct: on the line that opens it (macro call, REPT, IRP, IRPN, IRPC, WHILE) or alone on the line before, at
   even and odd addresses, on targets that insert pad bytes (68000, MSP430, TMS9900, 6809: padding on by default; H8/300: off by default;
   each with no PADDING statement, PADDING ON and PADDING OFF; Z80 as the target without padding), first body statement byte- or word-sized
   or an instruction, the label referenced afterwards; every construct kind x label position x first statement once per run as a fixed
   program (fixed_label_program), the rest random.

(B) Model/TagsCtx.lean (tag chain with SpecName/SaveAttr, FSearch by path components, Produce_Code's label memory + InsertPadding; driver
    `c11ctx`) computes the code image of the construct program; compared byte for byte with the real code file.  The same code generator part
    run on the SPEC's hand expansion vs the real code file of the hand expansion.
(C) SPEC Spec/MacroCtx.lean `expand` (structural, the file of a statement is the file it is written in, a label of an opening line becomes a
    line of its own) gives the hand expansion; it is rendered to a single source file (no INCLUDE, no construct; BINCLUDE as data bytes) and
    assembled by the real asl; the code file of the construct program must be identical.
Known finding replayed here: the INCLUDE statement forgets the label in front of it (quirk `inclResetsLabel`, probed each run).
"""
import os
import shutil
import time

from .. import common

SIG_INCL = "label-before-include-stays-on-pad-byte"
SIG_MDEF = "label-before-macro-definition-stays-on-pad-byte"
SIG_SHIFT = "label-before-shift-stays-on-pad-byte"


def hx(b):
    return bytes(b).hex() if b else "-"


# --------------------------------------------------------------------------
# targets: how the abstract statements are written

def _w(big, v):
    return [(v >> 8) & 255, v & 255] if big else [v & 255, (v >> 8) & 255]


TARGETS = {
    # (PADDING is on by default for the 68000, MSP430, TMS9900 and 6809 code generators, off for the H8)
    # name: cpu, padding by default, byte pseudo-op, word pseudo-op, big endian, data words are aligned under PADDING, instructions (text, bytes, aligned), refs (pseudo-op, size)
    "68000": dict(cpu="68000", pad_default=True, can_pad=True, byte="dc.b", word="dc.w", big=True, word_al=True,
                  insn=[("nop", [0x4e, 0x71], True), ("rts", [0x4e, 0x75], True), ("moveq #5,d1", [0x72, 0x05], True)],
                  refs=[("dc.l", 4), ("dc.w", 2)]),
    "msp430": dict(cpu="msp430", pad_default=True, can_pad=True, byte="byte", word="word", big=False, word_al=True,
                   insn=[("nop", [0x03, 0x43], True)], refs=[("word", 2)]),
    "tms9900": dict(cpu="tms9900", pad_default=True, can_pad=True, byte="byte", word="word", big=True, word_al=True, insn=[], refs=[("word", 2)]),
    "6809": dict(cpu="6809", pad_default=True, can_pad=True, byte="dc.b", word="dc.w", big=True, word_al=True,
                 insn=[("nop", [0x12], False), ("clra", [0x4f], False)], refs=[("dc.w", 2)]),
    "h8/300": dict(cpu="h8/300", pad_default=False, can_pad=True, byte="dc.b", word="dc.w", big=True, word_al=True, insn=[], refs=[("dc.w", 2)]),
    "z80": dict(cpu="z80", pad_default=False, can_pad=False, byte="db", word="dw", big=False, word_al=False,
                insn=[("nop", [0x00], False), ("ld a,7", [0x3e, 0x07], False)], refs=[("dw", 2)]),
}
TARGET_PICK = ["68000", "68000", "68000", "68000", "msp430", "tms9900", "6809", "h8/300", "z80", "z80"]

LEAF_NAMES = ["part.inc", "tail.inc", "t.inc"]
MID_NAMES = ["mid.inc", "blk.inc"]
BIN_NAMES = ["blob.bin", "d.bin"]
DIRS = ["", "sub", "sub/deep", "lib", "inc1", "inc2", "proj"]
KINDS = ["m", "r", "i", "n", "c", "w"]
KIND_NAME = dict(m="macro", r="rept", i="irp", n="irpn", c="irpc", w="while")


def norm(parts):
    out = []
    for c in parts:
        if c in ("", "."):
            continue
        if c == "..":
            if out:
                out.pop()
        else:
            out.append(c)
    return out


def relpath(frm, to):
    """a spelling of directory `to` as seen from directory `frm` (both lists of components)"""
    i = 0
    while i < len(frm) and i < len(to) and frm[i] == to[i]:
        i += 1
    return [".."] * (len(frm) - i) + to[i:]


class Prog:
    """one generated program: files, the construct tree of every text file, the statement texts"""

    def __init__(self, rng, mode):
        self.rng = rng
        self.mode = mode                    # 'files' (search context), 'labels' (labels in front of constructs), 'mixed'
        self.tname = rng.choice(TARGET_PICK) if mode != "files" else rng.choice(["z80", "z80", "68000", "msp430"])
        if mode == "labels" and self.tname == "z80" and rng.random() < 0.7:
            self.tname = "68000"
        self.t = TARGETS[self.tname]
        self.padmode = rng.choice(["default", "on", "on", "off"]) if self.t["can_pad"] else "default"
        if mode == "labels" and self.t["can_pad"] and not self.t["pad_default"] and rng.random() < 0.8:
            self.padmode = "on"
        self.pad = self.t["can_pad"] and (self.padmode == "on" or (self.padmode == "default" and self.t["pad_default"]))
        self.texts = {}                     # statement id -> text ('{L}' stands for the referenced label)
        self.nid = 0
        self.nlab = 0
        self.ncon = 0
        self.macros = []                    # (name, body nodes)
        self.files = {}                     # (dir tuple, name) -> ('T', nodes) | ('B', bytes)
        self.stats = dict(incl=0, incl_in_body=0, incl_other_dir=0, bincl=0, bincl_in_body=0, after_body_incl=0, decoys=0, labels_on_open=0,
                          labels_before_open=0, refs=0, loops=0, kinds={}, label_on_incl=0, abs_names=0, dotdot=0, via_incpath=0, unresolved=0,
                          aligned_first=0, odd_bias=0)
        self.main_dir = ()
        self.incdirs = []
        self.incdirs_abs = False
        self.build()

    # ---- statements
    def sid(self, text):
        self.nid += 1
        self.texts[self.nid] = text
        return self.nid

    def newlab(self):
        self.nlab += 1
        return self.nlab

    def st_byte(self, lab=None, odd=None):
        rng = self.rng
        n = rng.choice([1, 1, 2, 3]) if odd is None else rng.choice([1, 3])
        bs = [rng.randrange(1, 256) for _ in range(n)]
        return ("S", self.sid("%s %s" % (self.t["byte"], ",".join(str(b) for b in bs))), lab, ("c", False, bs))

    def st_word(self, lab=None):
        rng = self.rng
        ws = [rng.randrange(1, 65536) for _ in range(rng.choice([1, 1, 2]))]
        bs = []
        for w in ws:
            bs += _w(self.t["big"], w)
        return ("S", self.sid("%s %s" % (self.t["word"], ",".join(str(w) for w in ws))), lab, ("c", self.t["word_al"], bs))

    def st_insn(self, lab=None):
        if not self.t["insn"]:
            return self.st_word(lab)
        text, bs, al = self.rng.choice(self.t["insn"])
        if al and not self.pad:
            return self.st_word(lab)        # an instruction on an odd address without padding is an error / a warning: not generated
        return ("S", self.sid(text), lab, ("c", al, list(bs)))

    def st_ref(self, labid):
        op, size = self.rng.choice(self.t["refs"])
        self.stats["refs"] += 1
        return ("S", self.sid("%s {L}" % op), None, ("r", self.t["word_al"], self.t["big"], size, labid))

    def st_other(self, text=None):
        return ("S", self.sid(text or "page 60"), None, ("o",))

    def st_label_only(self, lab):
        return ("S", self.sid(""), lab, ("n",))

    def plain(self, lab=None, aligned=None):
        r = self.rng.random()
        if aligned is True or (aligned is None and r < 0.45):
            return self.st_word(lab) if self.rng.random() < 0.7 else self.st_insn(lab)
        if aligned is False or r < 0.93 or lab is not None:
            return self.st_byte(lab)
        return self.st_other()

    # ---- file names
    def spell(self, frm_dir, name, kind_names):
        """a file name as written in a statement that stands in a file of directory frm_dir; returns the text or None"""
        rng = self.rng
        have = [d for d in self.dirs if (d, name) in self.files]
        if not have:
            return None
        r = rng.random()
        if r < 0.30:
            return name                                  # bare: the directory of the file, then the -i list
        d = rng.choice(have)
        if rng.random() < 0.5:
            others = [x for x in have if x != tuple(frm_dir)]
            if others:
                d = rng.choice(others)
        if r < 0.38:
            self.stats["abs_names"] += 1
            return "/" + "/".join(self.root_parts + list(d) + [name])
        rel = relpath(list(frm_dir), list(d))
        if r < 0.48 and frm_dir:
            rel = [".."] + list(frm_dir[-1:]) + rel      # a detour through the parent directory
        if r < 0.55:
            rel = ["."] + rel
        if ".." in rel:
            self.stats["dotdot"] += 1
        return "/".join(rel + [name])

    def resolves(self, frm_dir, text):
        """harness-side plumbing for the generator only (the oracle is the Lean SPEC): where the manual's rule finds the name"""
        if text.startswith("/"):
            p = norm(text.split("/"))
            rp = self.root_parts
            if p[:len(rp)] == rp and (tuple(p[len(rp):-1]), p[-1]) in self.files:
                return tuple(p[len(rp):-1])
            return None
        comps = text.split("/")
        cands = [norm(list(frm_dir) + comps)]
        if len([c for c in comps if c]) == 1:
            cands += [norm(list(d) + comps) for d in self.incdirs]
        for c in cands:
            if (tuple(c[:-1]), c[-1]) in self.files:
                return tuple(c[:-1])
        return None

    def st_include(self, frm_dir, names, in_body, lab=None, binary=False):
        rng = self.rng
        for _ in range(8):
            name = rng.choice(names)
            text = self.spell(frm_dir, name, names)
            if text is None:
                continue
            where = self.resolves(frm_dir, text)
            if where is None and rng.random() < 0.97:
                continue
            st = self.stats
            if where is None:
                st["unresolved"] += 1
            elif where != tuple(frm_dir):
                st["incl_other_dir"] += 1
                if "/" not in text:
                    st["via_incpath"] += 1
            if binary:
                st["bincl"] += 1
                st["bincl_in_body"] += int(in_body)
            else:
                st["incl"] += 1
                st["incl_in_body"] += int(in_body)
            base = text.split("/")[-1]
            st["decoys"] += int(sum(1 for d in self.dirs if (d, base) in self.files) > 1)
            return ("B" if binary else "I", lab, text)
        return None

    # ---- bodies
    def loop(self, frm_dir, level, depth, allow_labels, body_fn):
        rng = self.rng
        kind = rng.choice(KINDS)
        self.ncon += 1
        cid = self.ncon
        n = {"m": 1, "r": rng.choice([0, 1, 1, 2, 3]), "i": rng.choice([1, 2, 3]), "n": rng.choice([1, 2, 3]), "c": rng.choice([1, 2, 3]),
             "w": rng.choice([0, 1, 2, 3])}[kind]
        if depth >= 1:
            n = min(n, 2)
        body = body_fn(depth + 1)
        extra = dict(cid=cid)
        pre = []
        if kind == "w":
            extra["cnt"] = "wc%d" % cid
            pre.append(self.st_other("^wc%d set 0" % cid))
            body = body + [self.st_other("^wc%d set wc%d+1" % (cid, cid))]
        elif kind == "m":
            extra["name"] = "mx%d" % cid
            self.macros.append((extra["name"], body))
        elif kind == "i":
            extra["args"] = [str(rng.randrange(100)) for _ in range(n)]
        elif kind == "n":
            g = rng.choice([1, 2, 3])
            na = n * g - rng.randrange(0, g) if n > 1 else g
            extra["g"] = g
            extra["args"] = [str(rng.randrange(100)) for _ in range(na)]
        elif kind == "c":
            extra["chars"] = "".join(rng.choice("abcxyz0189") for _ in range(n))
        lab = None
        out = list(pre)
        post = []
        if allow_labels and rng.random() < 0.8:
            lid = self.newlab()
            if rng.random() < 0.6:
                lab = lid
                self.stats["labels_on_open"] += 1
            else:
                out.append(self.st_label_only(lid))
                self.stats["labels_before_open"] += 1
            if rng.random() < 0.9:
                post.append(self.st_ref(lid))
        self.stats["loops"] += 1
        self.stats["kinds"][KIND_NAME[kind]] = self.stats["kinds"].get(KIND_NAME[kind], 0) + 1
        out.append(("L", kind, lab, n, body, extra))
        return out + post

    def body(self, frm_dir, level, depth, allow_labels):
        """nodes of a body that stands in a file of directory frm_dir; level 2 = main, 1 = mid, 0 = leaf"""
        rng = self.rng
        nodes = []
        lower_text = (LEAF_NAMES + MID_NAMES) if level == 2 else LEAF_NAMES if level == 1 else []
        cnt = rng.randrange(1, 4) if depth else rng.randrange(3, 7) if level == 2 else rng.randrange(1, 4)
        had_body_incl = False
        for k in range(cnt):
            r = rng.random()
            inc_p = {"files": 0.45, "mixed": 0.25, "labels": 0.0}[self.mode]
            if r < inc_p and (lower_text or True):
                binary = (not lower_text) or rng.random() < 0.3
                st = self.st_include(frm_dir, BIN_NAMES if binary else lower_text, depth > 0, binary=binary)
                if st is not None:
                    if had_body_incl and depth == 0:
                        self.stats["after_body_incl"] += 1
                    nodes.append(st)
                    continue
            if r < inc_p + {"files": 0.3, "mixed": 0.4, "labels": 0.55}[self.mode] and depth < (2 if level == 2 else 1):
                # in front of a construct: leave the program counter odd more often than not (labels mode)
                if allow_labels and self.mode != "files" and rng.random() < 0.6:
                    nodes.append(self.st_byte(odd=True))
                    self.stats["odd_bias"] += 1
                first_al = rng.random() < 0.65

                def mk(d, first_al=first_al):
                    b = self.body(frm_dir, level, d, allow_labels)
                    if allow_labels and self.mode != "files" and first_al and b and b[0][0] == "S" and b[0][2] is None and b[0][3][0] == "c":
                        b[0] = self.plain(aligned=True)
                        self.stats["aligned_first"] += 1
                    return b
                nodes += self.loop(frm_dir, level, depth, allow_labels, mk)
                had_body_incl = had_body_incl or self.mode != "labels"
                continue
            lab = None
            post = []
            if allow_labels and rng.random() < 0.15:
                lab = self.newlab()
                post = [self.st_ref(lab)]
            nodes.append(self.plain(lab))
            nodes += post
        return nodes

    def build(self):
        rng = self.rng
        self.dirs = [()] + [tuple(d.split("/")) for d in rng.sample(DIRS[1:], rng.randrange(2, 5))]
        if ("sub", "deep") in self.dirs and ("sub",) not in self.dirs:
            self.dirs.append(("sub",))
        self.main_dir = rng.choice([(), (), ("proj",)]) if self.mode != "labels" else ()
        if self.main_dir not in self.dirs:
            self.dirs.append(self.main_dir)
        self.incdirs = [d for d in (("inc1",), ("inc2",)) if d in self.dirs and rng.random() < 0.8]
        rng.shuffle(self.incdirs)
        self.incdirs_abs = rng.random() < 0.3
        self.root_parts = None      # set by materialise (the absolute names need the real root); placeholder root for generation
        self.root_parts = ["@ROOT@"]
        if self.mode != "labels":
            # binary files and leaves first (a file includes only names of a lower level, so there is no recursion)
            for d in self.dirs:
                for nm in BIN_NAMES:
                    if rng.random() < 0.6:
                        self.files[(d, nm)] = ("B", bytes(rng.randrange(1, 256) for _ in range(rng.choice([1, 2, 3, 5, 20]))))
            for d in self.dirs:
                for nm in LEAF_NAMES:
                    if rng.random() < 0.6:
                        self.files[(d, nm)] = None
            for (d, nm) in [k for k, v in self.files.items() if v is None]:
                self.files[(d, nm)] = ("T", self.body(d, 0, 0, False))
            mids = [(d, nm) for d in self.dirs for nm in MID_NAMES if rng.random() < 0.5]
            for k in mids:
                self.files[k] = None
            for (d, nm) in mids:
                self.files[(d, nm)] = ("T", self.body(d, 1, 0, False))
        self.main = self.body(self.main_dir, 2, 0, True)
        self.macro_defs_in_file = self.mode != "labels" and rng.random() < 0.4 and bool(self.macros)

    # ---- rendering
    def labname(self, lid):
        return "LB%d" % lid

    def line(self, lab, text, colon=True):
        if text.startswith("^"):
            return text[1:]                 # a statement whose first word stands in column 1 (SET)
        l = "" if lab is None else self.labname(lab) + (":" if colon else "")
        return (l + ("\t" + text if text else "")) if (l or text) else ""

    def render_nodes(self, nodes, out):
        for nd in nodes:
            k = nd[0]
            if k == "S":
                _, sid, lab, op = nd
                text = self.texts[sid]
                if op[0] == "r":
                    text = text.replace("{L}", self.labname(op[4]))
                out.append(self.line(lab, text, colon=(sid % 3 != 0)))
            elif k in ("B", "I"):
                _, lab, name = nd
                q = '"%s"' % name if (len(name) % 2 or k == "B") else name
                out.append(self.line(lab, "%s %s" % ("binclude" if k == "B" else "include", q)))
            elif k == "L":
                _, kind, lab, n, body, ex = nd
                colon = ex["cid"] % 2 == 0
                if kind == "m":
                    out.append(self.line(lab, ex["name"], colon))
                    continue
                if kind == "r":
                    out.append(self.line(lab, "rept %d" % n, colon))
                elif kind == "i":
                    out.append(self.line(lab, "irp iv%d,%s" % (ex["cid"], ",".join(ex["args"])), colon))
                elif kind == "n":
                    out.append(self.line(lab, "irpn %d,%s,%s" % (ex["g"], ",".join("nv%d%s" % (ex["cid"], "abc"[j]) for j in range(ex["g"])),
                                                                 ",".join(ex["args"])), colon))
                elif kind == "c":
                    out.append(self.line(lab, 'irpc cv%d,"%s"' % (ex["cid"], ex["chars"]), colon))
                elif kind == "w":
                    out.append(self.line(lab, "while %s<%d" % (ex["cnt"], n), colon))
                self.render_nodes(body, out)
                out.append("\tendm")

    def header(self):
        h = ["\tcpu %s" % self.t["cpu"]]
        if self.padmode != "default":
            h.append("\tpadding %s" % self.padmode)
        h.append("\torg 0")
        return h

    def macro_text(self):
        out = []
        for name, body in self.macros:
            out.append("%s\tmacro" % name)
            self.render_nodes(body, out)
            out.append("\tendm")
        return out

    def materialise(self, root):
        """write the files below `root`; returns (main path relative to root, asl flags, {relative path: text or bytes})"""
        self.root_parts = [c for c in root.split("/") if c]
        written = {}

        def fix(s):
            return s.replace("/@ROOT@", root)

        for (d, nm), (kind, content) in self.files.items():
            rel = "/".join(list(d) + [nm])
            if kind == "B":
                written[rel] = content
            else:
                out = []
                self.render_nodes(content, out)
                written[rel] = fix("\n".join(out) + "\n")
        src = self.header()
        if self.macro_defs_in_file:
            written["defs/macros.inc"] = fix("\n".join(self.macro_text()) + "\n")
            src.append('\tinclude "%s"' % "/".join(relpath(list(self.main_dir), ["defs"]) + ["macros.inc"]))
        else:
            src += self.macro_text()
        self.render_nodes(self.main, src)
        main_rel = "/".join(list(self.main_dir) + ["main.asm"])
        written[main_rel] = fix("\n".join(src) + "\n")
        for rel, content in written.items():
            p = os.path.join(root, rel)
            os.makedirs(os.path.dirname(p), exist_ok=True)
            with open(p, "wb") as f:
                f.write(content if isinstance(content, bytes) else content.encode("latin-1"))
        for d in self.dirs:
            os.makedirs(os.path.join(root, *d), exist_ok=True)
        flags = []
        if self.incdirs:
            flags = ["-i", ":".join((root + "/" if self.incdirs_abs else "") + "/".join(d) for d in self.incdirs)]
        return main_rel, flags, written

    # ---- driver request
    def enc_nodes(self, nodes, out, root):
        for nd in nodes:
            k = nd[0]
            if k == "S":
                _, sid, lab, op = nd
                out += ["S", str(sid), "~" if lab is None else str(lab)]
                if op[0] == "c":
                    out += ["c", "1" if op[1] else "0", hx(op[2])]
                elif op[0] == "r":
                    out += ["r", "1" if op[1] else "0", "1" if op[2] else "0", str(op[3]), str(op[4])]
                else:
                    out.append(op[0])
            elif k in ("B", "I"):
                out += [k, "~" if nd[1] is None else str(nd[1]), nd[2].replace("/@ROOT@", root)]
            elif k == "L":
                _, kind, lab, n, body, ex = nd
                out += ["L", kind, "~" if lab is None else str(lab), str(n)]
                self.enc_nodes(body, out, root)
                out.append("E")

    def request(self, root, quirk, depth=6, fuel=200000):
        out = ["1" if quirk else "0", "1" if self.pad else "0", str(depth), str(fuel), root, root + "/" + "/".join(list(self.main_dir) + ["main.asm"]),
               str(len(self.incdirs))] + [root + "/" + "/".join(d) for d in self.incdirs]
        files = []
        for (d, nm), (kind, content) in self.files.items():
            p = root + "/" + "/".join(list(d) + [nm])
            if kind == "B":
                files.append(["B", p, hx(content)])
            else:
                t = ["T", p]
                self.enc_nodes(content, t, root)
                t.append(".")
                files.append(t)
        t = ["T", root + "/" + "/".join(list(self.main_dir) + ["main.asm"])]
        self.enc_nodes(self.main, t, root)
        t.append(".")
        files.append(t)
        out.append(str(len(files)))
        for f in files:
            out += f
        return " ".join(out)

    # ---- hand expansion (the SPEC's lines rendered to text)
    def render_hand(self, toks):
        out = list(self.header())
        inst = {}       # label id -> number of the current instance
        for tk in toks:
            f = tk.split(":")
            if f[0] == "l":
                sid, lab = int(f[1]), f[2]
                text = self.texts.get(sid, "")
                nd_ref = None
                if f[3] == "r":
                    nd_ref = self.ref_of[sid]
                    text = text.replace("{L}", "LB%d_%d" % (nd_ref, inst.get(nd_ref, 0)))
                l = ""
                if lab != "~":
                    lid = int(lab)
                    inst[lid] = inst.get(lid, 0) + 1
                    l = "LB%d_%d:" % (lid, inst[lid])
                out.append(text[1:] if text.startswith("^") else l + ("\t" + text if text else ""))
            else:
                lab, data = f[1], (b"" if f[2] == "-" else bytes.fromhex(f[2]))
                l = ""
                if lab != "~":
                    lid = int(lab)
                    inst[lid] = inst.get(lid, 0) + 1
                    l = "LB%d_%d:" % (lid, inst[lid])
                for i in range(0, len(data), 16):
                    out.append((l if i == 0 else "") + "\t%s %s" % (self.t["byte"], ",".join(str(x) for x in data[i:i + 16])))
                if not data and l:
                    out.append(l)
        return "\n".join(out) + "\n"

    def index_refs(self):
        self.ref_of = {}

        def walk(nodes):
            for nd in nodes:
                if nd[0] == "S" and nd[3][0] == "r":
                    self.ref_of[nd[1]] = nd[3][4]
                elif nd[0] == "L":
                    walk(nd[4])
        walk(self.main)
        for v in self.files.values():
            if v[0] == "T":
                walk(v[1])


# --------------------------------------------------------------------------
# fixed programs: the trigger neighbourhoods written out once per construct kind (labels at odd addresses in front of every opening line)

def fixed_label_program(rng, tname, kind, alone, first):
    """a label (on the opening line / alone before it) at an odd address, first body statement `first` in ('word', 'byte', 'insn')"""
    p = Prog.__new__(Prog)
    p.rng, p.mode, p.tname, p.t = rng, "labels", tname, TARGETS[tname]
    p.padmode = "on" if p.t["can_pad"] and not p.t["pad_default"] else "default"
    p.pad = p.t["can_pad"]
    p.texts, p.nid, p.nlab, p.ncon, p.macros, p.files = {}, 0, 0, 0, [], {}
    p.stats = dict(incl=0, incl_in_body=0, incl_other_dir=0, bincl=0, bincl_in_body=0, after_body_incl=0, decoys=0, labels_on_open=0,
                   labels_before_open=0, refs=0, loops=0, kinds={}, label_on_incl=0, abs_names=0, dotdot=0, via_incpath=0, unresolved=0,
                   aligned_first=0, odd_bias=0)
    p.main_dir, p.incdirs, p.incdirs_abs, p.dirs, p.root_parts = (), [], False, [()], ["@ROOT@"]
    p.macro_defs_in_file = False
    nodes = [p.st_byte(odd=True)]
    lid = p.newlab()
    body = [p.st_word() if first == "word" else p.st_insn() if first == "insn" else p.st_byte(), p.st_byte()]
    p.ncon += 1
    ex = dict(cid=p.ncon + (0 if alone else 1))
    n = 2 if kind != "m" else 1
    if kind == "w":
        ex["cnt"] = "wc1"
        nodes.insert(0, p.st_other("^wc1 set 0"))
        body.append(p.st_other("^wc1 set wc1+1"))
    elif kind == "m":
        ex["name"] = "mx1"
        p.macros.append(("mx1", body))
    elif kind == "i":
        ex["args"] = ["1", "2"]
    elif kind == "n":
        ex["g"], ex["args"] = 2, ["1", "2", "3"]
    elif kind == "c":
        ex["chars"] = "ab"
    if alone:
        nodes.append(p.st_label_only(lid))
        nodes.append(("L", kind, None, n, body, ex))
        p.stats["labels_before_open"] += 1
    else:
        nodes.append(("L", kind, lid, n, body, ex))
        p.stats["labels_on_open"] += 1
    nodes.append(p.st_ref(lid))
    nodes.append(p.st_byte())
    p.stats["loops"] += 1
    p.stats["kinds"][KIND_NAME[kind]] = 1
    p.main = nodes
    return p


# --------------------------------------------------------------------------

def run_asl(bdir, cwd, main_rel, flags, out_p):
    if os.path.exists(out_p):
        os.unlink(out_p)
    rc, so, se = common.run_tool(bdir, "asl", ["-q"] + list(flags) + [main_rel, "-o", out_p], cwd, timeout=60)
    data = open(out_p, "rb").read() if os.path.exists(out_p) else None
    return rc, (so + se).decode(errors="replace"), data


def image(canon_p, data):
    """the code from address 0 on as one byte string (None: not a single block starting at 0)"""
    if data is None:
        return None
    cells = canon_p(data)
    if cells is None:
        return None
    if not cells:
        return b""
    if len(cells) != 1 or cells[0][3] != 0:
        return None
    return cells[0][4]


def probe_incl_resets(bdir, wd):
    d = os.path.join(wd, "ctxq")
    os.makedirs(d, exist_ok=True)
    open(os.path.join(d, "q.inc"), "w").write("\tdc.w 7\n")
    open(os.path.join(d, "q.asm"), "w").write("\tcpu 68000\n\torg 0\n\tdc.b 1\nl1\tinclude \"q.inc\"\n\tdc.l l1\n")
    rc, msg, data = run_asl(bdir, d, "q.asm", [], os.path.join(d, "q.p"))
    return data is not None and b"\x00\x00\x00\x01" in data


FINDING_PROGRAMS = [
    # (sig, files, main, hand expansion)
    (SIG_INCL, {"w.inc": "\tdc.w 7\n"},
     "\tcpu 68000\n\torg 0\n\tdc.b 1\nl1\tinclude \"w.inc\"\n\tdc.l l1\n\tdc.b 2\nl2:\n\tinclude \"w.inc\"\n\tdc.l l2\n",
     "\tcpu 68000\n\torg 0\n\tdc.b 1\nl1\n\tdc.w 7\n\tdc.l l1\n\tdc.b 2\nl2:\n\tdc.w 7\n\tdc.l l2\n"),
    (SIG_MDEF, {},
     "\tcpu 68000\n\torg 0\n\tdc.b 1\nl3:\nm1\tmacro\n\tdc.b 9\n\tendm\n\tdc.w 3\n\tdc.l l3\n\tm1\n",
     "\tcpu 68000\n\torg 0\n\tdc.b 1\nl3:\n\tdc.w 3\n\tdc.l l3\n\tdc.b 9\n"),
    (SIG_SHIFT, {},
     "\tcpu 68000\n\torg 0\nm2\tmacro a,b\n\tshift\n\tdc.w a\n\tendm\n\tdc.b 1\nl4\tm2 5,6\n\tdc.l l4\n",
     "\tcpu 68000\n\torg 0\n\tdc.b 1\nl4\n\tdc.w 6\n\tdc.l l4\n"),
]


def run_stream(args, canon_p, bdir, wd, drv_ok, dist, spec_fail, corr_fail, proof_problems, samples):
    evaluations, distinct = 0, set()
    if not drv_ok:
        return evaluations, distinct
    t0 = time.time()
    quick = args.tier == "quick"
    d = dict(programs=0, by_mode={}, by_target={}, padding={}, spec_defined=0, spec_undefined=0, model_eq_real=0, hand_model_eq_real=0,
             fatal_both=0, events=0, finding_programs=0, fixed_programs=0, stats={})
    quirk = probe_incl_resets(bdir, wd)
    d["quirk_inclResetsLabel"] = quirk
    # ---------------- the findings of this part, replayed (spec = hand expansion by the manual)
    for k, (sig, files, main, hand) in enumerate(FINDING_PROGRAMS):
        fd = os.path.join(wd, "ctxf%d" % k)
        os.makedirs(fd, exist_ok=True)
        for nm, tx in files.items():
            open(os.path.join(fd, nm), "w").write(tx)
        open(os.path.join(fd, "main.asm"), "w").write(main)
        open(os.path.join(fd, "hand.asm"), "w").write(hand)
        rc1, m1, p1 = run_asl(bdir, fd, "main.asm", [], os.path.join(fd, "c.p"))
        rc2, m2, p2 = run_asl(bdir, fd, "hand.asm", [], os.path.join(fd, "h.p"))
        evaluations += 1
        i1, i2 = image(canon_p, p1), image(canon_p, p2)
        if rc2 != 0 or i2 is None:
            proof_problems.append("c11ctx: hand expansion of finding program %s does not assemble: %s" % (sig, m2[-200:]))
        elif rc1 != 0 or i1 != i2:
            spec_fail.append(dict(sig=sig, tag="ctx finding " + sig, source=main, files=files, hand_expansion=hand, asflags="",
                                  why="a label in front of the statement keeps the address of the pad byte: code %s, hand expansion %s (rc=%s)" % (
                                      i1.hex() if i1 is not None else None, i2.hex(), rc1)))
    # ---------------- generated programs
    rng = common.rng_for(args.seed, "C11/ctx")
    progs = []
    for tname in (["68000", "msp430"] if quick else ["68000", "msp430", "tms9900", "6809", "h8/300"]):
        for kind in KINDS:
            for alone in (False, True):
                for first in (("word",) if quick and tname != "68000" else ("word", "insn", "byte")):
                    progs.append((fixed_label_program(rng, tname, kind, alone, first), "fixed"))
    d["fixed_programs"] = len(progs)
    for mode, n in (("files", 70 if quick else 1500), ("labels", 60 if quick else 1500), ("mixed", 40 if quick else 1000)):
        for _ in range(n):
            progs.append((Prog(rng, mode), mode))
    roots, reqs = [], []
    for k, (p, mode) in enumerate(progs):
        root = os.path.join(wd, "cx%d" % k)
        roots.append(root)
        p.index_refs()
        reqs.append(p.request(root, quirk))
    answers = common.driver("c11ctx", reqs, timeout=1800)
    for k, ((p, mode), root, ans) in enumerate(zip(progs, roots, answers)):
        if not ans.startswith("ok "):
            proof_problems.append("driver c11ctx: %s on program %d (%s)" % (ans[:60], k, mode))
            continue
        f = ans.split()
        kv = dict(x.split("=", 1) for x in f[1:9])
        hand_toks = f[9:]
        os.makedirs(root, exist_ok=True)
        main_rel, flags, written = p.materialise(root)
        rc1, m1, p1 = run_asl(bdir, root, main_rel, flags, os.path.join(root, "c.p"))
        i1 = image(canon_p, p1)
        evaluations += 1
        d["programs"] += 1
        d["by_mode"][mode] = d["by_mode"].get(mode, 0) + 1
        d["by_target"][p.tname] = d["by_target"].get(p.tname, 0) + 1
        pk = "%s/%s" % (p.padmode, "pads" if p.pad else "no-pads")
        d["padding"][pk] = d["padding"].get(pk, 0) + 1
        for kk, v in p.stats.items():
            if isinstance(v, int):
                d["stats"][kk] = d["stats"].get(kk, 0) + v
            else:
                dd = d["stats"].setdefault(kk, {})
                for a, b in v.items():
                    dd[a] = dd.get(a, 0) + b
        distinct.add(reqs[k].replace(root, ""))
        files_txt = {rel: (c if isinstance(c, str) else "hex:" + c.hex()) for rel, c in written.items() if rel != main_rel}
        info = dict(tag="ctx %s %d" % (mode, k), source=written[main_rel], main=main_rel, files=files_txt, asflags=" ".join(flags).replace(root, "@ROOT@"),
                    root=root, target=p.tname, padding=pk)
        m_err = kv["err"] == "1"
        mimg = b"" if kv["mimg"] == "-" else bytes.fromhex(kv["mimg"])
        iimg = b"" if kv["iimg"] == "-" else bytes.fromhex(kv["iimg"])
        simg = b"" if kv["simg"] == "-" else bytes.fromhex(kv["simg"])
        real_fail = rc1 != 0 or i1 is None
        model_eq_real = (m_err and real_fail) or (not m_err and not real_fail and kv["stack"] == "0" and mimg == i1)
        d["model_eq_real"] += int(model_eq_real)
        if kv["spec"] == "1":
            d["spec_defined"] += 1
            d["events"] += len(hand_toks)
            hand = p.render_hand(hand_toks)
            hp = os.path.join(wd, "cxh")
            os.makedirs(hp, exist_ok=True)
            open(os.path.join(hp, "hand.asm"), "w").write(hand)
            rc2, m2, p2 = run_asl(bdir, hp, "hand.asm", [], os.path.join(hp, "h.p"))
            i2 = image(canon_p, p2)
            info["hand_expansion"] = hand
            if rc2 != 0 or i2 is None:
                info["why"] = "the hand expansion does not assemble (generator/spec problem?): rc=%s %s" % (rc2, m2[-400:])
                spec_fail.append(info)
                continue
            bad = None
            if real_fail:
                bad = "construct program rejected although its hand expansion (file search by the manual's rule) assembles: rc=%s %s" % (rc1, m1[-400:])
            elif i1 != i2:
                j = next((t for t in range(min(len(i1), len(i2))) if i1[t] != i2[t]), min(len(i1), len(i2)))
                bad = "code of the construct program differs from the code of its hand expansion at address %d: %s (%d bytes) vs %s (%d bytes)" % (
                    j, i1[max(0, j - 2):j + 6].hex(), len(i1), i2[max(0, j - 2):j + 6].hex(), len(i2))
            if bad is not None:
                info["why"] = bad
                if quirk and model_eq_real and iimg == i2 and not real_fail:
                    # fully explained: the model with the probed quirk predicts exactly this code, the model without it the hand expansion's
                    info["sig"] = SIG_INCL
                    d["finding_programs"] += 1
                spec_fail.append(info)
                continue
            if simg == i2:
                d["hand_model_eq_real"] += 1
            else:
                info["why"] = "Produce_Code part of Model/TagsCtx.lean on the hand expansion and asl on the hand expansion differ: %s vs %s" % (
                    simg[:40].hex(), i2[:40].hex())
                corr_fail.append(info)
                continue
        else:
            d["spec_undefined"] += 1
            d["fatal_both"] += int(m_err and real_fail)
        if not model_eq_real:
            j = -1
            if i1 is not None and not m_err:
                j = next((t for t in range(min(len(i1), len(mimg))) if i1[t] != mimg[t]), min(len(i1), len(mimg)))
            info["why"] = "Model/TagsCtx.lean and asl differ: model err=%s stack=%s %d bytes, asl rc=%s %s bytes, first difference at %d (%s)" % (
                kv["err"], kv["stack"], len(mimg), rc1, len(i1) if i1 is not None else None, j, m1[-200:])
            corr_fail.append(info)
            continue
        if len(samples) < 14 and mode != "fixed" and p.stats["incl_in_body"] + p.stats["labels_on_open"] >= 2 and len(written[main_rel]) < 900:
            samples.append(dict(kind="ctx-" + mode, target=p.tname, source=written[main_rel], files=sorted(files_txt), code_bytes=len(i1 or b"")))
        shutil.rmtree(root, ignore_errors=True)
    d["wall_s"] = round(time.time() - t0, 1)
    dist["ctx"] = d
    return evaluations, distinct


def replay(d, bdir, wd, canon_p):
    """re-run a stored case: the files below a fresh root"""
    root = os.path.join(wd, "replay")
    os.makedirs(root, exist_ok=True)
    old = d.get("root", "@ROOT@")

    def fix(s):
        return s.replace(old, root).replace("@ROOT@", root)
    main_rel = d.get("main", "main.asm")
    for rel, c in list(d.get("files", {}).items()) + [(main_rel, d["source"])]:
        p = os.path.join(root, rel)
        os.makedirs(os.path.dirname(p), exist_ok=True)
        with open(p, "wb") as f:
            f.write(bytes.fromhex(c[4:]) if c.startswith("hex:") else fix(c).encode("latin-1"))
    flags = fix(d.get("asflags", "")).split()
    rc, msg, p1 = run_asl(bdir, root, main_rel, flags, os.path.join(root, "c.p"))
    print("construct program: asl rc =", rc, msg[-500:])
    print("code:", canon_p(p1) if p1 else None)
    if "hand_expansion" in d:
        hp = os.path.join(wd, "replayh")
        os.makedirs(hp, exist_ok=True)
        open(os.path.join(hp, "hand.asm"), "w").write(d["hand_expansion"])
        rc, msg, p2 = run_asl(bdir, hp, "hand.asm", [], os.path.join(hp, "h.p"))
        print("hand expansion: asl rc =", rc, msg[-300:])
        print("code:", canon_p(p2) if p2 else None)
