"""C11, argument collection: the TEXT of an argument on its way from the statement to the place it is inserted.

In the default case-insensitive mode the assembler converts arguments to upper case, "but this conversion never takes place inside of
string constants" (doc/pseudo-instructions.md, MACRO); IRPC does "no automatic conversion".  SPEC Spec/ArgFold.lean (`marks`, `foldArg`,
`foldProg` by construct kind, `expandFolded`), MODEL Model/ArgFold.lean (transcription of asmsub.c UpString and of its call sites in
ExpandMacro / ProcessIRPArgs / ProcessIRPNArgs), theorems Props/C11_Args.lean, driver mode `c11arg`.

(B) text stream: random argument texts (character / string constants with lower-case letters, escapes, the other kind of quotation mark
    inside, `\\{..}`, text in front of / behind / between constants, backslashes in odd places) collected by MACRO, IRP and IRPN with
    comment-line bodies: the text the real asl inserts (-P output) vs the MODEL, byte for byte; every tame text also MODEL = SPEC (the
    instance of C11_args_fold_refines).
(C) the same real text vs the SPEC `foldArg`; tree stream: construct programs whose arguments are such texts - macro calls (positional,
    keyword, defaults, excess, ALLARGS, ARGCOUNT), IRP lists, IRPN lists with groups of 1..4 and ragged tails, IRPC strings, arguments
    passed on from a macro parameter to a nested IRP / IRPN / IRPC / macro call, both case modes - vs the hand expansion
    `expandFolded` assembled by the same binary (code files compared); real -P output vs the MODEL's expansion, case exact.
"""
import re

from .. import common

LOW = "abcdefghkmnqrstuwxyz"
UPP = "ABDEGKQRXZ"


def hx(b):
    if isinstance(b, str):
        b = b.encode("latin-1")
    return b.hex() if b else "-"


def unhx(s):
    return b"" if s == "-" else bytes.fromhex(s)


def letters(rng, lo, hi, need_lower=True):
    n = rng.randrange(lo, hi + 1)
    s = "".join(rng.choice(LOW + LOW + UPP) for _ in range(n))
    if need_lower and n and not re.search("[a-z]", s):
        s = rng.choice(LOW) + s[1:]
    return s


def const_arg(rng, allow_dq=True, cs=False):
    """an argument that is valid as an operand of `db`: a character / string constant (with lower-case letters) or an expression
    around one.  Returns (text, class)"""
    r = rng.random()
    if r < 0.005:
        # a constant that ends in an escaped backslash, then another constant (known finding SIG_BSBS)
        return rng.choice(["'\\\\'+'%s'", "'\\\\'-'%s'"]) % rng.choice(LOW), "escaped-backslash-then-constant"
    if r < 0.22:
        return "'%s'" % rng.choice(LOW), "char"
    if r < 0.30:
        return "'%s'" % rng.choice(UPP), "char-upper"
    if r < 0.36:
        return "'%s'+%d" % (rng.choice(LOW), rng.randrange(1, 5)), "char-expr"
    if r < 0.42:
        return "%s+'%s'" % (rng.choice(["val1", "Val2", "1", "0ah"] if cs else ["val1", "Val1", "VAL2", "1", "0ah"]), rng.choice(LOW)), "expr-char"
    if r < 0.47:
        return "'%s'" % rng.choice(["\\n", "\\t", "\\r", "\\'", "\\x6b", "\\065"]), "char-escape"
    if r < 0.52:
        return "'%s'" % letters(rng, 2, 3), "multi-char"
    if r < 0.60 or not allow_dq:
        if cs:
            return rng.choice(["val1", "Val2", "val1+1", "0ffh", "6bh", "7ah", "(Val2|1)", "VAL3&255"]), "symbol"
        return rng.choice(["val1", "Val2", "vAl1+1", "0ffh", "6bh", "0Ah", "(val2|1)", "val3&0ffh", "lo(val3)" if False else "(vaL3>>8)"]), "symbol"
    if r < 0.80:
        return '"%s"' % letters(rng, 1, 4), "string"
    if r < 0.85:
        return '"%s %s"' % (letters(rng, 1, 2), letters(rng, 1, 2)), "string-blank"
    if r < 0.89:
        return '"%s\'%s"' % (letters(rng, 1, 2), letters(rng, 1, 2)), "string-apostrophe"
    if r < 0.93:
        return '"%s\\"%s"' % (letters(rng, 1, 2), letters(rng, 1, 2)), "string-escaped-quote"
    if r < 0.96:
        return '"%s,%s"' % (letters(rng, 1, 2), letters(rng, 1, 2)), "string-comma"
    if r < 0.98:
        return '"%s\\{val1}%s"' % (letters(rng, 1, 2), letters(rng, 0, 1, False)), "string-formula"
    return '"%s\\n%s"' % (letters(rng, 1, 2), letters(rng, 1, 2)), "string-escape"


class Gen:
    """construct trees in the node format of c11.py (render / encode / build_program are shared)"""

    def __init__(self, rng, cs):
        self.rng = rng
        self.cs = cs
        self.nid = 0
        self.macros = []
        self.classes = {}
        self.kinds = {}
        self.nosoft = False       # no "<v>" lines: the arguments are parameters of an enclosing macro (any text)
        self.nosoft_dq = False

    def fresh(self):
        self.nid += 1
        return self.nid

    def note(self, k, d=None):
        d = self.kinds if d is None else d
        d[k] = d.get(k, 0) + 1

    def arg(self, allow_dq=True):
        t, c = const_arg(self.rng, allow_dq and not self.nosoft_dq, self.cs)
        self.note(c, self.classes)
        return t

    def vcase(self, v):
        """a parameter as it is written in a body: any case in case-insensitive mode"""
        if not self.cs and self.rng.random() < 0.3:
            return v.upper()
        return v

    def hard_line(self, vs):
        rng = self.rng
        if len(vs) >= 2 and rng.random() < 0.4:
            a, b = rng.sample(vs, 2)
            return " db %s,%s" % (self.vcase(a), self.vcase(b))
        v = self.vcase(rng.choice(vs))
        return rng.choice([" db %s", " db %s,0", " db 1,%s"]) % v

    def soft_line(self, v):
        return ' db "<%s>"' % self.vcase(v)

    def irp(self, args=None, nargs=None):
        rng = self.rng
        cid = self.fresh()
        var = "v%d" % cid
        if args is None:
            args = [self.arg() for _ in range(nargs or rng.choice([1, 2, 3, 4, 6]))]
        body = [("L", self.hard_line([var]))]
        if rng.random() < 0.4 and not self.nosoft and all('"' not in a for a in args):
            body.append(("L", self.soft_line(var)))
        self.note("irp")
        return ("I", cid, var, args, [], body, False)

    def irpn(self, args=None, k=None):
        rng = self.rng
        cid = self.fresh()
        if k is None:
            k = rng.choice([1, 2, 2, 3, 3, 4])
        vars_ = ["w%d%s" % (cid, "abcd"[i]) for i in range(k)]
        missing = 0
        if args is None:
            groups = rng.choice([1, 2, 2, 3])
            missing = rng.randrange(0, k) if rng.random() < 0.5 else 0
            if missing:
                groups += 1           # IRPN wants at least one full group of arguments
            n = groups * k - missing
            # the variables of the last `missing` columns get an empty argument in the last group: they are used inside "<..>" only,
            # so their arguments must not contain a double quotation mark
            args = [self.arg(allow_dq=(i % k) < k - missing) for i in range(n)]
        else:
            missing = (-len(args)) % k
        hard = vars_[:k - missing]
        soft = vars_[k - missing:]
        body = []
        if hard:
            body.append(("L", self.hard_line(hard)))
            if len(hard) > 1:
                body.append(("L", " db " + ",".join(self.vcase(v) for v in hard)))
        for v in soft:
            body.append(("L", self.soft_line(v)))
        if missing:
            self.note("irpn-ragged")
        self.note("irpn-%d" % k)
        return ("N", cid, vars_, args, [], body, False)

    def irpc(self, chars=None):
        rng = self.rng
        cid = self.fresh()
        var = "c%d" % cid
        if chars is None:
            chars = letters(rng, 1, 5) + rng.choice(["", "", "7", " "])
        body = [("L", " db '%s'" % self.vcase(var))]
        if rng.random() < 0.5:
            body.append(("L", ' db "<%s>",0' % var))
        self.note("irpc")
        return ("C", cid, var, chars, [], body, False)

    def macro(self, inner=None):
        """a macro call; `inner`: None = plain body, otherwise the kind of construct in the body that gets the parameters passed on"""
        rng = self.rng
        cid = self.fresh()
        np_ = rng.choice([1, 2, 2, 3, 4]) if inner != "C" else 1
        params = ["p%d%s" % (cid, "abcd"[i]) for i in range(np_)]
        defaults = ["0"] * np_
        call = []
        body = []
        uses_all = inner is None and rng.random() < 0.2
        uses_cnt = inner is None and rng.random() < 0.2
        if inner == "C":
            # irpc c,"<parameter>": the argument is inserted between the quotation marks, so it is plain text
            call = [(None, letters(rng, 1, 4) + rng.choice(["", "9"]))]
            self.note("plain-text", self.classes)
            body = [self.irpc(chars=params[0])]
            self.note("pass-on-irpc")
        else:
            how = rng.random()
            if uses_all or uses_cnt or inner is not None or how < 0.4:
                call = [(None, self.arg()) for _ in range(np_)]
                if (uses_all or inner is None) and not uses_cnt and rng.random() < 0.25:
                    call.append((None, self.arg()))
                    self.note("macro-excess")
            elif how < 0.7:
                npos = rng.randrange(0, np_)
                call = [(None, self.arg()) for _ in range(npos)]
                rest = list(range(npos, np_))
                rng.shuffle(rest)
                for i in rest[:rng.randrange(1, len(rest) + 1)]:
                    k = params[i]
                    if not self.cs:
                        k = rng.choice([k, k.upper(), k.capitalize()])
                    call.append((k, self.arg()))
                    self.note("macro-keyword")
            else:
                npos = rng.randrange(0, np_)
                call = [(None, self.arg()) for _ in range(npos)]
            given = set(range(len([c for c in call if c[0] is None]))) | {params.index(k.lower()) for k, _ in call if k is not None}
            for i in range(np_):
                if i not in given:
                    defaults[i] = self.arg()
                    self.note("macro-default")
            if inner is None:
                body = [("L", self.hard_line(params))]
                if np_ > 1:
                    body.append(("L", " db " + ",".join(self.vcase(p) for p in params)))
                if uses_all:
                    body.append(("L", " db 200,%s" % self.vcase("ALLARGS")))
                    self.note("macro-allargs")
                if uses_cnt:
                    body.append(("L", " db 201,ARGCOUNT"))
                    self.note("macro-argcount")
                for p, (k, v) in zip(params, call):
                    if k is None and '"' not in v and not self.nosoft and rng.random() < 0.3:
                        body.append(("L", self.soft_line(p)))
            elif inner == "I":
                self.nosoft = True
                body = [self.irp(args=list(params))]
                self.nosoft = False
                self.note("pass-on-irp")
            elif inner == "N":
                k = rng.choice([x for x in (1, 2, 3) if x <= np_])
                nd = self.irpn(args=list(params), k=k)
                if np_ % k:
                    # ragged: the soft variables must not get double quotation marks
                    miss = (-np_) % k
                    call = [(kk, v if (i % k) < k - miss or '"' not in v else "'%s'" % rng.choice(LOW)) for i, (kk, v) in enumerate(call)]
                body = [nd]
                self.note("pass-on-irpn")
            elif inner == "M":
                self.nosoft = True
                sub = self.macro(inner=None)
                self.nosoft = False
                # the inner call gets this macro's parameters as its arguments (as many as it has parameters, positional)
                subp = sub[3]
                sub_call = [(None, params[i % np_]) for i in range(len(subp))]
                body = [sub[:7] + (sub_call, False)]
                self.note("pass-on-macro")
        name = "am%d" % cid
        self.macros.append((name, params, defaults, body, False))
        self.note("macro")
        return ("M", cid, name, params, defaults, [], body, call, False)


def gen_program(rng, cs, c11):
    g = Gen(rng, cs)
    top = [("L", "val1 equ 5"), ("L", "Val2 equ 98"), ("L", "VAL3 equ 1234h")]
    for _ in range(rng.randrange(1, 4)):
        r = rng.random()
        if r < 0.18:
            nd = g.irp()
        elif r < 0.46:
            nd = g.irpn()
        elif r < 0.56:
            nd = g.irpc()
        elif r < 0.76:
            nd = g.macro()
        else:
            nd = g.macro(inner=rng.choice(["I", "N", "N", "C", "M"]))
        if rng.random() < 0.15:
            # the construct is generated by a loop body
            nd = ("R", g.fresh(), rng.choice([1, 2, 3]), [], [nd], False)
            g.note("inside-rept")
        top.append(nd)
    src, enc, hdr = c11.build_program(top, g.macros, cs, rng)
    return src, enc, hdr, g


# --------------------------------------------------------------------------
# text stream

def raw_text(rng):
    """an argument text that asl takes as ONE argument of MACRO / IRP / IRPN (no comma or semicolon outside constants, quotation marks
    balanced in the assembler's own view), otherwise free: what case folding must and must not touch"""
    parts = []
    for _ in range(rng.randrange(1, 4)):
        r = rng.random()
        if r < 0.25:
            parts.append(letters(rng, 1, 3, False) + rng.choice(["", "1", "_x", "+", "-", " ", ".b"]))
        elif r < 0.45:
            inner = "".join(rng.choice([letters(rng, 1, 2), '"', " ", "\\'", "\\n", "\\x6a", ",", ";", "\\{val1}", "\\\\z", "="]) for _ in range(rng.randrange(1, 4)))
            parts.append("'%s'" % inner)
        elif r < 0.70:
            inner = "".join(rng.choice([letters(rng, 1, 2), "'", " ", '\\"', "\\t", "\\i", ",", ";", "\\{val1+'k'}", "\\\\z", "="]) for _ in range(rng.randrange(1, 4)))
            parts.append('"%s"' % inner)
        elif r < 0.78:
            parts.append(rng.choice(['"\\\\"', "'\\\\'", '"%s\\\\"' % letters(rng, 1, 2)]))     # a constant that ends in an escaped backslash
        elif r < 0.84:
            parts.append(rng.choice(["\\", "\\%s" % rng.choice(LOW), "%s\\" % rng.choice(LOW)]))   # backslash outside a constant
        else:
            parts.append(rng.choice(["+", "-1", "(", ")", "0ffh", "$", "#", "[x]", "<", "a:b"]))
    return "".join(parts)


def one_argument(text):
    """harness plumbing: does asl's argument splitter (quote-aware, backslash = escape as in QuotPos) see exactly one argument?"""
    q = None
    i = 0
    t = text
    if not t.strip() or t != t.strip():
        return False
    while i < len(t):
        ch = t[i]
        if q is None:
            if ch in ",;":
                return False
            if ch in "'\"":
                q = ch
            if ch == "\\":
                return False      # outside constants the splitter's view is not documented: generated separately, see below
        else:
            if ch == "\\":
                i += 1
            elif ch == q:
                q = None
        i += 1
    return q is None


SIG_BSBS = "escaped-backslash-before-closing-quote-ends-case-protection-late"


def run_stream(args, c11, bdir, wd, drv_ok, dist, spec_fail, corr_fail, proof_problems, samples, tree_stream):
    asl = c11.asl
    d = dist.setdefault("args", {})
    evaluations = 0
    distinct = set()
    ntext = {"quick": 600, "thorough": 8000}[args.tier]
    nprog = {"quick": 300, "thorough": 4000}[args.tier]

    # ---------------- tree stream
    rng = common.rng_for(args.seed, "C11/args/prog")
    progs = []
    gens = []
    for k in range(nprog):
        cs = (k % 4 == 3)
        src, enc, hdr, g = gen_program(rng, cs, c11)
        progs.append((src, enc, hdr, cs))
        gens.append(g)
    answers = common.driver("c11arg", ["T " + p[1] for p in progs], timeout=1800) if drv_ok else []
    kinds, classes = {}, {}
    for k, ((src, enc, hdr, cs), ans) in enumerate(zip(progs, answers)):
        f = ans.split()
        if not f or f[0] != "ok":
            proof_problems.append("driver c11arg T: %s on program %d" % (ans[:60], k))
            continue
        tame = f[1] == "tame=1"
        ns = int(f[2].split("=")[1])
        spec_lines = [unhx(x) for x in f[3:3 + ns]]
        model_lines = [unhx(x) for x in f[4 + ns:]]
        if tame and spec_lines != model_lines:
            proof_problems.append("C11_args_fold_refines instance fails on program %d" % k)
        hand = ("\n".join(hdr) + "\n").encode() + b"".join(l + b"\n" for l in spec_lines)
        flags = ["-U"] if cs else []
        rc1, m1, p1, i1 = asl(bdir, wd, "ac%d" % k, src, flags=flags, want_i=True)
        rc2, m2, p2, _ = asl(bdir, wd, "ah%d" % k, hand, flags=flags)
        evaluations += 1
        distinct.add(enc)
        for kk, v in gens[k].kinds.items():
            kinds[kk] = kinds.get(kk, 0) + v
        for kk, v in gens[k].classes.items():
            classes[kk] = classes.get(kk, 0) + v
        d["programs"] = d.get("programs", 0) + 1
        d["programs_cs"] = d.get("programs_cs", 0) + int(cs)
        # ALLARGS is put together from the arguments as written, before they are folded (as.c ExpandMacro) - the model folds first; the
        # difference is in letters outside constants only (no code depends on it): such programs are compared case-blind OUTSIDE constants
        loose = (not cs) and "macro-allargs" in gens[k].kinds
        d["i_compared_case_blind_outside_constants"] = d.get("i_compared_case_blind_outside_constants", 0) + int(loose)
        info = dict(tag="args-prog %d" % k, source=src, hand_expansion=hand.decode("latin-1"), asflags=" ".join(flags))
        c1 = c11.canon_p(p1) if p1 is not None else None
        c2 = c11.canon_p(p2) if p2 is not None else None
        if rc2 != 0 or c2 is None:
            info["why"] = "the hand expansion does not assemble (generator/spec problem?): rc=%s %s" % (rc2, m2[-400:])
            if rc1 != 0:
                info["why"] += " | construct program: rc=%s %s" % (rc1, m1[-400:])
            spec_fail.append(info)
            continue
        if rc1 != 0 or c1 is None:
            info["why"] = "construct program rejected although its hand expansion assembles: rc=%s %s" % (rc1, m1[-400:])
            spec_fail.append(info)
            continue
        if c1 != c2:
            info["why"] = "code file of the construct program differs from the code file of its hand expansion (argument texts folded outside " \
                          "quoted constants only): %r vs %r" % (c11.first_cell_diff(c1, c2))
            if not tame and i1 is not None and norm_exact(i1.split(b"\n"), loose) == norm_exact(model_lines, loose):
                # an argument with an escaped backslash in a constant, and asl inserts exactly what the model of UpString stores
                info["sig"] = SIG_BSBS
                d["escaped_backslash_finding_programs"] = d.get("escaped_backslash_finding_programs", 0) + 1
            spec_fail.append(info)
            continue
        if i1 is not None:
            a = norm_exact(i1.split(b"\n"), loose)
            b = norm_exact(model_lines, loose)
            d["i_compared_case_exact"] = d.get("i_compared_case_exact", 0) + 1
            if a != b:
                info["why"] = "-P macro processor output differs (case exact) from the expansion with the MODEL's argument texts (code files agree)"
                dd = [j for j in range(min(len(a), len(b))) if a[j] != b[j]][:1]
                info["first_diff"] = repr((a[dd[0]][-80:], b[dd[0]][-80:])) if dd else "lengths %d/%d" % (len(a), len(b))
                corr_fail.append(info)
                continue
        if len(samples) < 9 and k % 37 == 5:
            samples.append(dict(kind="args-program", source=src[:700], expansion=b"\n".join(spec_lines).decode("latin-1")[:500]))
    # ---------------- text stream: one argument text per case, collected by MACRO / IRP / IRPN, body = comment line
    for cs in (False, True):
        rng = common.rng_for(args.seed, "C11/args/text/%d" % cs)
        cases = []
        while len(cases) < (ntext if not cs else ntext // 4):
            t = raw_text(rng)
            if "=" in t.split("'")[0].split('"')[0]:
                continue
            if not one_argument(t):
                continue
            cases.append((rng.choice(["M", "I", "N", "N2"]), t))
        lines = [" cpu z80", " org 0", "val1 equ 5", "tq macro pp,oo", ";Q<pp|oo>", " endm"]
        for i, (kind, t) in enumerate(cases):
            lines.append(";#C%d" % i)
            if kind == "M":
                lines.append(" tq %s" % t)
            elif kind == "I":
                lines += [" irp pp,%s" % t, ";Q<pp>", " endm"]
            elif kind == "N":
                lines += [" irpn 1,pp,%s" % t, ";Q<pp>", " endm"]
            else:
                lines += [" irpn 2,oo,pp,77,%s" % t, ";Q<pp>", " endm"]
        lines.append(";#END")
        src = "\n".join(lines) + "\n"
        rc, msg, p, i = asl(bdir, wd, "argt%d" % cs, src, flags=(["-U"] if cs else []), want_i=True, timeout=300)
        if i is None:
            spec_fail.append(dict(tag="args-text cs=%d" % cs, source=src[:20000], asflags="-U" if cs else "",
                                  why="asl wrote no -P output for constructs whose bodies are comment lines: rc=%s %s" % (rc, msg[-400:])))
            continue
        real = c11.parse_i(i)
        answers = common.driver("c11arg", ["A %d %s" % (cs, hx(t)) for _, t in cases], timeout=600) if drv_ok else []
        for k, ((kind, t), ans) in enumerate(zip(cases, answers)):
            kv = dict(x.split("=", 1) for x in ans.split() if "=" in x)
            if "model" not in kv:
                proof_problems.append("driver c11arg A: " + ans[:80])
                continue
            got = real.get(k, [])
            if len(got) != 1 or not got[0].startswith(b";Q<") or not got[0].endswith(b">"):
                d["text_not_one_argument"] = d.get("text_not_one_argument", 0) + 1     # asl split / rejected the text: not in the class
                continue
            got = got[0][3:-1]
            if kind == "M":
                if not got.endswith(b"|"):
                    d["text_not_one_argument"] = d.get("text_not_one_argument", 0) + 1
                    continue
                got = got[:-1]
            model, spec, tame = unhx(kv["model"]), unhx(kv["spec"]), kv["tame"] == "1"
            if len(got) < len(t) and t.encode("latin-1").upper().startswith(got.upper()):
                # asl took only a beginning of the text as the argument (its comment / argument splitter sees the quotation marks differently,
                # e.g. the apostrophe of `af'` is the Z80 register's): not ONE argument, outside the class (folding keeps the length)
                d["text_not_one_argument"] = d.get("text_not_one_argument", 0) + 1
                continue
            evaluations += 1
            distinct.add((kind, cs, t))
            d["texts"] = d.get("texts", 0) + 1
            d["texts_" + kind] = d.get("texts_" + kind, 0) + 1
            d["texts_untame"] = d.get("texts_untame", 0) + int(not tame)
            d["texts_changed_by_fold"] = d.get("texts_changed_by_fold", 0) + int(spec != t.encode("latin-1"))
            hdr = {"M": "tq macro pp,oo\n;Q<pp|oo>\n endm\n tq %s\n", "I": " irp pp,%s\n;Q<pp>\n endm\n", "N": " irpn 1,pp,%s\n;Q<pp>\n endm\n",
                   "N2": " irpn 2,oo,pp,77,%s\n;Q<pp>\n endm\n"}[kind] % t
            info = dict(tag="args-text cs=%d kind=%s case=%d" % (cs, kind, k), source=hdr, asflags="-U" if cs else "", argument=t,
                        real=repr(got), model=repr(model), spec=repr(spec))
            if tame and model != spec:
                proof_problems.append("C11_args_fold_refines instance fails on %r: model %r spec %r" % (t, model, spec))
            if got != spec:
                info["why"] = ("the inserted argument text differs from the SPEC foldArg (upper case outside quoted constants only; "
                               "marks=%s)" % kv.get("marks"))
                if not tame and got == model and "\\\\" in t:
                    info["sig"] = SIG_BSBS
                spec_fail.append(info)
                continue
            if got != model:
                info["why"] = "the inserted argument text differs from the model of UpString (Model/ArgFold.lean)"
                corr_fail.append(info)

    d["constructs"] = kinds
    d["argument_classes"] = classes
    return evaluations, distinct


def norm_exact(lines, loose=False):
    from . import c11
    out = []
    for ln in lines:
        t = ln.strip()
        if not t:
            continue
        op = t.split()[0].lower()
        if op in (b"cpu", b"org"):
            continue
        t = b" ".join(ln.split())
        out.append(c11.upstring(t.decode("latin-1")).encode("latin-1") if loose else t)
    return out
