"""C04, statement classes above a single WriteCode() call (see lean/AslModel/Model/CodeStmt.lean):

* statements that emit MANY bytes through a chunked path: BINCLUDE of generated files (1 .. 140000 bytes, whole /
  from an offset / offset + length) placed at every fill level of the open record, on byte-addressed targets with large
  address spaces (the record limit of 65535 bytes falls into the first, a middle or the last 256-byte block, exactly
  behind one, or not at all); REPT bodies and nested DUP groups that lay down long runs on byte-, word- and
  dword-addressed targets;
* one asl call with 2..4 sources that end in `END <address>`, `END` or without END, in every order: each code file
  must be what its own source specifies (entry record iff its own END names an address).

Request tokens: see lean/Driver/C04.lean."""
import itertools
import os

from .. import common

# targets whose CODE segment is larger than one record can cover many times: byte-addressed ones, and
# (since BINCLUDE counts address units) two with 16- / 32-bit address units
BIG_TARGETS = [
    dict(cpu="65816", hdr=0x19, segs={"code": (1, 1)}, max_addr={"code": 0xffffff}, style="intel"),
    dict(cpu="mpc601", hdr=0x05, segs={"code": (1, 1)}, max_addr={"code": 0xffffffff}, style="intel"),
    dict(cpu="80c167", hdr=0x4c, segs={"code": (1, 1)}, max_addr={"code": 0xffffff}, style="intel"),
    dict(cpu="ns32016", hdr=0x08, segs={"code": (1, 1)}, max_addr={"code": 0xffffff}, style="intel"),
    dict(cpu="z8001", hdr=0x34, segs={"code": (1, 1)}, max_addr={"code": 0x7fffff}, style="intel"),
    dict(cpu="m16", hdr=0x13, segs={"code": (1, 1)}, max_addr={"code": 0xffffffff}, style="intel"),
    dict(cpu="68020", hdr=0x01, segs={"code": (1, 1)}, max_addr={"code": 0xffffffff}, style="moto68k"),
    dict(cpu="68000", hdr=0x01, segs={"code": (1, 1)}, max_addr={"code": 0xffffff}, style="moto68k"),
    dict(cpu="sh7600", hdr=0x6c, segs={"code": (1, 1)}, max_addr={"code": 0xffffffff}, style="moto68k", padding=False),
    dict(cpu="h8/300h", hdr=0x68, segs={"code": (1, 1)}, max_addr={"code": 0xffffff}, style="moto68k", padding=False),
]
WIDE_TARGETS = [
    dict(cpu="320c30", hdr=0x76, segs={"code": (1, 4)}, max_addr={"code": 0xffffff}, style="c30"),
    dict(cpu="320c25", hdr=0x75, segs={"code": (1, 2)}, max_addr={"code": 0xffff}, style="c25"),
]
SMALL_WIDE_TARGETS = [
    dict(cpu="16c84", hdr=0x70, segs={"code": (1, 2)}, max_addr={"code": 0x3ff}, style="pic"),
    dict(cpu="atmega8", hdr=0x3b, segs={"code": (1, 2)}, max_addr={"code": 0xfff}, style="avr"),
]

REC_MAX = 65535


def prologue(tgt):
    lines = ["\tcpu %s" % tgt["cpu"]]
    if tgt.get("padding", tgt["style"] == "moto68k"):
        lines.append("\tpadding off")
    return lines


def reserve_line(tgt, k):
    return {"intel": "\tds %d", "moto68k": "\tds.b %d", "pic": "\tres %d", "c30": "\tbss %d", "c25": "\tbss %d", "avr": "\tres %d"}[tgt["style"]] % k


class FilePool:
    """binary files for BINCLUDE, written into the work directory; contents from the run's random stream"""

    def __init__(self, rng, wd, tier):
        self.files = {}
        sizes = [rng.randrange(1, 40), rng.randrange(200, 600), rng.choice([256, 512, 768, 1024]),
                 rng.choice([65534, 65535, 65536, 65537]), rng.randrange(66000, 100000), rng.randrange(131000, 140001)]
        if tier != "quick":
            sizes += [1, 255, 257, 4096, 32768, 140000, rng.randrange(1, 140000), rng.randrange(1, 140000)]
        for i, n in enumerate(sizes):
            name = "blob%d.bin" % i
            data = rng.randbytes(n)
            with open(os.path.join(wd, name), "wb") as f:
                f.write(data)
            self.files[name] = data

    def pick(self, rng, need):
        """a file with at least `need` bytes (the smallest ones preferred, so that request lines stay short)"""
        ok = sorted((len(d), n) for n, d in self.files.items() if len(d) >= need)
        if not ok:
            return None
        return ok[min(len(ok) - 1, rng.choice([0, 0, 1, 2]))][1]


def fill_stmts(rng, tgt, gran, n):
    """statements that lay down exactly n bytes (a multiple of gran): (lines, [bytes of every emitting statement])"""
    lines, chunks = [], []
    if gran == 1:
        op = "dc.b" if tgt["style"] == "moto68k" else "db"
        while n > 0:
            k = min(n, rng.choice([1, 2, 7, 200, 511, 512, 4096, 30000, 65535]))
            if k <= 8:
                vals = [rng.randrange(256) for _ in range(k)]
                lines.append("\t%s %s" % (op, ",".join(map(str, vals))))
                chunks.append(bytes(vals))
            else:
                v = rng.randrange(256)
                lines.append("\tdc.b [%d]%d" % (k, v) if tgt["style"] == "moto68k" else "\tdb %d dup (%d)" % (k, v))
                chunks.append(bytes([v]) * k)
            n -= k
        return lines, chunks
    # wider address units: TI `word`, PIC/AVR `data`; long runs through REPT (one WriteCode call per copy and line)
    op = "word" if tgt["style"] in ("c30", "c25") else "data"
    top = {"c30": 1 << 32, "c25": 1 << 16, "pic": 0x4000, "avr": 1 << 16}[tgt["style"]]
    units = n // gran
    while units > 0:
        per = min(units, rng.choice([1, 3, 8, 16]))
        vals = [rng.randrange(top) for _ in range(per)]
        line = "\t%s %s" % (op, ",".join(map(str, vals)))
        bs = b"".join(v.to_bytes(gran, "little") for v in vals)
        copies = max(1, min(units // per, rng.choice([1, 2, 100, 100000])))
        if copies > 1:
            lines += ["\trept %d" % copies, line, "\tendm"]
        else:
            lines.append(line)
        chunks += [bs] * copies
        units -= per * copies
    return lines, chunks


def binclude_stmt(rng, pool, n):
    """a BINCLUDE that includes exactly n bytes: (line, request token, file name) or None"""
    name = pool.pick(rng, n)
    if name is None:
        return None
    data = pool.files[name]
    size = len(data)
    forms = ["ofs_len"]
    if n == size:
        forms += ["whole", "whole", "ofs0"]
    if n < size:
        forms += ["ofs"]
    form = rng.choice(forms)
    if form == "whole":
        return '\tbinclude "%s"' % name, "b:0,-,%s" % (data.hex() or "-"), name
    if form == "ofs0":
        return '\tbinclude "%s",0' % name, "b:0,-,%s" % (data.hex() or "-"), name
    if form == "ofs":
        return '\tbinclude "%s",%d' % (name, size - n), "b:%d,-,%s" % (size - n, data.hex() or "-"), name
    ofs = rng.choice([0, size - n, rng.randrange(0, size - n + 1)])
    return '\tbinclude "%s",%d,%d' % (name, ofs, n), "b:%d,%d,%s" % (ofs, n, data.hex() or "-"), name


def gen_chunked(rng, pool, tier, small_wide=False, end_kind=None):
    """BINCLUDEs relative to the fill of the open record.  returns (source, tail, stats, files used)"""
    quick = tier == "quick"
    if small_wide:
        tgt = rng.choice(SMALL_WIDE_TARGETS)
    else:
        tgt = rng.choice(BIG_TARGETS + BIG_TARGETS + WIDE_TARGETS)
    hdr = tgt["hdr"]
    sid, gran = tgt["segs"]["code"]
    lim = tgt["max_addr"]["code"]
    lines = prologue(tgt)
    if lim > 0x100000:
        start = rng.choice([1, 256, 4096, 0x7ff0, 0xff00, 0xfffe, rng.randrange(1, lim - 600000)])
    else:
        start = rng.choice([1, 16, 100])
    lines.append("\torg %d" % start)
    pc = start
    evs = []
    used = set()
    st = dict(emits=0, reserves=0, orgs=0, segsw=0, cpusw=0, bigstmt=0, bytes=0, bincludes=0, binc_bytes=0, binc_split=0,
              binc_split_first=0, binc_split_last=0, binc_exact=0, binc_empty=0, binc_wide=0)
    fill = 0   # bytes in the open record
    room = (lim - start) * gran - 64       # bytes the segment still has

    def emit_all(ls, chunks):
        nonlocal pc, fill
        lines.extend(ls)
        for bs in chunks:
            evs.append("e:" + bs.hex())
            pc += len(bs) // gran
            fill = len(bs) if fill + len(bs) > REC_MAX else fill + len(bs)
            st["emits"] += 1
            st["bytes"] += len(bs)

    def down(n):
        return n - n % gran

    for _round in range(rng.choice([1, 1, 1, 2] if quick else [1, 1, 2, 3])):
        budget = room - st["bytes"]
        if budget < 4 * gran:
            break
        # bring the open record to a chosen fill level
        want = rng.choice([0, rng.randrange(1, 600), REC_MAX - rng.randrange(0, 4), REC_MAX - rng.randrange(0, 700),
                           REC_MAX - rng.randrange(0, 700), rng.randrange(0, REC_MAX + 1)])
        want = down(min(max(want, fill), fill + budget // 2))
        emit_all(*fill_stmts(rng, tgt, gran, want - fill))
        left = down(REC_MAX - fill)      # what still fits into the open record
        kinds = ["exact", "one_over", "block_edge", "block_edge", "small", "empty", "big", "two_records"]
        if not quick:
            kinds += ["big", "big", "two_records"]
        kind = rng.choice(kinds)
        if kind == "exact":
            n = left
        elif kind == "one_over":
            n = left + gran
        elif kind == "block_edge":
            # the limit falls at / next to a boundary of the 256-byte blocks, or into the last (short) block
            n = left + rng.choice([0, gran, 256 - gran, 256, 256 + gran]) + 256 * rng.randrange(0, 6)
        elif kind == "big":
            n = rng.randrange(REC_MAX + 1, 140001)
        elif kind == "two_records":
            n = left + REC_MAX + rng.choice([0, 1, 2, 300])
        elif kind == "small":
            n = rng.randrange(1, 700)
        else:
            n = 0
        n = down(max(0, min(n, 140000, room - st["bytes"] - 1024)))
        if n == 0 and pc == 0:
            continue
        b = binclude_stmt(rng, pool, n)
        if b is None:
            continue
        line, tok, name = b
        used.add(name)
        lines.append(line)
        evs.append(tok)
        st["bincludes"] += 1
        st["binc_bytes"] += n
        st["bytes"] += n
        st["binc_wide"] += int(gran > 1)
        if n == 0:
            st["binc_empty"] += 1
        if n == left and n > 0:
            st["binc_exact"] += 1
        if fill + n > REC_MAX:
            st["binc_split"] += 1
            # which block meets the limit
            blocks = (n + 255) // 256
            first_over = next(i for i in range(blocks) if fill + min(n, 256 * (i + 1)) > REC_MAX)
            if first_over == 0:
                st["binc_split_first"] += 1
            if first_over == blocks - 1:
                st["binc_split_last"] += 1
        pc += n // gran
        fill = 0                   # WriteCode: NewRecord(PC + CodeLen) behind every BINCLUDE
        if room - st["bytes"] < 2048:
            break
        r = rng.random()
        if r < 0.45:
            emit_all(*fill_stmts(rng, tgt, gran, gran * rng.choice([1, 1, 2, 3, 300])))
        elif r < 0.6:
            k = rng.choice([1, 2, 16])
            lines.append(reserve_line(tgt, k))
            pc += k
            evs.append("j:%d,%d,%d,%d" % (hdr, sid, gran, pc))
            st["reserves"] += 1
        elif r < 0.7 and lim > 0x100000:
            a = rng.randrange(1, lim - 600000)
            lines.append("\torg %d" % a)
            pc = a
            room = (lim - a) * gran - 64 + st["bytes"]
            evs.append("j:%d,%d,%d,%d" % (hdr, sid, gran, pc))
            st["orgs"] += 1
    endtok = "-"
    if end_kind is None:
        r = rng.random()
        end_kind = "addr" if r < 0.3 else ("plain" if r < 0.5 else "absent")
    if end_kind == "addr":
        a = rng.randrange(0, 0x10000)
        lines.append("\tend %d" % a)
        endtok = str(a)
    elif end_kind == "plain":
        lines.append("\tend")
        endtok = "e"
    st["end_" + end_kind] = 1
    tail = "%d %d %d %d %s %s" % (hdr, sid, gran, start, endtok, " ".join(evs))
    return "\n".join(lines) + "\n", tail, st, sorted(used)


def gen_rept(rng, targets, data_stmt, reserve_stmt, tier):
    """REPT bodies / nested DUP groups that lay down long runs; the record limit is met by the n-th copy of a statement"""
    tgt = rng.choice(targets + BIG_TARGETS)
    hdr = tgt["hdr"]
    sid, gran = tgt["segs"]["code"]
    lim = tgt["max_addr"]["code"]
    lines = prologue(tgt)
    start = rng.choice([0, 16, 0x100])
    lines.append("\torg %d" % start)
    pc = start
    evs = []
    st = dict(emits=0, reserves=0, orgs=0, segsw=0, cpusw=0, bigstmt=0, bytes=0, rept_blocks=0, rept_copies=0, nested_dup=0)
    room_bytes = (lim - start - 64) * gran
    for _blk in range(rng.choice([1, 1, 2])):
        body = []
        for _ in range(rng.choice([1, 1, 2, 3])):
            if tgt["style"] == "intel" and gran == 1 and rng.random() < 0.35:
                a, m = rng.randrange(1, 40), rng.randrange(1, 9)
                x, y, z = (rng.randrange(256) for _ in range(3))
                body.append(("\tdb %d dup (%d dup (%d,%d),%d)" % (a, m, x, y, z), (bytes([x, y]) * m + bytes([z])) * a))
                st["nested_dup"] += 1
            else:
                h = rng.choice([gran, 2 * gran, 3 * gran, 20, 60, 120, 255, 256, 257])
                if tgt["style"] == "moto8":
                    h = min(h, 40)
                body.append(data_stmt(rng, tgt, gran, h, max(h, gran)))
        res = rng.choice([0, 0, 0, 0, 1, 2])
        blen = sum(len(bs) for _, bs in body)
        want = rng.choice([300, 5000, REC_MAX - 100, REC_MAX + 1, 70000] + ([] if tier == "quick" else [70000, 140000]))
        want = min(want, room_bytes - st["bytes"] - 1024)
        k = max(1, min(want // max(1, blen + res * gran), 300 if res else 3000))
        if (pc - start) + k * (blen // gran + res) + 16 > lim - start:
            break
        lines.append("\trept %d" % k)
        lines += [src for src, _ in body]
        if res:
            lines.append(reserve_line(tgt, res) if tgt["style"] == "moto68k" else reserve_stmt(tgt, res))
        lines.append("\tendm")
        for _i in range(k):
            for _, bs in body:
                evs.append("e:" + bs.hex())
                pc += len(bs) // gran
                st["bytes"] += len(bs)
                st["emits"] += 1
            if res:
                pc += res
                evs.append("j:%d,%d,%d,%d" % (hdr, sid, gran, pc))
                st["reserves"] += 1
        st["rept_blocks"] += 1
        st["rept_copies"] += k
    src, bs = data_stmt(rng, tgt, gran, 2 * gran, 2 * gran)
    lines.append(src)
    evs.append("e:" + bs.hex())
    st["emits"] += 1
    tail = "%d %d %d %d - %s" % (hdr, sid, gran, start, " ".join(evs))
    return "\n".join(lines) + "\n", tail, st, []


# ---------------------------------------------------------------------------------------------------------------
# several sources in one asl call

END_KINDS = ["addr", "plain", "absent"]


def session_plan(rng, tier):
    """[(kinds per source)]: every source set mixes the ways a source can end"""
    plans = []
    base = [("addr", "plain", "absent"), ("addr", "absent"), ("addr", "plain"), ("addr", "addr", "absent"),
            ("plain", "addr", "absent", "addr"), ("absent", "addr", "plain", "plain")]
    n = 8 if tier == "quick" else 60
    for i in range(n):
        if i < len(base):
            plans.append(base[i])
        else:
            k = rng.choice([2, 3, 3, 4])
            ks = [rng.choice(END_KINDS) for _ in range(k)]
            if "addr" not in ks:
                ks[rng.randrange(k)] = "addr"
            plans.append(tuple(ks))
    return plans


def orders_of(rng, n, tier):
    perms = list(itertools.permutations(range(n)))
    cap = 6 if tier == "quick" else 24
    if len(perms) > cap:
        rng.shuffle(perms)
        perms = perms[:cap]
    return perms


def run_session(bdir, wd, tag, members, order, style, extra_passes):
    """members: [(name, source text)]; returns (rc, output text, [code file bytes or None] in `order`)"""
    paths, outs = [], []
    for i in order:
        name, src = members[i]
        f = os.path.join(wd, "%s_%s.asm" % (tag, name))
        with open(f, "w") as fh:
            fh.write(src)
        paths.append(f)
        outs.append(f[:-4] + (".p" if style == "default" else ".out"))
    for o in outs:
        if os.path.exists(o):
            os.unlink(o)
    args = ["-q", "-i", os.path.join(common.REPO, "include")] + paths
    if style == "dash_o":
        for o in outs:
            args += ["-o", o]
    env = {"ASL_VERIF_EXTRA_PASSES": str(extra_passes)} if extra_passes else None
    rc, so, se = common.run_tool(bdir, "asl", args, wd, timeout=120, env=env)
    pbs = []
    for o in outs:
        pbs.append(open(o, "rb").read() if os.path.exists(o) else None)
        if os.path.exists(o):
            os.unlink(o)
    for p in paths:
        os.unlink(p)
    return rc, (so + se).decode(errors="replace"), pbs
