"""C03, assembler half with a model, part 2: names built with `{stringsymbol}` and user-defined functions.

 * names (Model/StrSymName.lean = asmpars.c ExpandStrSymbol with its buffer bound, Spec/NameFunc.lean, Props/C03_Names.lean,
   driver mode `c03nam`): one use of a constructed name per program - label, EQU symbol, SECTION name, macro name, PUSHV stack
   name - with 1..4 `{symbol}` expansions, literal text of 0..1100 characters in front of / between / behind them, string
   symbols of 0..1023 characters, total lengths sweeping across 1000..1100 (STRINGSIZE) and 2040..2060, small names, plus
   malformed ones (unterminated brace, nested braces, undefined symbol, `{}`, wrong-case symbol with -U, a value that begins
   with a digit, empty result).  The model's expansion `p` (pre-pass through the driver) is probed in the same program: the
   name must be found under `p` and not under `p` without its last character.  Compared: exit status and printed events with
   the model (B); the SPEC (C): documented end, a well-formed name is found under a name the manual allows (whole
   concatenation up to 255 characters, otherwise a prefix of it), everything else is reported as an error.
 * FUNCTION (Model/UserFunc.lean = asmallg.c CodeFUNCTION + asmsub.c ReplaceLine / CompressLine / ExpandLine,
   Props/C03_UserFunc.lean, driver mode `c03fn`): definitions with 0..8 parameters - valid, duplicate, over-long, empty and
   invalid names in every position -, formulas that use / do not use the parameters (other case, `\\name\\`, parentheses at
   both ends, operators side by side), calls with right and wrong argument counts, other case, undefined functions, nested and
   (separately, known defect class) recursive calls, with and without -U.  Compared: exit status, error numbers and the
   printed values with the model (B); SPEC (C): documented end within the CPU limit, every malformed definition is reported,
   calls print the value of the formula with the arguments inserted.
"""
import os
import re

from .. import common
from . import c03_asm

ASL_OK = {0, 2, 3}


def stringsize():
    try:
        vals = [int(x) for x in re.findall(r"#\s*define\s+STRINGSIZE\s+(\d+)", open(os.path.join(common.REPO, "datatypes.h")).read())]
        return max(vals) if vals else 1024
    except OSError:
        return 1024


def argcntmax():
    try:
        return int(re.search(r"#\s*define\s+ArgCntMax\s+(\d+)", open(os.path.join(common.REPO, "asmdef.h")).read()).group(1))
    except (OSError, AttributeError):
        return 20


def hx(s):
    return s.encode("latin-1").hex() or "-"


# ---------------------------------------------------------------------------------------------------------
# names

VAL_ALPHA = "qxzjk"
LIT_ALPHA = "hvwy"
KINDS = ["lab", "equ", "sec", "mac", "stk"]


def rnd_text(rng, n, alpha, digits=True):
    if n <= 0:
        return ""
    pool = alpha + alpha.upper() + ("0123456789" if digits else "")
    return rng.choice(alpha + alpha.upper()) + "".join(rng.choice(pool) for _ in range(n - 1))


class NameCase:
    def __init__(self, cls, cs, kind, syms, name, listing=False):
        self.cls, self.cs, self.kind, self.syms, self.name, self.listing = cls, cs, kind, syms, name, listing
        self.p = None
        self.tag = None

    def syms_tok(self):
        return ";".join("%s:%s" % (hx(n), hx(v)) for n, v in self.syms) or "-"

    def request(self, size, oc, obs):
        return "%d %d %s %s %s %s %s" % (size, 1 if self.cs else 0, self.syms_tok(), self.kind, hx(self.name), oc, obs)

    def source(self):
        ok = self.tag == "ok"
        p = self.p or ""
        long_ = len(p) >= 2
        L = ["\tcpu z80", "\toutradix 10"]
        for n, v in self.syms:
            L.append('%s\tequ\t"%s"' % (n, v))
        nm = self.name

        def ifdef(x):
            return ["\tifdef %s" % x, '\tmessage "D"', "\telse", '\tmessage "U"', "\tendif"]
        if self.kind in ("lab", "equ"):
            L.append("%s:\tnop" % nm if self.kind == "lab" else "%s\tequ\t7" % nm)
            if ok:
                L += ifdef(p)
                if long_:
                    L += ifdef(p[:-1])
        elif self.kind == "sec":
            L += ["\tsection %s" % nm, "\tnop"]
            if ok and long_:
                L.append("\tendsection %s" % p[:-1])
            L.append("\tendsection %s" % p if ok else "\tendsection")
        elif self.kind == "mac":
            if ok:
                L += ["%s\tmacro" % nm, '\tmessage "M"', "\tendm", "\t%s" % p]
                if long_:
                    L.append("\t%s" % p[:-1])
            else:
                L += ["%s\tmacro" % nm, "\tendm"]
        else:
            L += ["v\tset\t5", "w\tset\t0", "\tpushv %s,v" % nm]
            if ok:
                if long_:
                    L.append("\tpopv %s,w" % p[:-1])
                L += ["\tpopv %s,w" % p, '\tmessage "\\{w}"']
        L.append("\tnop")
        return ("\n".join(L) + "\n").encode("latin-1")


def gen_names(rng, n, size):
    cases = []
    vlens = [0, 1, 2, 5, 17, 100, 255, 256, 300, size // 2 - 1, size // 2, 700, 1000, size - 2, size - 1]
    for i in range(n):
        cs = rng.random() < 0.25
        kind = KINDS[i % len(KINDS)]
        cls = ["small", "sweep1", "sweep2", "random", "malformed", "sweep1", "edge"][i % 7]
        nsym = rng.choice([1, 1, 2, 3])
        syms = []
        for k in range(nsym):
            ln = rng.choice([1, 2, 3, 5]) if cls == "small" else rng.choice(vlens)
            if cls == "edge" and k == 0:
                ln = rng.choice([0, 1, size - 1, size - 2])
            alpha = VAL_ALPHA if kind != "mac" else VAL_ALPHA
            v = rnd_text(rng, ln, alpha)
            syms.append(("zq%d" % k, v))
        nexp = rng.choice([1, 2, 2, 3, 4])
        refs = [rng.randrange(nsym) for _ in range(nexp)]
        # literal pieces: in front of, between and behind the expansions (nexp + 1 of them)
        lits = []
        for k in range(nexp + 1):
            ln = rng.choice([0, 0, 1, 2, 7]) if cls in ("small", "edge") else rng.choice([0, 0, 1, 3, 40, 200, 600, 768, 1023, 1024, 1100])
            lits.append(ln)
        vsum = sum(len(syms[r][1]) for r in refs)
        if cls in ("sweep1", "sweep2"):
            target = rng.randrange(size - 24, size + 77) if cls == "sweep1" else rng.randrange(2 * size - 8, 2 * size + 13)
            k = rng.randrange(nexp + 1)
            others = sum(lits) - lits[k]
            lits[k] = max(0, target - vsum - others)
            if lits[k] > 1100:
                # spread over the pieces (each at most 1100 characters)
                rest = lits[k] - 1100
                lits[k] = 1100
                for j in range(nexp + 1):
                    if j != k and rest > 0:
                        add = min(rest, max(0, 1100 - lits[j]))
                        lits[j] += add
                        rest -= add
        parts = []
        for k in range(nexp + 1):
            t = rnd_text(rng, lits[k], LIT_ALPHA)
            if k > 0 and t and rng.random() < 0.3:
                t = rng.choice("0123456789") + t[1:]
            parts.append(t)
            if k < nexp:
                ref = syms[refs[k]][0]
                if rng.random() < 0.15:
                    ref = ref.upper()            # another case: found without -U only
                parts.append("{%s}" % ref)
        name = "".join(parts)
        if cls == "malformed":
            m = rng.choice(["open", "open-end", "nested", "undef", "empty-braces", "digit-first", "close-only", "empty-result", "quote"])
            if m == "open":
                name = name.replace("}", "", 1)
            elif m == "open-end":
                name = name + "{zq0"
            elif m == "nested":
                name = name.replace("{zq0}", "{zq0{zq0}}", 1) if "{zq0}" in name else "{zq0{zq0}}" + name
            elif m == "undef":
                name = name + "{zq9}" + rng.choice(["", "h"])
            elif m == "empty-braces":
                name = rng.choice(["", "h"]) + "{}" + name
            elif m == "digit-first":
                syms[0] = ("zq0", "1" + syms[0][1][:40])
                name = "{zq0}" + name[:60].replace("{", "").replace("}", "")
            elif m == "close-only":
                name = "h}" + name[:50]
            elif m == "empty-result":
                syms[0] = ("zq0", "")
                name = "{zq0}" * rng.choice([1, 2])
            else:
                name = 'h{"ab"}' + rng.choice(["", "v"])
            cls = "malformed:" + m
        if not name:
            name = "{zq0}"
        cases.append(NameCase(cls, cs, kind, syms, name, listing=(rng.random() < 0.15)))
    return cases


# ---------------------------------------------------------------------------------------------------------
# FUNCTION

GOOD_PARAMS = ["x", "y", "ab", "x1", "Q", "val", "xy", "x2y", "n", "a", "b", "c", "d", "e", "p" * 300, "r" * 1100]
BAD_PARAMS = ["", "", "", "1x", "x_y", "x.y", "x-", "$", "9", "_", "x%", "x y"]


def rnd_case(rng, s):
    r = rng.random()
    return s if r < 0.75 else (s.upper() if r < 0.9 else s.lower())


def gen_formula(rng, params, depth, style):
    """a formula text over the parameters, decimal numbers, + - *, unary minus, parentheses"""
    def atom():
        r = rng.random()
        if params and r < 0.6:
            p = rng.choice(params)
            if not p or not p[0].isalpha() or not p.isalnum():
                p = "x"
            p = rnd_case(rng, p) if style != "exact" else p
            if rng.random() < 0.06:
                return "(\\" + p + "\\)"           # never at the end of the line: a backslash there continues the line
            return p
        if r < 0.9 or not params:
            return str(rng.choice([0, 1, 2, 3, 7, 10, 100, 255]))
        return rng.choice(["nosuch", "abs(%s)" % (rng.choice(params) or "x"), "g0(1)"])

    def expr(d):
        r = rng.random()
        if d <= 0 or r < 0.25:
            return atom()
        if r < 0.45:
            return "(" + expr(d - 1) + ")"
        if r < 0.52:
            return "(-(" + expr(d - 1) + "))"           # a sign only in front of a formula (`1+-2` is refused by AS)
        return expr(d - 1) + rng.choice(["+", "+", "-", "*"]) + expr(d - 1)
    e = expr(depth)
    r = rng.random()
    if r < 0.3:
        e = e + rng.choice(["+", "*", "-"]) + "(" + expr(1) + ")"       # ends with a parenthesis
    elif r < 0.4:
        e = "(" + expr(1) + ")" + rng.choice(["+", "*"]) + e              # begins with one
    elif r < 0.45:
        e = "((" + e + "))+(-(" + atom() + "))"                          # characters that belong to no name side by side
    return e


class FnCase:
    def __init__(self, cls, cs):
        self.cls, self.cs = cls, cs
        self.defs = []      # (name, [args])
        self.calls = []     # (name, [ints])
        self.recursive = False
        self.extra = []     # further lines (exploration: nested calls ...)

    def request(self, amax, oc, obs):
        d = ";".join("%s:%s" % (hx(n), "/".join(hx(a) for a in args)) for n, args in self.defs) or "-"
        c = ";".join("%s:%s" % (hx(n), ",".join(str(v) for v in vs)) for n, vs in self.calls) or "-"
        return "%d %d %s %s %s %s" % (1 if self.cs else 0, amax, d, c, oc, obs)

    def source(self):
        L = ["\tcpu z80", "\toutradix 10"]
        for n, args in self.defs:
            L.append("%s\tfunction %s" % (n, ",".join(args)))
        for n, vs in self.calls:
            L.append('\tmessage "\\{%s(%s)}"' % (n, ",".join(str(v) for v in vs)))
        L += self.extra
        L.append("\tnop")
        return ("\n".join(L) + "\n").encode("latin-1")


def gen_funcs(rng, n):
    cases = []
    for i in range(n):
        cs = rng.random() < 0.35
        cls = ["valid", "badname", "valid", "badname", "mixed", "explore"][i % 6]
        c = FnCase(cls, cs)
        names = ["f0", "g0", "Hh", "f1"]
        rng.shuffle(names)
        for k in range(rng.choice([1, 1, 2, 3])):
            fname = names[k] if rng.random() < 0.92 else names[0]     # sometimes defined twice
            npar = rng.choice([0, 1, 1, 2, 2, 3, 3, 4, 5, 8])
            params = [rng.choice(GOOD_PARAMS) for _ in range(npar)]
            if cls == "valid" and rng.random() < 0.7:
                params = list(dict.fromkeys(params))                  # mostly without duplicates
            style = rng.choice(["exact", "anycase"])
            if cls in ("badname", "mixed") and params and (cls == "badname" or rng.random() < 0.5):
                pos = rng.randrange(len(params))
                if rng.random() < 0.45:
                    pos = len(params) - 1                             # the last name in front of the formula
                params[pos] = rng.choice(BAD_PARAMS)
                if rng.random() < 0.15:
                    params[rng.randrange(len(params))] = rng.choice(BAD_PARAMS)
            body = gen_formula(rng, params, rng.choice([1, 2, 3]), style)
            if rng.random() < 0.04:
                body = ""
            if cls == "explore" and rng.random() < 0.5:
                body = body + "+" + rng.choice(names) + "(" + ",".join(["1"] * rng.choice([1, 2])) + ")"    # nested call of a user function
            c.defs.append((fname, params + [body]))
        for fname, args in c.defs:
            npar = len(args) - 1
            for _ in range(rng.choice([1, 1, 2])):
                r = rng.random()
                cnt = npar if r < 0.75 else rng.choice([max(0, npar - 1), npar + 1, 0, npar + 2])
                vs = [rng.choice([0, 1, 2, 3, 5, 9, 10, 17, 100, 300, -1, -3]) for _ in range(cnt)]
                nm = fname if rng.random() < 0.88 else fname.swapcase()
                c.calls.append((nm, vs))
        if rng.random() < 0.15:
            c.calls.append(("nofn", [1]))
        c.recursive = calls_itself(c)
        cases.append(c)
    return cases


def calls_itself(c):
    """does a formula of the program reach its own function again (directly or through other functions of the program)?"""
    fold = (lambda x: x) if c.cs else (lambda x: x.upper())
    names = {fold(n) for n, _ in c.defs}
    edges = {}
    for n, args in c.defs:
        body = args[-1] if args else ""
        for m in re.finditer(r"([A-Za-z][A-Za-z0-9]*)\s*\(", body):
            if fold(m.group(1)) in names:
                edges.setdefault(fold(n), set()).add(fold(m.group(1)))
    for start in names:
        seen, todo = set(), list(edges.get(start, ()))
        while todo:
            x = todo.pop()
            if x == start:
                return True
            if x not in seen:
                seen.add(x)
                todo += list(edges.get(x, ()))
    return False


def gen_recursive(rng, n):
    """self-recursive / mutually recursive definitions (known defect class `function-recursive-call-stack-overflow`)"""
    cases = []
    for i in range(n):
        c = FnCase("recursive", rng.random() < 0.3)
        c.recursive = True
        if i % 2 == 0:
            c.defs.append(("r1", ["x", "r1(x)+1"]))
        else:
            c.defs += [("r1", ["x", "r2(x)+1"]), ("r2", ["y", "r1(y)*2"])]
        c.extra = ['\tmessage "\\{r1(%d)}"' % rng.randrange(5)]
        cases.append(c)
    return cases


# ---------------------------------------------------------------------------------------------------------

def run_part(args, flavours, wd, rl, par, drv_ok=True, sigfn=None):
    tier = args.tier
    rng = common.rng_for(args.seed, "C03N")
    spec_fail, corr_fail, problems, samples, notes = [], [], [], [], []
    distinct = set()
    dist = dict(name_programs=0, name_classes={}, name_kinds={}, name_model={}, name_outcomes={}, name_truncated=0, name_longest_found=0,
                func_programs=0, func_classes={}, func_model={}, func_outcomes={}, func_defs=0, func_defs_rejected=0, func_calls=0,
                func_values_compared=0, stopped_early=[])
    cpu_s = 2 if tier == "quick" else 6
    size = stringsize()
    amax = argcntmax()

    def bump(d, k):
        d[k] = d.get(k, 0) + 1

    names = gen_names(rng, 150 if tier == "quick" else 2400, size)
    funcs = gen_funcs(rng, 150 if tier == "quick" else 2400) + gen_recursive(rng, 2 if tier == "quick" else 8)
    # pre-pass: the model's expansion of every name (the probes in the program are written from it)
    if drv_ok:
        try:
            pre = common.driver("c03nam", [c.request(size, "?", "-") for c in names], timeout=1200)
        except RuntimeError as ex:
            problems.append(str(ex))
            pre = []
        for c, a in zip(names, pre):
            kv = dict(x.split("=", 1) for x in a.split() if "=" in x)
            c.tag = kv.get("model")
            ph = kv.get("p", "-")
            c.p = "" if ph == "-" else bytes.fromhex(ph).decode("latin-1")
            if c.tag == "overflow":
                problems.append("model-internal: Model.StrSymName reports an overflow (C03_names_never_overflow says it cannot): " + c.name[:200])
    else:
        names = []

    for fl, bd in flavours:
        ns = names if (fl != "hooks" or len(flavours) == 1) else names[:400]
        rs = c03_asm.batched(lambda ic: c03_asm.run_src(rl, bd, wd, "n%s%d" % (fl, ic[0]), ic[1].source(), {}, [], cpu_s,
                                                         (["-U"] if ic[1].cs else []) + (["-L"] if ic[1].listing else [])), list(enumerate(ns)), par)
        if len(rs) < len(ns):
            dist["stopped_early"].append("names:%s:%d/%d" % (fl, len(rs), len(ns)))
        reqs = []
        for c, (oc, _code) in zip(ns, rs):
            ev = c03_asm.parse_events(oc.out) if oc.kind != "timeout" else []
            reqs.append(c.request(size, oc.token(), ";".join(ev) or "-"))
        try:
            answers = common.driver("c03nam", reqs, timeout=1200) if (drv_ok and reqs) else []
        except RuntimeError as ex:
            problems.append(str(ex))
            answers = []
        for c, (oc, _code), rq, ans in zip(ns, rs, reqs, answers):
            kv = dict(x.split("=", 1) for x in ans.split() if "=" in x)
            dist["name_programs"] += 1
            bump(dist["name_classes"], c.cls.split(":")[0])
            bump(dist["name_kinds"], c.kind)
            bump(dist["name_model"], kv.get("model", "?"))
            bump(dist["name_outcomes"], "%s:%s" % (fl, oc.token()))
            distinct.add(("nam", c.source()))
            if c.tag == "ok" and len(c.p) == size - 1:
                dist["name_truncated"] += 1
            if c.tag == "ok" and kv.get("corr") == "1":
                dist["name_longest_found"] = max(dist["name_longest_found"], len(c.p))
            if len(samples) < 3 and c.tag == "ok" and 40 < len(c.name) < 200 and dist["name_programs"] % 5 == 0:
                samples.append(dict(kind="name with {..}", use=c.kind, source=c.source().decode("latin-1"), outcome=oc.token(), verdict=ans[:300], build=fl))
            info = dict(tag="names:%s:%s" % (c.cls, c.kind), part="c03names", mode="c03nam", build=fl, outcome=oc.token(), source=c.source().decode("latin-1"),
                        flags=(["-U"] if c.cs else []) + (["-L"] if c.listing else []), request=rq[:400] + ("..." if len(rq) > 400 else ""),
                        verdict=ans[:600], name_length=len(c.name), expanded_length=len(c.p or ""),
                        stdout=oc.out.decode("latin-1")[-1500:], stderr=oc.err.decode("latin-1")[-1500:])
            if ans == "bad-request" or "specok" not in kv:
                problems.append("c03nam: bad request " + rq[:300])
                continue
            if kv.get("cons") == "0":
                problems.append("model-internal: the expansion model's result is not one the SPEC accepts: " + rq[:300])
            if kv.get("specok") != "1":
                spec_fail.append(dict(sig=None, why="name built with {symbol}: asl did not end with a documented status, the name is not found under a name the manual allows, "
                                                  "or a malformed name was not reported", **info))
            elif kv.get("corr") == "0":
                corr_fail.append(dict(why="name built with {symbol}: exit status / printed events differ from Model.StrSymName (the SPEC accepts them)", **info))

        fs = funcs if (fl != "hooks" or len(flavours) == 1) else funcs[:400]
        rs = c03_asm.batched(lambda ic: c03_asm.run_src(rl, bd, wd, "f%s%d" % (fl, ic[0]), ic[1].source(), {}, [], cpu_s, ["-U"] if ic[1].cs else []),
                             list(enumerate(fs)), par)
        if len(rs) < len(fs):
            dist["stopped_early"].append("functions:%s:%d/%d" % (fl, len(rs), len(fs)))
        reqs = []
        for c, (oc, _code) in zip(fs, rs):
            ev = c03_asm.parse_events(oc.out) if oc.kind != "timeout" else []
            reqs.append(c.request(amax, oc.token(), ";".join(ev) or "-"))
        try:
            answers = common.driver("c03fn", reqs, timeout=1200) if (drv_ok and reqs) else []
        except RuntimeError as ex:
            problems.append(str(ex))
            answers = []
        for c, (oc, _code), rq, ans in zip(fs, rs, reqs, answers):
            kv = dict(x.split("=", 1) for x in ans.split() if "=" in x)
            dist["func_programs"] += 1
            bump(dist["func_classes"], c.cls)
            bump(dist["func_model"], kv.get("model", "?"))
            bump(dist["func_outcomes"], "%s:%s" % (fl, oc.token()))
            dist["func_defs"] += len(c.defs)
            dist["func_calls"] += len(c.calls)
            mev = kv.get("mev", "-")
            dist["func_defs_rejected"] += len(re.findall(r"e(?:1020|1110|1000)\b", mev))
            if kv.get("corr") == "1":
                dist["func_values_compared"] += len(re.findall(r"(?:^|;)m", mev))
            distinct.add(("fn", c.source()))
            if len(samples) < 6 and c.cls == "badname" and dist["func_programs"] % 11 == 0:
                samples.append(dict(kind="FUNCTION", source=c.source().decode("latin-1")[:600], outcome=oc.token(), verdict=ans[:300], build=fl))
            info = dict(tag="function:%s" % c.cls, part="c03names", mode="c03fn", build=fl, outcome=oc.token(), source=c.source().decode("latin-1")[:6000],
                        flags=["-U"] if c.cs else [], request=rq[:400] + ("..." if len(rq) > 400 else ""), verdict=ans[:600],
                        stdout=oc.out.decode("latin-1")[-1500:], stderr=oc.err.decode("latin-1")[-1500:])
            if ans == "bad-request" or "specok" not in kv:
                problems.append("c03fn: bad request " + rq[:300])
                continue
            if kv.get("model") == "hang":
                problems.append("model-internal: Model.UserFunc reports a replacement loop that does not end (C03_function_never_hangs says it cannot)")
            if kv.get("cons") == "0":
                problems.append("model-internal: the function model's events are not ones the SPEC accepts: " + rq[:300])
            if c.recursive and oc.token() in ("2", "3"):
                # endless recursion has no value: reporting it and ending with an error status is a documented end
                # (since the repair 463cfd3 asl does so; the manual does not define recursive functions)
                dist["func_recursive_reported"] = dist.get("func_recursive_reported", 0) + 1
                continue
            if kv.get("specok") != "1":
                sg = None
                if c.recursive and (oc.token() in ("sig11", "sig6") or (oc.kind == "san" and re.search(rb"stack-overflow", oc.err))):
                    sg = "function-recursive-call-stack-overflow"
                elif c.recursive and oc.kind == "timeout" and len(re.findall(r"([A-Za-z][A-Za-z0-9]*)\s*\(", " ".join(a[-1] for _n, a in c.defs if a))) >= 2:
                    # a formula that reaches its own function through two or more calls: every level of the NESTMAX-deep recursion evaluates
                    # all of them, the number of evaluations (and of reported errors) grows like 2^NESTMAX
                    sg = "function-recursive-call-exponential-time"
                spec_fail.append(dict(sig=sg, why="FUNCTION: asl did not end with a documented status within the CPU limit, a malformed definition was not reported, "
                                                  "or a call printed another value than the formula with the arguments inserted", **info))
            elif kv.get("corr") == "0":
                corr_fail.append(dict(why="FUNCTION: exit status / error numbers / printed values differ from Model.UserFunc (the SPEC accepts them)", **info))
    ev = dist["name_programs"] + dist["func_programs"]
    return dict(spec_fail=spec_fail, corr_fail=corr_fail, problems=problems, evaluations=ev, distinct=distinct, dist=dist, samples=samples, notes=notes)


def replay_case(d, bdir, wd, rl):
    oc, _code = c03_asm.run_src(rl, bdir, wd, "replay", d["source"].encode("latin-1"), {}, [], 10, d.get("flags", []))
    print("asl ->", oc.token())
    print(oc.out.decode("latin-1")[-2000:])
    print(oc.err.decode("latin-1")[-2000:])
    return 0
