"""C03, assembler half with a model: histories of PUSHV/POPV statements and BINCLUDE/INCLUDE of generated files.

Two statement classes the one-statement grammar of c03.py cannot reach:

 * PUSHV/POPV *histories* (Model/SymStack.lean, Spec/SymStack.lean, Props/C03_Stacks.lean, driver mode `c03stk`):
   1-3 named stacks and the default stack, variables / EQU constants / undefined symbols, pops from empty and
   non-existent stacks, pops that are refused because the target is a constant, case variants of the names, the
   statements plain or inside REPT / IF / macro bodies, followed by further statements.  asl runs with `-n -E !1`
   (numbered messages on stdout, in order with the MESSAGE texts); compared: exit status and the printed events with
   the model (B), documented end + the SPEC's reading of the manual on the real output (C).
 * BINCLUDE of generated binary files (Model/BInclude.lean, Spec/BInclude.lean, Props/C03_BInclude.lean, driver mode
   `c03bin`): sizes 0/1/255/256/257/1000 x offset {none, 0, inside, = size, > size, negative} x length {none, 0,
   inside, to the end, beyond the end, negative, huge}, in CODE and the other segments of the 8051, on 6502/Z80/68000,
   plain / inside REPT / inside a macro with the arguments as parameters; several statements per program.
   Compared: exit status, error numbers and the code file's bytes with the model (B); the SPEC (C): documented end,
   status 0 only with exactly the selected bytes in the code file, never status 0 when bytes behind the end of the
   file were asked for.  A time-out is a violation (CPU limit per run).
 * INCLUDE of empty / binary / unterminated / self-including files: exploration only (documented end).
"""
import os
import re
import subprocess

from .. import common

SIZES = [0, 1, 255, 256, 257, 1000]
ERR_RE = re.compile(rb"^> > > .*?(?:error|warning|fatal error)? ?#(\d+)")
ASL_OK = {0, 2, 3}


# ---------------------------------------------------------------------------------------------------------
# PUSHV / POPV histories

VARS = ["v0", "v1", "v2", "v3"]
CONSTS = ["c0", "c1", "c2"]
UNDEF = ["u0", "u1"]
STACKS = ["", "regs", "Regs", "REGS", "astk", "zstk", "m.1_x", "defstk", "s"]
BAD_STACKS = ["1x", "9"]
STRVALS = ["gh", "xyz", "k", "stuvw"]


def rnd_val0(rng, ints_only=False):
    if ints_only or rng.random() < 0.75:
        return ("i", rng.randrange(10))
    return ("s", rng.choice(STRVALS))


def val_tok(v):
    return "%s%s" % (v[0], v[1])


def val_asm(v):
    return str(v[1]) if v[0] == "i" else '"%s"' % v[1]


class Hist:
    """a program: symbols defined in front, then a tree of statements (wrappers: rept k / if / macro)"""

    def __init__(self, cls, cs):
        self.cls = cls
        self.cs = cs
        self.syms = []      # (name, 'v'|'c', val)
        self.body = []      # nodes: ('S',name,val) | ('U',stack,[syms]) | ('O',stack,[syms]) | ('M',name) | ('rept',k,[nodes]) | ('if',[nodes]) | ('mac',[nodes])

    def flat(self, nodes=None):
        out = []
        for n in (self.body if nodes is None else nodes):
            if n[0] == "rept":
                for _ in range(n[1]):
                    out += self.flat(n[2])
            elif n[0] in ("if", "mac"):
                out += self.flat(n[1])
            else:
                out.append(n)
        return out

    def tokens(self):
        syms = ";".join("%s:%s:%s" % (n, k, val_tok(v)) for n, k, v in self.syms) or "-"
        st = []
        for n in self.flat():
            if n[0] == "S":
                st.append("S:%s:%s" % (n[1], val_tok(n[2])))
            elif n[0] in ("U", "O"):
                st.append("%s:%s:%s" % (n[0], n[1], ",".join(n[2])))
            else:
                st.append("M:%s" % n[1])
        return syms, ";".join(st) or "-"

    def source(self):
        lines = ["\tcpu 6502", "\torg $1000"]
        for n, k, v in self.syms:
            lines.append("%s\t%s %s" % (n, "set" if k == "v" else "equ", val_asm(v)))
        cnt = [0]

        def emit(nodes, ind):
            for n in nodes:
                if n[0] == "S":
                    lines.append("%s\tset %s" % (n[1], val_asm(n[2])))
                elif n[0] == "U":
                    lines.append("\tpushv %s,%s" % (n[1], ",".join(n[2])))
                elif n[0] == "O":
                    lines.append("\tpopv %s,%s" % (n[1], ",".join(n[2])))
                elif n[0] == "M":
                    lines.append('\tmessage "\\{%s}"' % n[1])
                elif n[0] == "rept":
                    lines.append("\trept %d" % n[1])
                    emit(n[2], ind + 1)
                    lines.append("\tendm")
                elif n[0] == "if":
                    lines.append("\tif 1")
                    emit(n[1], ind + 1)
                    lines.append("\tendif")
                elif n[0] == "mac":
                    cnt[0] += 1
                    nm = "mac%d" % cnt[0]
                    lines.append("%s\tmacro" % nm)
                    emit(n[1], ind + 1)
                    lines.append("\tendm")
                    lines.append("\t%s" % nm)
        emit(self.body, 0)
        lines.append("\tnop")
        return ("\n".join(lines) + "\n").encode("latin-1")


def gen_hist(rng, i):
    cs = rng.random() < 0.2
    cls = ["walk", "refuse", "empty", "balanced"][i % 4]
    h = Hist(cls, cs)
    # half of the histories carry integers only (a string value on a stack is the known defect class
    # `pushv-string-value-shared-buffer`: from the first such PUSHV on asl's behaviour is undefined)
    io = rng.random() < 0.55
    def rnd_val(r):
        return rnd_val0(r, io)
    for n in VARS:
        if n == "v0" or rng.random() < 0.85:
            h.syms.append((n, "v", rnd_val(rng)))
    for n in CONSTS:
        h.syms.append((n, "c", rnd_val(rng)))
    defined_v = [n for n, k, _ in h.syms if k == "v"] or ["v0"]
    nstk = rng.choice([1, 2, 3])
    pool = rng.sample(STACKS, nstk)
    if rng.random() < 0.3:
        pool.append(rng.choice(STACKS))       # a case variant / the default stack next to them
    if rng.random() < 0.08:
        pool.append(rng.choice(BAD_STACKS))

    def symlist(kinds, k=None):
        k = k or rng.choice([1, 1, 1, 2, 3])
        out = []
        for _ in range(k):
            r = rng.random()
            if "u" in kinds and r < 0.08:
                out.append(rng.choice(UNDEF))
            elif "c" in kinds and r < 0.35:
                out.append(rng.choice(CONSTS))
            else:
                out.append(rng.choice(defined_v))
        return out

    def shows():
        return [("M", n) for n in rng.sample(defined_v + CONSTS, rng.choice([1, 2]))]
    body = []
    if cls == "balanced":
        for _ in range(rng.randrange(1, 5)):
            s = rng.choice(pool)
            xs = symlist("vc")
            body.append(("U", s, xs))
            if rng.random() < 0.5:
                body.append(("S", rng.choice(defined_v), rnd_val(rng)))
            body.append(("O", s, [x if x in defined_v else rng.choice(defined_v) for x in reversed(xs)]))
            body += shows()
    elif cls == "refuse":
        # a stack with 1-3 entries, a pop onto a constant (equal or different value), then the same stack is used again
        others = [s for s in pool]
        s = rng.choice(pool)
        for o in others:
            if o != s and rng.random() < 0.7:
                body.append(("U", o, symlist("vc")))
        body.append(("U", s, symlist("vc", rng.choice([1, 1, 2, 3]))))
        body.append(("O", s, [rng.choice(CONSTS)] + (symlist("vcu", 1) if rng.random() < 0.3 else [])))
        for _ in range(rng.randrange(0, 4)):
            r = rng.random()
            if r < 0.6:
                body.append(("O", s, symlist("vcu")))
            elif r < 0.8:
                body.append(("U", s, symlist("vc")))
            else:
                body.append(("O", rng.choice(pool), symlist("vc")))
            if rng.random() < 0.4:
                body += shows()
        body += shows()
    elif cls == "empty":
        for _ in range(rng.randrange(2, 7)):
            r = rng.random()
            s = rng.choice(pool)
            if r < 0.3:
                body.append(("U", s, symlist("vcu")))
            else:
                body.append(("O", s, symlist("vcu")))
        body += shows()
    else:
        for _ in range(rng.randrange(3, 14)):
            r = rng.random()
            s = rng.choice(pool)
            if r < 0.35:
                body.append(("U", s, symlist("vcu")))
            elif r < 0.75:
                body.append(("O", s, symlist("vcu")))
            elif r < 0.85:
                body.append(("S", rng.choice(defined_v + CONSTS[:1]), rnd_val(rng)))
            else:
                body += shows()
        body += shows()
    # wrappers over random runs of statements
    for _ in range(rng.choice([0, 0, 1, 2])):
        if len(body) < 2:
            break
        a = rng.randrange(len(body))
        b = rng.randrange(a + 1, min(len(body), a + 4) + 1)
        kind = rng.choice(["rept", "if", "mac"])
        seg = body[a:b]

        def has_mac(nodes):
            return any(n[0] == "mac" or (n[0] in ("rept", "if") and has_mac(n[-1])) for n in nodes)
        if kind == "rept" and has_mac(seg):
            kind = "if"           # a macro definition inside REPT would be defined twice
        node = ("rept", rng.choice([1, 2, 2, 3]), seg) if kind == "rept" else (kind, seg)
        body[a:b] = [node]
    h.body = body
    return h


def parse_events(out):
    """stdout of `asl -q -n -E !1`: error/warning lines -> e<number>, everything else -> m<text>"""
    ev = []
    for line in out.split(b"\n"):
        line = line.rstrip(b"\r")
        if not line.strip():
            continue
        if line.startswith(b"> > >"):
            m = re.search(rb"#(\d+)", line)
            ev.append("e%s" % (m.group(1).decode() if m else "0"))
        elif line.startswith(b"fatal error"):
            continue
        else:
            t = line.decode("latin-1")
            ev.append("m" + (t if re.fullmatch(r"[A-Za-z0-9_.]+", t) else "?"))
    return ev


# ---------------------------------------------------------------------------------------------------------
# BINCLUDE programs

# (cpu name, env token for the driver, {segment name: (number, limit, gran)})
TARGETS = {
    "8051": ("gen0", {"code": (1, 65535, 1), "data": (2, 255, 1), "idata": (3, 255, 1), "xdata": (4, 65535, 1), "bitdata": (6, 255, 1)}),
    "6502": ("1:65535:1", {"code": (1, 65535, 1)}),
    "z80": ("1:65535:1", {"code": (1, 65535, 1)}),
    "68000": ("!1:4294967295:1", {"code": (1, 4294967295, 1)}),
    "320c25": ("gen1", {"code": (1, 65535, 2), "data": (2, 65535, 2)}),
}
DB = {"8051": "db", "6502": "byt", "z80": "db", "68000": "dc.b", "320c25": None}

OFFS_CLASSES = ["none", "zero", "inside", "size", "beyond", "neg"]
LEN_CLASSES = ["none", "zero", "inside", "exact", "beyond", "neg", "huge"]


def pick_offs(rng, cls, size):
    if cls == "none":
        return None
    if cls == "zero":
        return 0
    if cls == "inside":
        return rng.randrange(1, size) if size > 1 else 0
    if cls == "size":
        return size
    if cls == "beyond":
        return size + rng.choice([1, 2, 255, 256, 257, 5000, 2147483647 - size])
    return rng.choice([-1, -2, -256, -2147483648, -2147483649])


def pick_len(rng, cls, size, offs):
    o = min(max(offs or 0, 0), size)
    rest = size - o
    if cls == "none":
        return None
    if cls == "zero":
        return 0
    if cls == "inside":
        return rng.randrange(1, rest) if rest > 1 else rest
    if cls == "exact":
        return rest
    if cls == "beyond":
        return rest + rng.choice([1, 2, 6, 255, 256, 257, 500, 1024, 4096])
    if cls == "neg":
        return rng.choice([-1, -2, -5, -256, -2147483648])
    return rng.choice([65536, 70000, 2147483647, 4294967295, 4294967296, 2147483648])


class BProg:
    def __init__(self, cls, cpu):
        self.cls = cls
        self.cpu = cpu
        self.items = []     # ('s', segname) | ('o', addr) | ('m', bytes) | ('b', file index|None, [args], wrapper)

    def tokens(self):
        segs = TARGETS[self.cpu][1]
        t = []
        for it in self.items:
            if it[0] == "s":
                t.append("s%d" % segs[it[1]][0])
            elif it[0] == "o":
                t.append("o%d" % it[1])
            elif it[0] == "m":
                t.append("m" + it[1].hex())
            else:
                reps = it[3][1] if it[3][0] == "rept" else 1
                one = "b%s%s" % ("x" if it[1] is None else it[1], "".join(":%s" % a for a in it[2]))
                t += [one] * reps
        return ";".join(t)

    def source(self):
        lines = ["\tcpu %s" % self.cpu]
        if self.cpu == "68000":
            lines.append("\tpadding off")      # no fill byte behind an odd number of constant bytes
        nm = 0
        for it in self.items:
            if it[0] == "s":
                lines.append("\tsegment %s" % it[1])
            elif it[0] == "o":
                lines.append("\torg %d" % it[1])
            elif it[0] == "m":
                lines.append("\t%s %s" % (DB[self.cpu], ",".join(str(b) for b in it[1])))
            else:
                fn = "nofile.bin" if it[1] is None else "f%d.bin" % SIZES[it[1]]
                args = ["undefd" if a == "u" else str(a) for a in it[2]]
                st = '\tbinclude "%s"%s' % (fn, "".join("," + a for a in args))
                w = it[3]
                if w[0] == "plain":
                    lines.append(st)
                elif w[0] == "rept":
                    lines += ["\trept %d" % w[1], st, "\tendm"]
                else:
                    nm += 1
                    ps = ["p%d" % k for k in range(len(args))]
                    lines += ["bm%d\tmacro %s" % (nm, ",".join(ps)), '\tbinclude "%s"%s' % (fn, "".join("," + p for p in ps)), "\tendm",
                              "\tbm%d %s" % (nm, ",".join(args))]
        return ("\n".join(lines) + "\n").encode("latin-1")


def rnd_wrapper(rng):
    r = rng.random()
    if r < 0.7:
        return ("plain",)
    if r < 0.85:
        return ("rept", rng.choice([1, 2]))
    return ("mac",)


def gen_grid(rng, tier):
    """one BINCLUDE per program: every (offset class, length class) with random sizes / targets / segments / origins"""
    progs = []
    rounds = 2 if tier == "quick" else 14
    for _ in range(rounds):
        for oc in OFFS_CLASSES:
            for lc in LEN_CLASSES:
                if oc == "none" and lc != "none":
                    continue
                si = rng.randrange(len(SIZES))
                size = SIZES[si]
                cpu = rng.choice(["8051", "8051", "8051", "6502", "z80", "68000"])
                p = BProg("grid:%s:%s" % (oc, lc), cpu)
                segs = TARGETS[cpu][1]
                sn = rng.choice(sorted(segs))
                if sn != "code" or rng.random() < 0.2:
                    p.items.append(("s", sn))
                limit = segs[sn][1]
                org = rng.choice([0, 1, 2, 16, 48, 100, 200, 255, 256, 4096, 65000, 65535 - size, 65535])
                org = min(org, limit)
                p.items.append(("o", org))
                if rng.random() < 0.4 and org + 2 <= limit:
                    p.items.append(("m", bytes(rng.randrange(256) for _ in range(rng.choice([1, 2])))))
                o = pick_offs(rng, oc, size)
                ln = pick_len(rng, lc, size, o)
                args = [] if o is None else ([o] if ln is None else [o, ln])
                if rng.random() < 0.03 and args:
                    args[rng.randrange(len(args))] = "u"
                p.items.append(("b", si, args, rnd_wrapper(rng)))
                if rng.random() < 0.5:
                    p.items.append(("m", bytes([rng.randrange(256)])))
                progs.append(p)
    return progs


def gen_valid(rng, n):
    """several BINCLUDEs whose ranges lie inside their files, in several segments: status 0 and exact bytes expected"""
    progs = []
    for _ in range(n):
        cpu = rng.choice(["8051", "8051", "6502", "z80", "68000"])
        p = BProg("valid", cpu)
        segs = TARGETS[cpu][1]
        for sn in rng.sample(sorted(segs), rng.randrange(1, min(3, len(segs)) + 1)):
            limit = segs[sn][1]
            p.items.append(("s", sn))
            pc = rng.choice([1, 2, 16, 48, 100, 256, 1000, 4096]) if limit > 255 else rng.choice([1, 8, 32, 48])
            p.items.append(("o", pc))
            for _ in range(rng.randrange(1, 4)):
                room = limit - pc + 1
                if room <= 2:
                    break
                if rng.random() < 0.35:
                    bs = bytes(rng.randrange(256) for _ in range(rng.choice([1, 2, 3])))
                    p.items.append(("m", bs))
                    pc += len(bs)
                    continue
                si = rng.randrange(len(SIZES))
                size = SIZES[si]
                form = rng.choice([0, 1, 2, 2])
                if form == 0:
                    args, n_ = [], size
                elif form == 1:
                    o = rng.randrange(size + 1)
                    args, n_ = [o], size - o
                else:
                    o = rng.randrange(size + 1)
                    ln = rng.randrange(size - o + 1)
                    args, n_ = [o, ln], ln
                if n_ > room - 1 or (n_ == 0 and pc == 0):
                    continue
                w = rnd_wrapper(rng)
                reps = w[1] if w[0] == "rept" else 1
                if n_ * reps > room - 1:
                    w = ("plain",)
                    reps = 1
                p.items.append(("b", si, args, w))
                pc += n_ * reps
        progs.append(p)
    return progs


def gen_mixed(rng, n):
    progs = []
    for _ in range(n):
        cpu = rng.choice(["8051", "8051", "6502", "68000"])
        p = BProg("mixed", cpu)
        segs = TARGETS[cpu][1]
        p.items.append(("o", rng.choice([0, 5, 100, 60000])))
        for _ in range(rng.randrange(2, 6)):
            r = rng.random()
            if r < 0.15:
                sn = rng.choice(sorted(segs))
                p.items += [("s", sn), ("o", rng.choice([0, 1, 40, 250]))]
            elif r < 0.3:
                p.items.append(("m", bytes(rng.randrange(256) for _ in range(rng.choice([1, 2])))))
            else:
                si = rng.randrange(len(SIZES))
                size = SIZES[si]
                o = pick_offs(rng, rng.choice(OFFS_CLASSES), size)
                ln = pick_len(rng, rng.choice(LEN_CLASSES), size, o)
                args = [] if o is None else ([o] if ln is None else [o, ln])
                if rng.random() < 0.05:
                    args = args + [0, 0]
                fi = None if rng.random() < 0.04 else si
                p.items.append(("b", fi, args, rnd_wrapper(rng)))
        progs.append(p)
    return progs


def gen_wide(rng, n):
    """word-addressed segments (320C25): even sizes only - what an odd number of bytes means there is not defined"""
    progs = []
    for _ in range(n):
        p = BProg("wide", "320c25")
        sn = rng.choice(["code", "data"])
        p.items += [("s", sn), ("o", rng.choice([16, 256, 1000]))]
        si = rng.choice([0, 3, 5])
        size = SIZES[si]
        form = rng.choice([0, 1, 2])
        if form == 0:
            args = []
        elif form == 1:
            args = [2 * rng.randrange(size // 2 + 1)]
        else:
            o = 2 * rng.randrange(size // 2 + 1)
            args = [o, 2 * rng.randrange((size - o) // 2 + 1)]
        p.items.append(("b", si, args, ("plain",)))
        progs.append(p)
    return progs


# ---------------------------------------------------------------------------------------------------------
# INCLUDE of odd files (exploration)

def gen_includes(rng, tier):
    cases = []
    blobs = {
        "empty.inc": b"", "one.inc": b"\t", "nonl.inc": b"\tnop", "nul.inc": b"\tnop\n\x00\x00\x00\n\tnop\n", "crlf.inc": b"\tnop\r\n\tnop\r\n",
        "bin255.inc": bytes(rng.randrange(256) for _ in range(255)), "bin256.inc": bytes(rng.randrange(256) for _ in range(256)),
        "bin257.inc": bytes(rng.randrange(1, 256) for _ in range(257)), "bin1000.inc": bytes(rng.randrange(256) for _ in range(1000)),
        "long.inc": b"\tdb " + b",".join([b"1"] * 2000) + b"\n", "longnonl.inc": b"x" * 5000, "ff.inc": b"\xff" * 300,
        "self.inc": b"\tinclude \"self.inc\"\n", "a.inc": b"\tinclude \"b.inc\"\n", "b.inc": b"\tinclude \"a.inc\"\n",
        "openif.inc": b"\tif 1\n", "openmac.inc": b"m\tmacro\n\tnop\n", "endm.inc": b"\tendm\n", "openrept.inc": b"\trept 2\n\tnop\n",
    }
    names = sorted(blobs)
    for nm in names:
        for ctx in (["plain", "macro", "rept", "if0"] if tier != "quick" else [rng.choice(["plain", "plain", "macro", "rept", "if0"])]):
            st = '\tinclude "%s"' % nm
            if ctx == "macro":
                body = "im\tmacro\n%s\n\tendm\n\tim\n" % st
            elif ctx == "rept":
                body = "\trept 2\n%s\n\tendm\n" % st
            elif ctx == "if0":
                body = "\tif 0\n%s\n\tendif\n\tif 1\n%s\n\tendif\n" % (st, st)
            else:
                body = st + "\n"
            src = "\tcpu %s\n\tnop\n%s\tnop\n" % (rng.choice(["6502", "z80", "68000"]), body)
            cases.append(dict(name=nm, ctx=ctx, src=src.encode("latin-1"), files={k: blobs[k] for k in ([nm] if nm not in ("a.inc", "b.inc") else ["a.inc", "b.inc"])}))
    # "." is a directory (known defect class `include-directory-hangs`: each such run costs the whole CPU limit - one in the quick tier)
    for nm in ["", ".", "/", "nodir/x.inc", "/dev/null"] + ([".."] if tier != "quick" else []):
        cases.append(dict(name="path:" + nm, ctx="plain", src=('\tcpu 6502\n\tinclude "%s"\n\tnop\n' % nm).encode(), files={}))
        cases.append(dict(name="bpath:" + nm, ctx="plain", src=('\tcpu 6502\n\tbinclude "%s"\n\tnop\n' % nm).encode(), files={}))
    return cases


# ---------------------------------------------------------------------------------------------------------

def file_bytes(seed, size):
    r = common.rng_for(seed, "C03A/file/%d" % size)
    return bytes(r.randrange(256) for _ in range(size))


def run_src(rl, bdir, wd, tag, src, extra_files, incdirs, cpu_s, flags=()):
    d = os.path.join(wd, tag)
    os.makedirs(d, exist_ok=True)
    with open(os.path.join(d, "t.asm"), "wb") as fh:
        fh.write(src)
    for k, v in extra_files.items():
        with open(os.path.join(d, k), "wb") as fh:
            fh.write(v)
    args = list(flags) + ["-q", "-n", "-E", "!1"]
    for i in incdirs:
        args += ["-i", i]
    args += ["t.asm", "-o", "t.p"]
    oc = rl(bdir, "asl", args, d, "r", cpu_s, fsize_mb=16)
    code = None
    try:
        with open(os.path.join(d, "t.p"), "rb") as fh:
            code = fh.read()
    except OSError:
        pass
    subprocess.call(["rm", "-rf", d])
    return oc, code


def batched(fn, items, par, stop_after_timeouts=4, batch=48):
    """run in batches; stop early when the runs keep hitting the CPU limit (each costs the whole limit)"""
    out = []
    nto = 0
    for i in range(0, len(items), batch):
        rs = par(fn, items[i:i + batch])
        out += rs
        nto += sum(1 for r in rs if r[0].kind == "timeout")
        if nto >= stop_after_timeouts:
            break
    return out


def wide_sig(prog, oc, verdict):
    """signature of the known defect class: BINCLUDE in a segment whose address unit is wider than a byte"""
    if prog.cpu != "320c25":
        return None
    if oc.kind == "san" and re.search(rb"CodeBINCLUDE", oc.err):
        return "binclude-word-granular-segment"
    if oc.kind == "exit" and oc.status == 0 and verdict == "wrongBytes":
        return "binclude-word-granular-segment"
    return None


def run_part(args, flavours, wd, rl, par, drv_ok=True, sigfn=None):
    """flavours: [(name, builddir)]; rl = c03.run_limited; par = c03.parallel; sigfn(text, outcome) = c03's signature
    classes of known asl defects applied to a text (source + included files).
    returns dict(spec_fail, corr_fail, problems, evaluations, distinct, dist, samples, notes)"""
    tier = args.tier
    rng = common.rng_for(args.seed, "C03A")
    spec_fail, corr_fail, problems, samples, notes = [], [], [], [], []
    distinct = set()
    dist = dict(stack_programs=0, stack_classes={}, stack_outcomes={}, stack_events=0, stack_refused_pops=0, stack_empty_pops=0,
                binclude_programs=0, binclude_classes={}, binclude_outcomes={}, binclude_status0_exact=0, binclude_mustfail=0,
                binclude_unspecified=0, binclude_valid_selection_refused=0, include_runs=0, include_outcomes={}, stopped_early=[])
    cpu_s = 2 if tier == "quick" else 6

    def bump(d, k):
        d[k] = d.get(k, 0) + 1

    fdir = os.path.join(wd, "binfiles")
    os.makedirs(fdir, exist_ok=True)
    files = [file_bytes(args.seed, s) for s in SIZES]
    for s, b in zip(SIZES, files):
        with open(os.path.join(fdir, "f%d.bin" % s), "wb") as fh:
            fh.write(b)
    files_tok = ";".join(b.hex() or "-" for b in files)

    nh = 160 if tier == "quick" else 2400
    hists = [gen_hist(rng, i) for i in range(nh)]
    bprogs = gen_grid(rng, tier) + gen_valid(rng, 30 if tier == "quick" else 400) + gen_mixed(rng, 24 if tier == "quick" else 400) \
        + gen_wide(rng, 4 if tier == "quick" else 40)
    incs = gen_includes(rng, tier)

    for fl, bd in flavours:
        main = fl == flavours[-1][0] or len(flavours) == 1
        # ------------------------------------------------------------ stacks
        hs = hists if (fl != "hooks" or len(flavours) == 1) else hists[:400]
        rs = batched(lambda ih: run_src(rl, bd, wd, "h%s%d" % (fl, ih[0]), ih[1].source(), {}, [], cpu_s, ["-U"] if ih[1].cs else []),
                     list(enumerate(hs)), par)
        if len(rs) < len(hs):
            dist["stopped_early"].append("stacks:%s:%d/%d" % (fl, len(rs), len(hs)))
        reqs = []
        for h, (oc, _code) in zip(hs, rs):
            sy, pr = h.tokens()
            ev = parse_events(oc.out) if oc.kind != "timeout" else []
            reqs.append("%d %s %s %s %s" % (1 if h.cs else 0, sy, pr, oc.token(), ";".join(ev) or "-"))
        try:
            answers = common.driver("c03stk", reqs, timeout=1200) if (drv_ok and reqs) else []
        except RuntimeError as ex:
            problems.append(str(ex))
            answers = []
        for h, (oc, _code), rq, ans in zip(hs, rs, reqs, answers):
            kv = dict(x.split("=", 1) for x in ans.split() if "=" in x)
            dist["stack_programs"] += 1
            bump(dist["stack_classes"], h.cls)
            bump(dist["stack_outcomes"], "%s:%s" % (fl, oc.token()))
            distinct.add(("stk", h.source()))
            tr = kv.get("mtrace", "")
            dist["stack_events"] += 0 if tr in ("", "-") else tr.count(";") + 1
            dist["stack_refused_pops"] += tr.count("e2030")
            dist["stack_empty_pops"] += tr.count("e1530")
            if len(samples) < 3 and h.cls == "refuse" and "e2030" in tr and dist["stack_programs"] % 7 == 0:
                samples.append(dict(kind="pushv/popv history", source=h.source().decode("latin-1"), outcome=oc.token(), model_trace=tr, build=fl))
            info = dict(tag="stacks:%s" % h.cls, part="c03asm", mode="c03stk", build=fl, outcome=oc.token(), source=h.source().decode("latin-1"),
                        flags=["-U"] if h.cs else [], request=rq, verdict=ans, stdout=oc.out.decode("latin-1")[-1500:], stderr=oc.err.decode("latin-1")[-1500:])
            if ans == "bad-request" or "specok" not in kv:
                problems.append("c03stk: bad request " + rq[:300])
                continue
            if kv.get("cons") != "1":
                problems.append("model-internal: the stack model's own trace is not one the SPEC accepts: " + rq[:300])
            if kv.get("specok") != "1":
                # a string value on a stack: shallow copies of the string buffer, behaviour undefined from then on (known defect class)
                sg = "pushv-string-value-shared-buffer" if kv.get("strpush") == "1" else None
                spec_fail.append(dict(sig=sg, why="PUSHV/POPV history: asl did not end with a documented status, or printed events the manual does not allow", **info))
            elif kv.get("corr") == "0":
                corr_fail.append(dict(why="PUSHV/POPV history: exit status / printed events differ from Model.SymStack (the SPEC accepts them)", **info))

        # ------------------------------------------------------------ BINCLUDE
        bs = bprogs if (fl != "hooks" or len(flavours) == 1) else [p for p in bprogs if p.cls.startswith("grid")][:300]
        rs = batched(lambda ip: run_src(rl, bd, wd, "b%s%d" % (fl, ip[0]), ip[1].source(), {}, [fdir], cpu_s), list(enumerate(bs)), par)
        if len(rs) < len(bs):
            dist["stopped_early"].append("binclude:%s:%d/%d" % (fl, len(rs), len(bs)))
        reqs = []
        for p, (oc, code) in zip(bs, rs):
            ev = [e[1:] for e in (parse_events(oc.out) if oc.kind != "timeout" else []) if e.startswith("e")]
            reqs.append("%s %s %s %s %s %s" % (TARGETS[p.cpu][0], files_tok, p.tokens(), oc.token(), ",".join(ev) or "-", code.hex() if code else "-"))
        try:
            answers = common.driver("c03bin", reqs, timeout=1200) if (drv_ok and reqs) else []
        except RuntimeError as ex:
            problems.append(str(ex))
            answers = []
        for p, (oc, code), rq, ans in zip(bs, rs, reqs, answers):
            kv = dict(x.split("=", 1) for x in ans.split() if "=" in x)
            dist["binclude_programs"] += 1
            bump(dist["binclude_classes"], p.cls.split(":")[0])
            bump(dist["binclude_outcomes"], "%s:%s" % (fl, oc.token()))
            distinct.add(("bin", p.source()))
            info = dict(tag="binclude:%s:%s" % (p.cls, p.cpu), part="c03asm", mode="c03bin", build=fl, outcome=oc.token(), source=p.source().decode("latin-1"),
                        files={"f%d.bin" % s: "bytes of common.rng_for(seed, 'C03A/file/%d'), %d bytes" % (s, s) for s in SIZES}, seed=args.seed,
                        request=rq[:200] + "...", verdict=ans, stdout=oc.out.decode("latin-1")[-1500:], stderr=oc.err.decode("latin-1")[-1500:])
            if ans == "bad-request" or "specok" not in kv:
                problems.append("c03bin: bad request " + p.tokens()[:300])
                continue
            if kv.get("specified") != "1":
                dist["binclude_unspecified"] += 1
            if kv.get("mustfail") == "1":
                dist["binclude_mustfail"] += 1
            if oc.kind == "exit" and oc.status == 0 and kv.get("specok") == "1" and kv.get("specified") == "1":
                dist["binclude_status0_exact"] += 1
            if oc.kind == "exit" and oc.status == 2 and p.cls == "valid":
                dist["binclude_valid_selection_refused"] += 1
            if len(samples) < 6 and p.cls.startswith("grid") and dist["binclude_programs"] % 37 == 0:
                samples.append(dict(kind="binclude", cls=p.cls, source=p.source().decode("latin-1"), outcome=oc.token(), verdict=ans, build=fl))
            if kv.get("specok") != "1":
                spec_fail.append(dict(sig=wide_sig(p, oc, kv.get("verdict")), why="BINCLUDE: %s" % {
                    "undocumented": "asl did not end with a documented status (signal / time-out / sanitizer report)",
                    "wrongBytes": "status 0 but the code file does not hold exactly the bytes the statement names",
                    "acceptedPastEnd": "status 0 although bytes behind the end of the file were asked for",
                    "acceptedMissingFile": "status 0 although the file does not exist",
                    "fatalWithoutCause": "fatal error although every file exists",
                    "noCodeFile": "status 0 without a readable code file"}.get(kv.get("verdict"), kv.get("verdict")), **info))
            elif kv.get("corr") == "0":
                corr_fail.append(dict(why="BINCLUDE: exit status / error numbers / code bytes differ from Model.BInclude (the SPEC accepts the run)", **info))

        # ------------------------------------------------------------ INCLUDE of odd files (exploration)
        rs = batched(lambda ic: run_src(rl, bd, wd, "i%s%d" % (fl, ic[0]), ic[1]["src"], ic[1]["files"], [], cpu_s), list(enumerate(incs)), par)
        for c, (oc, _code) in zip(incs, rs):
            dist["include_runs"] += 1
            bump(dist["include_outcomes"], "%s:%s" % (fl, oc.token()))
            distinct.add(("inc", c["name"], c["ctx"]))
            if not (oc.kind == "exit" and oc.status in ASL_OK):
                isdir = c["name"] in ("path:.", "path:..")
                sg = "include-directory-hangs" if (isdir and oc.kind == "timeout") else None
                if sg is None and sigfn is not None:
                    # the known source-text defects (8-bit characters ...) also apply to the text of an included file
                    sg = sigfn(c["src"] + b"\n" + b"\n".join(c["files"][k] for k in sorted(c["files"])), oc)
                spec_fail.append(dict(sig=sg,
                                      tag="include:%s:%s" % (c["name"], c["ctx"]), part="c03asm", mode="include", build=fl, outcome=oc.token(),
                                      why="INCLUDE/BINCLUDE of an odd file: asl did not end with a documented status (0/2/3)",
                                      source=c["src"].decode("latin-1"), files_hex={k: v.hex()[:4000] for k, v in c["files"].items()},
                                      stderr=oc.err.decode("latin-1")[-1500:]))
    if dist["binclude_valid_selection_refused"]:
        notes.append("%d generated programs whose BINCLUDE ranges all lie inside their files ended with status 2 (not a C03 matter; "
                     "the model predicts it: e.g. an empty inclusion at program counter 0 is refused with 'address overflow')" % dist["binclude_valid_selection_refused"])
    ev = dist["stack_programs"] + dist["binclude_programs"] + dist["include_runs"]
    return dict(spec_fail=spec_fail, corr_fail=corr_fail, problems=problems, evaluations=ev, distinct=distinct, dist=dist, samples=samples, notes=notes)


def replay_case(d, bdir, wd, rl):
    """re-run one stored case of this part; the BINCLUDE files are regenerated from the stored seed"""
    fdir = os.path.join(wd, "binfiles")
    os.makedirs(fdir, exist_ok=True)
    for s in SIZES:
        with open(os.path.join(fdir, "f%d.bin" % s), "wb") as fh:
            fh.write(file_bytes(d.get("seed", 1), s))
    extra = {k: bytes.fromhex(v) for k, v in d.get("files_hex", {}).items()}
    oc, code = run_src(rl, bdir, wd, "replay", d["source"].encode("latin-1"), extra, [fdir], 10, d.get("flags", []))
    print("asl ->", oc.token())
    print(oc.out.decode("latin-1")[-2000:])
    print(oc.err.decode("latin-1")[-2000:])
    print("code file:", code.hex()[:400] if code else None)
    return 0
