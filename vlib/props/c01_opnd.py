"""C01, part "operand positions" (Spec/OperandPos.lean, Model/M68kOpnd.lean, driver mode c01o; Props/C01_Opnd.lean).

The other C01 streams refer to a label only through instructions whose address field directly follows the opcode
(`bra`, `jmp`, `lda`, data words).  This stream adds the class

  (OP) references whose address field is NOT the first thing behind the operation code: an immediate word, a register
       mask, a coprocessor command word, a bit-field descriptor, a prebyte/prefix, a postbyte, a mask byte lies between
       them - and PC-relative operands in particular, whose displacement counts from the place where the field (68000
       family) or the next instruction (6809, 68HC11, 65xx, 8086, Z80) lies.

Targets and forms (random registers, sizes, immediates, index registers, scales, distances, directions):
  68000 / 68010 (gen1), 68332 (CPU32), 68020 / 68030 / 68040 (gen2):
       d16(PC), d8(PC,Xn), (bd,PC,Xn) with 16/32-bit base displacement, ([bd,PC],Xn,od), ([bd,PC,Xn],od) and absolute
       short/long operands of BTST #n / BTST Dn, BCHG/BCLR/BSET (absolute), MOVEM <ea>,list, CMPI/SUBI/ADDI #imm (byte,
       word, long), CMP2/CHK2, MULS/MULU/DIVS/DIVU.L, DIVSL/DIVUL, CALLM, BFTST/BFEXTU/BFEXTS/BFFFO, TBLU/TBLS(N),
       FMOVE/FADD/FSUB/FMUL/FDIV/FCMP/FTST/FSINCOS/FMOVEM/FMOVE to control registers, next to the forms whose operand
       comes first (MOVE, LEA, PEA, JMP, JSR, TST, CMP/ADD/SUB/AND/OR, ADDA/SUBA/CMPA, MULx/DIVx.W, CHK);
  6809 / 6309: n,PCR (8/16 bit, forced and automatic, indirect) with and without page-2/3 prebyte and 6309 immediate
       byte (OIM/AIM/EIM/TIM), extended / extended indirect behind a prebyte, LBcc;
  68HC11: BRSET/BRCLR dd,#mm,rel (direct, ind,X, ind,Y with prebyte), extended operands behind prebytes 18/1A/CD;
  R65C02 BBRn/BBSn zp,rel; MELPS 740 BBC/BBS bit,zp,rel and bit,A,rel; 65C19 BAR/BAS abs,#mask,rel;
  8086: direct memory operands behind segment prefixes and in front of immediates, accumulator moffs forms, near
       CALL/JMP, LOOP/JCXZ; V35 BTCLR sfr,bit,rel;  Z80: DD/FD/ED-prefixed 16-bit loads, JP/CALL cc.

  MELPS 740 also: the bit branch directly behind CLI / SEI (the assembler inserts a NOP in front of the branch).
Next to the random programs one systematic program per CPU: every instruction class x every operand form x forward /
backward, each reference with a label of its own.

Every program carries marker bytes behind every label, before every reference and behind every PHASE statement; it is
assembled normally and with one forced extra pass.  Oracle (C): the Lean SPEC decoder (`c01o D`) applied to the real
bytes gives the address every field stands for - it must be the (phased) address of the label's marker, the field must
be PC-relative exactly when the source says so and name the index register of the source.  Correspondence (B): the
instruction bytes must equal `Model/M68kOpnd.encode` (`c01o M`, 68000 family), `Model/M6809Pcr.encode` (`c01o N`, n,PCR on
6809/6309), `Model/M740Bbs.encode` (`c01o B`, BBC/BBS on the MELPS 740) for the label's final value.
Known finding recognised by signature: `m740-inserted-nop-overwrites-instruction` (only for bit branches behind CLI/SEI
whose bytes the bug-compatible model of InsNOP reproduces, and only when nothing else fails in the program).
"""
import os
from collections import Counter
from concurrent.futures import ThreadPoolExecutor

from .. import common
from . import c01_ext

PASS_CAP = 40
SIG_INSNOP = "m740-inserted-nop-overwrites-instruction"


# ---------------------------------------------------------------- 68000 family forms
FAMILIES = {
    # cpu name -> (model family, has FPU via `fpu on`)
    "68000": "gen1", "68010": "gen1", "68332": "cpu32", "68340": "cpu32", "68020": "gen2", "68030": "gen2", "68040": "gen2",
}
SZ = {"b": 0, "w": 1, "l": 2}
FPFMT = {"l": 0, "s": 1, "x": 2, "p": 3, "w": 4, "d": 5, "b": 6}


def m68k_index(rng, fam):
    isa = rng.random() < 0.35
    n = rng.randrange(8)
    long = rng.random() < 0.5
    scale = rng.choice([0, 0, 1, 2, 3]) if fam != "gen1" else 0
    txt = "%s%d.%s%s" % ("a" if isa else "d", n, "l" if long else "w", "" if scale == 0 and rng.random() < 0.7 else "*%d" % (1 << scale))
    reg = n + (8 if isa else 0)
    return txt, "%d:%d:%d" % (reg, 1 if long else 0, scale), (reg << 3) | ((1 if long else 0) << 2) | scale


def m68k_ea(rng, fam, allow_pc, far, force=None):
    """-> (operand template, model ea token, pcrel?, idx bits or None, near?)"""
    kinds = []
    if allow_pc:
        kinds += ["pc", "pc", "pcx", "pcx"]
        if fam == "gen2":
            kinds += ["pci"]
    kinds += ["abs"]
    k = rng.choice(kinds)
    if force is not None:
        k = force if force in kinds else "abs"
    if far and fam == "gen1" and k != "abs":
        k = "abs"
    if k == "abs":
        return "{L}", "abs", False, None, False
    # length attribute on the displacement: none (the assembler chooses), .w, .l (extended addressing only), .b (brief word)
    ext = fam != "gen1"
    if k == "pc":
        ln = rng.choice([None, None, None, 1, 2 if ext else 1])
        if far and ln == 1:
            ln = None
        sfx = {None: "", 1: ".w", 2: ".l"}[ln]
        return rng.choice(["{L}%s(pc)", "({L}%s,pc)"]) % sfx, "pc:%s" % ("-" if ln is None else ln), True, None, False
    if k == "pcx":
        xt, xm, xb = m68k_index(rng, fam)
        ln = rng.choice([None, None, None, 0, 1 if ext else 0, 2 if ext else None])
        if far and ln in (0, 1):
            ln = None
        sfx = {None: "", 0: ".b", 1: ".w", 2: ".l"}[ln]
        # `(d.b,PC,Xn)` is not accepted, `d.b(PC,Xn)` is
        tpl = "{L}%s(pc,%s)" if ln == 0 else rng.choice(["{L}%s(pc,%s)", "({L}%s,pc,%s)"])
        return tpl % (sfx, xt), "pcx:%s:%s" % (xm, "-" if ln is None else ln), True, xb, (fam == "gen1" or ln == 0)
    # memory indirect
    od = rng.choice([None, None, 0, 4, 8, -2, 32767, -32768, 32768, 70000, -40000])
    if rng.random() < 0.3:
        x = None
    else:
        x = m68k_index(rng, fam)
    post = rng.random() < 0.5
    ln = rng.choice([None, None, 1, 2])
    if far and ln == 1:
        ln = None
    sfx = {None: "", 1: ".w", 2: ".l"}[ln]
    lm = "-" if ln is None else str(ln)
    odt = "" if od is None else ",%d" % od
    odm = "-" if od is None else str(od)
    if x is None:
        return "([{L}%s,pc]%s)" % (sfx, odt), "pci:-:0:0:0:%s:%s" % (odm, lm), True, None, False
    if post:
        return "([{L}%s,pc],%s%s)" % (sfx, x[0], odt), "pci:%s:1:%s:%s" % (x[1], odm, lm), True, x[2], False
    return "([{L}%s,pc,%s]%s)" % (sfx, x[0], odt), "pci:%s:0:%s:%s" % (x[1], odm, lm), True, x[2], False


def m68k_reglist(rng):
    mask = 0
    parts = []
    for _ in range(rng.randrange(1, 4)):
        a = rng.random() < 0.4
        lo = rng.randrange(8)
        hi = rng.randrange(lo, 8) if rng.random() < 0.5 else lo
        pre = "a" if a else "d"
        parts.append("%s%d" % (pre, lo) if hi == lo else "%s%d-%s%d" % (pre, lo, pre, hi))
        for r in range(lo, hi + 1):
            mask |= 1 << (r + (8 if a else 0))
    return "/".join(parts), mask


def m68k_absdst(rng, cpu):
    """absolute DESTINATION operands behind other words (C only: no RelPos involved, not in the model)"""
    fam = FAMILIES[cpu]
    s = rng.choice("bwl")
    d = rng.randrange(8)
    imm = rng.choice([0, 1, 0x7F]) if s == "b" else rng.choice([1, 0x1234, 0x7FFF]) if s == "w" else rng.choice([1, 0x12345678, 0x10000])
    srcs = ["#%d" % imm, "d%d" % d, "(a%d)+" % d, "-(a%d)" % d, "%d(a%d)" % (rng.randrange(-100, 100), d),
            "%d(a%d,d%d.w)" % (rng.randrange(-100, 100), d, rng.randrange(8)), "(%d).w" % rng.randrange(0, 0x7000, 2), "(%d).l" % rng.randrange(0x10000, 0x20000, 2)]
    forms = [("move.%s %s,{L}" % (s, rng.choice(srcs)), "move"),
             ("%s.%s #%d,{L}" % (rng.choice(["ori", "andi", "eori"]), s, imm), "logic-imm"),
             ("movem.%s %s,{L}" % (rng.choice("wl"), m68k_reglist(rng)[0]), "movem-to-mem")]
    if fam != "cpu32":
        forms += [("fmove.%s fp%d,{L}" % (rng.choice("lsxwdb"), d), "fmove-to-mem"), ("fmove.l %s,{L}" % rng.choice(["fpcr", "fpsr", "fpiar"]), "fmove-ctl-to-mem"),
                  ("fmovem.x fp%d-fp%d,{L}" % (min(d, 6), 7), "fmovem-to-mem")]
    tpl, kl = rng.choice(forms)
    return dict(tpl=tpl, cls=None, ea="abs", pcrel=False, idx=None, near=False, klass="absdst/" + kl)


def m68k_branch(rng, cpu, far=False):
    """relative branches whose displacement word does not follow the operation word directly, and DBcc (C only)"""
    fam = FAMILIES[cpu]
    d = rng.randrange(8)
    forms = [("db%s d%d,{L}" % (rng.choice(["ra", "ne", "eq", "f", "cc", "mi", "le"]), d), "dbcc")]
    if fam != "cpu32":
        forms += [("fdb%s d%d,{L}" % (rng.choice(["ne", "eq", "gt", "f", "ule"]), d), "fdbcc"), ("fb%s {L}" % rng.choice(["ne", "eq", "gt", "ole", "un"]), "fbcc"),
                  ("fdb%s d%d,{L}" % (rng.choice(["ne", "eq", "gt", "f", "ule"]), d), "fdbcc")]
    if cpu == "68020":
        pcc = rng.choice(["bs", "bc", "ls", "lc", "ss", "sc", "as", "ac", "ws", "wc", "is", "ic", "gs", "gc", "cs", "cc"])
        forms += [("pdb%s d%d,{L}" % (pcc, d), "pdbcc"), ("pb%s {L}" % pcc, "pbcc")]
    if far:
        # only FBcc has a 32-bit displacement
        forms = [f for f in forms if f[1] == "fbcc"]
        if not forms:
            return m68k_absdst(rng, cpu)
    tpl, kl = rng.choice(forms)
    return dict(tpl=tpl, cls=None, ea="rel", pcrel=True, idx=None, near=False, klass="branch/" + kl)


def m68k_classes(cpu):
    fam = FAMILIES[cpu]
    choices = ["plain", "plain", "bitsImm", "bitsImm", "bitsReg", "movem", "movem", "imm", "imm"]
    if fam != "gen1":
        choices += ["muldivl", "divl", "cmpchk2", "imm"]
    if fam == "gen2":
        choices += ["bf", "bf", "fpu", "fpu"]
        if cpu == "68020":
            choices += ["callm", "pmmu"]
    if fam == "cpu32":
        choices += ["tbl", "tbl"]
    if fam == "gen1":
        choices += ["fpu"]
    choices += ["absdst", "absdst", "branch"]
    return choices


def m68k_form(rng, cpu, far, force_k=None, force_ea=None):
    """one instruction with a symbol operand: dict(tpl, cls, ea, pcrel, idx, near, klass)"""
    fam = FAMILIES[cpu]
    k = force_k or rng.choice(m68k_classes(cpu))
    d = rng.randrange(8)
    if k == "absdst":
        return m68k_absdst(rng, cpu)
    if k == "branch":
        return m68k_branch(rng, cpu, far)
    if k == "plain":
        sub = rng.choice(["move", "lea", "pea", "jmp", "jsr", "tst", "arith", "arith", "arithw", "adda", "chk"])
        s = rng.choice("bwl")
        if sub == "move":
            tpl, cls, pcok = "move.%s {E},d%d" % (s, d), "plain:move:%d:%d:0" % ({"b": 0, "l": 1, "w": 2}[s], d), True
        elif sub == "lea":
            tpl, cls, pcok = "lea {E},a%d" % d, "plain:lea:%d:0:0" % d, True
        elif sub in ("pea", "jmp", "jsr"):
            tpl, cls, pcok = "%s {E}" % sub, "plain:%s:0:0:0" % sub, True
        elif sub == "tst":
            tpl, cls, pcok = "tst.%s {E}" % s, "plain:tst:%d:0:0" % SZ[s], fam != "gen1"
        elif sub == "arith":
            g = rng.randrange(5)
            m = ["or", "sub", "cmp", "and", "add"][g]
            tpl, cls, pcok = "%s.%s {E},d%d" % (m, s, d), "plain:arith:%d:%d:%d" % (g, d, SZ[s]), True
        elif sub == "arithw":
            g, m, opm = rng.choice([(0, "divu", 3), (0, "divs", 7), (3, "mulu", 3), (3, "muls", 7)])
            tpl, cls, pcok = "%s.w {E},d%d" % (m, d), "plain:arith:%d:%d:%d" % (g, d, opm), True
        elif sub == "adda":
            g, m = rng.choice([(1, "suba"), (2, "cmpa"), (4, "adda")])
            s = rng.choice("wl")
            tpl, cls, pcok = "%s.%s {E},a%d" % (m, s, d), "plain:arith:%d:%d:%d" % (g, d, 3 if s == "w" else 7), True
        else:
            tpl, cls, pcok = "chk.w {E},d%d" % d, "plain:chk:%d:0:0" % d, True
    elif k == "bitsImm":
        idx = rng.choice([0, 0, 0, 1, 2, 3])
        n = rng.randrange(8)
        tpl, cls, pcok = "%s #%d,{E}" % (["btst", "bchg", "bclr", "bset"][idx], n), "bitsImm:%d:%d" % (idx, n), idx == 0
    elif k == "bitsReg":
        idx = rng.choice([0, 0, 0, 1, 2, 3])
        tpl, cls, pcok = "%s d%d,{E}" % (["btst", "bchg", "bclr", "bset"][idx], d), "bitsReg:%d:%d" % (idx, d), idx == 0
    elif k == "movem":
        s = rng.choice("wl")
        lst, mask = m68k_reglist(rng)
        tpl, cls, pcok = "movem.%s {E},%s" % (s, lst), "ext1:movem:%d:%d" % (1 if s == "l" else 0, mask), True
    elif k == "imm":
        s = rng.choice("bwl")
        m, op = rng.choice([("cmpi", 8), ("cmpi", 8), ("cmp", 8), ("subi", 0), ("addi", 2)])
        v = rng.choice([0, 1, 0x7F, 0xFF]) if s == "b" else rng.choice([0, 1, 0x1234, 0xFFFF]) if s == "w" else rng.choice([0, 1, 0x12345678, 0xFFFF, 0x10000, 0xFFFFFFFF])
        tpl, cls, pcok = "%s.%s #%d,{E}" % (m, s, v), "imm:%d:%d:%d" % (op, SZ[s], v), (op == 8 and fam != "gen1")
    elif k == "muldivl":
        m, div, sgn = rng.choice([("mulu", 0, 0), ("muls", 0, 1), ("divu", 1, 0), ("divs", 1, 1)])
        if rng.random() < 0.4:
            d2 = rng.choice([x for x in range(8) if x != d])
            tpl, w1 = "%s.l {E},d%d:d%d" % (m, d, d2), d | (d2 << 12) | (sgn << 11) | 0x400
        else:
            tpl, w1 = "%s.l {E},d%d" % (m, d), d | (d << 12) | (sgn << 11)
        cls, pcok = "ext1:muldiv:%d:%d" % (div, w1), True
    elif k == "divl":
        sgn = rng.randrange(2)
        d2 = rng.choice([x for x in range(8) if x != d])
        tpl, cls, pcok = "%s.l {E},d%d:d%d" % (["divul", "divsl"][sgn], d, d2), "ext1:muldiv:1:%d" % (d | (d2 << 12) | (sgn << 11)), True
    elif k == "cmpchk2":
        s = rng.choice("bwl")
        chk = rng.randrange(2)
        isa = rng.randrange(2)
        tpl = "%s.%s {E},%s%d" % (["cmp2", "chk2"][chk], s, "da"[isa], d)
        cls, pcok = "ext1:cmpchk2:%d:%d" % (SZ[s], ((d + 8 * isa) << 12) | (chk << 11)), True
    elif k == "callm":
        n = rng.randrange(256)
        tpl, cls, pcok = "callm #%d,{E}" % n, "ext1:callm:0:%d" % n, True
    elif k == "pmmu":
        if rng.random() < 0.3:
            tpl, w1 = "pflushr.q {E}", 0xA000
        else:
            n = rng.randrange(8)
            reg, w1 = rng.choice([("tc", 0x4000), ("drp", 0x4400), ("srp", 0x4800), ("crp", 0x4C00), ("cal", 0x5000), ("val", 0x5400), ("scc", 0x5800),
                                  ("ac", 0x5C00), ("psr", 0x6000), ("pcsr", 0x6400), ("bad%d" % n, 0x7000 + 4 * n), ("bac%d" % n, 0x7400 + 4 * n)])
            fd = rng.random() < 0.3 and reg not in ("psr", "pcsr")
            tpl, w1 = "%s {E},%s" % ("pmovefd" if fd else "pmove", reg), w1 + (0x100 if fd else 0)
        cls, pcok = "ext1:pmmu:0:%d" % w1, True
    elif k == "tbl":
        s = rng.choice("bwl")
        i = rng.randrange(4)
        tpl = "%s.%s {E},d%d" % (["tblu", "tblun", "tbls", "tblsn"][i], s, d)
        cls, pcok = "ext1:tbl:0:%d" % (0x0100 | (SZ[s] << 6) | (d << 12) | (i << 10)), True
    elif k == "bf":
        if rng.random() < 0.5:
            o, ot = rng.randrange(32), None
            ofs = (o << 6)
            ot = str(o)
        else:
            o = rng.randrange(8)
            ofs, ot = 0x800 | (o << 6), "d%d" % o
        if rng.random() < 0.5:
            w = rng.randrange(1, 33)
            wd, wt = w & 31, str(w)
        else:
            w = rng.randrange(8)
            wd, wt = 0x20 | w, "d%d" % w
        which = rng.randrange(4)
        if which == 0:
            tpl, cls = "bftst {E}{%s:%s}" % (ot, wt), "ext1:fbits:0:%d" % (ofs | wd)
        else:
            tpl = "%s {E}{%s:%s},d%d" % (["", "bfextu", "bfexts", "bfffo"][which], ot, wt, d)
            cls = "ext1:ebits:%d:%d" % (which - 1, ofs | wd | (d << 12))
        pcok = True
    else:   # fpu
        fp = rng.randrange(8)
        f = rng.choice("lsxpwdb")
        sub = rng.choice(["op", "op", "ftst", "fsincos", "fmovem", "fmovec"])
        if sub == "op":
            ops = [("fmove", 0), ("fadd", 0x22), ("fsub", 0x28), ("fmul", 0x23), ("fdiv", 0x20), ("fcmp", 0x38), ("fabs", 0x18), ("fsqrt", 4)]
            if cpu == "68040":
                ops += [("fsmove", 0x40), ("fdmove", 0x44), ("fsadd", 0x62), ("fdadd", 0x66), ("fssqrt", 0x41), ("fdsqrt", 0x45), ("fsmul", 0x63), ("fdmul", 0x67)]
            m, oc = rng.choice(ops)
            tpl, w1 = "%s.%s {E},fp%d" % (m, f, fp), 0x4000 | (FPFMT[f] << 10) | (fp << 7) | oc
        elif sub == "ftst":
            tpl, w1 = "ftst.%s {E}" % f, 0x4000 | (FPFMT[f] << 10) | 0x3A
        elif sub == "fsincos":
            fc = rng.choice([x for x in range(8) if x != fp])
            tpl, w1 = "fsincos.%s {E},fp%d:fp%d" % (f, fc, fp), 0x4000 | (FPFMT[f] << 10) | (fp << 7) | 0x30 | fc
        elif sub == "fmovem" and rng.random() < 0.4:
            if rng.random() < 0.5:
                dn = rng.randrange(8)
                tpl, w1 = "fmovem.x {E},d%d" % dn, 0xD800 | (dn << 4)
            else:
                regs = rng.sample([("fpcr", 0x1000), ("fpsr", 0x0800), ("fpiar", 0x0400)], rng.randrange(2, 4))
                regs.sort(key=lambda x: -x[1])
                tpl, w1 = "fmovem.l {E},%s" % "/".join(x[0] for x in regs), 0x8000 | sum(x[1] for x in regs)
        elif sub == "fmovem":
            lo = rng.randrange(8)
            hi = rng.randrange(lo, 8)
            mask = 0
            for r in range(lo, hi + 1):
                mask |= 0x80 >> r
            tpl, w1 = "fmovem.x {E},fp%d-fp%d" % (lo, hi) if hi != lo else "fmovem.x {E},fp%d" % lo, 0xD000 | mask
        else:
            cr, bit = rng.choice([("fpcr", 0x1000), ("fpsr", 0x0800), ("fpiar", 0x0400)])
            tpl, w1 = "fmove.l {E},%s" % cr, 0x8000 | bit
        cls, pcok = "ext1:fpu:0:%d" % w1, True
    et, em, pcrel, idx, near = m68k_ea(rng, fam, pcok, far, force_ea)
    return dict(tpl=tpl.replace("{E}", et), cls=cls, ea=em, pcrel=pcrel, idx=idx, near=near, klass="%s/%s" % (k, em.split(":")[0]))


# ---------------------------------------------------------------- byte-oriented targets: form tables
# (template, field selector 'rel'|'abs', near?, class name); {L} = the label, {P} = the program counter symbol
# indexed-mode opcodes (MC6809 / HD6309 opcode maps) for the correspondence with Model/M6809Pcr
OPC_6809 = {"ldx": (0, 0xAE), "stx": (0, 0xAF), "ldd": (0, 0xEC), "std": (0, 0xED), "ldu": (0, 0xEE), "cmpx": (0, 0xAC), "addd": (0, 0xE3), "subd": (0, 0xA3),
            "jsr": (0, 0xAD), "jmp": (0, 0x6E), "lda": (0, 0xA6), "sta": (0, 0xA7), "ldb": (0, 0xE6), "ora": (0, 0xAA), "adda": (0, 0xAB), "cmpa": (0, 0xA1),
            "tst": (0, 0x6D), "inc": (0, 0x6C), "clr": (0, 0x6F), "leax": (0, 0x30), "leay": (0, 0x31), "leas": (0, 0x32), "leau": (0, 0x33),
            "ldy": (0x10, 0xAE), "sty": (0x10, 0xAF), "lds": (0x10, 0xEE), "sts": (0x10, 0xEF), "cmpd": (0x10, 0xA3), "cmpy": (0x10, 0xAC),
            "cmpu": (0x11, 0xA3), "cmps": (0x11, 0xAC), "ldq": (0x10, 0xEC), "ldw": (0x10, 0xA6), "ldf": (0x11, 0xE6),
            "oim": (0, 0x61), "aim": (0, 0x62), "eim": (0, 0x65), "tim": (0, 0x6B)}


def pcr_model(m, ind, zm, imm=None):
    pre, op = OPC_6809[m]
    head = "imm:%d:%d" % (op, imm) if imm is not None else "p23:%d:%d" % (pre, op) if pre else "p1:%d" % op
    return "%s %d %s" % (head, 1 if ind else 0, zm)


def forms_6809(rng, cpu):
    """(template, field selector, near?, class, model request part or None)"""
    reg16 = rng.choice(["ldx", "stx", "ldd", "std", "ldu", "cmpx", "addd", "subd", "jsr", "jmp", "lda", "sta", "ldb", "ora", "adda", "cmpa", "tst", "inc", "clr", "leax", "leay", "leas", "leau"])
    p2 = rng.choice(["ldy", "sty", "lds", "sts", "cmpd", "cmpy"])
    p3 = rng.choice(["cmpu", "cmps"])
    noabs = ("leax", "leay", "leas", "leau")
    out = []
    for m, kl in ((reg16, "page1"), (p2, "page2"), (p3, "page3")):
        out += [("%s {L},pcr" % m, "rel", False, kl + "/n,pcr", pcr_model(m, False, "auto")), ("%s [{L},pcr]" % m, "rel", False, kl + "/[n,pcr]", pcr_model(m, True, "auto")),
                ("%s <{L},pcr" % m, "rel", True, kl + "/<n,pcr", pcr_model(m, False, "short")), ("%s >{L},pcr" % m, "rel", False, kl + "/>n,pcr", pcr_model(m, False, "long")),
                ("%s [>{L},pcr]" % m, "rel", False, kl + "/[>n,pcr]", pcr_model(m, True, "long")), ("%s [<{L},pc]" % m, "rel", True, kl + "/[<n,pc]", pcr_model(m, True, "short"))]
        if m not in noabs:
            out += [("%s >{L}" % m, "abs", False, kl + "/extended", None), ("%s [{L}]" % m, "abs", False, kl + "/[extended]", None)]
    cc = rng.choice(["lbne", "lbeq", "lbcc", "lbcs", "lbmi", "lbpl", "lbhi", "lbls", "lbge", "lblt", "lbgt", "lble", "lbvc", "lbvs", "lbrn"])
    out += [("%s {L}" % cc, "rel", False, "lbcc", None), ("lbra {L}", "rel", False, "lbra", None), ("lbsr {L}", "rel", False, "lbsr", None)]
    if cpu == "6309":
        im = rng.choice(["oim", "aim", "eim", "tim"])
        v = rng.randrange(256)
        out += [("%s #%d,{L},pcr" % (im, v), "rel", False, "imm6309/n,pcr", pcr_model(im, False, "auto", v)),
                ("%s #%d,[{L},pcr]" % (im, v), "rel", False, "imm6309/[n,pcr]", pcr_model(im, True, "auto", v)),
                ("%s #%d,<{L},pcr" % (im, v), "rel", True, "imm6309/<n,pcr", pcr_model(im, False, "short", v)),
                ("%s #%d,>{L},pcr" % (im, v), "rel", False, "imm6309/>n,pcr", pcr_model(im, False, "long", v)),
                ("%s #%d,>{L}" % (im, v), "abs", False, "imm6309/extended", None),
                ("%s #%d,[{L}]" % (im, v), "abs", False, "imm6309/[extended]", None),
                ("ldq {L},pcr", "rel", False, "page2/n,pcr", pcr_model("ldq", False, "auto")), ("stq >{L}", "abs", False, "page2/extended", None),
                ("ldw [{L},pcr]", "rel", False, "page2/[n,pcr]", pcr_model("ldw", True, "auto")),
                ("cmpe >{L}", "abs", False, "page3/extended", None), ("ldf {L},pcr", "rel", False, "page3/n,pcr", pcr_model("ldf", False, "auto"))]
    return out


def forms_6811(rng, cpu):
    dd, mm, off = rng.randrange(256), rng.randrange(1, 256), rng.randrange(256)
    br = rng.choice(["brset", "brclr"])
    py = rng.choice(["ldy", "sty", "cpy"])
    return [("%s %d,#%d,{L}" % (br, dd, mm), "rel", True, "brset-dir"), ("%s %d,x,#%d,{L}" % (br, off, mm), "rel", True, "brset-indx"),
            ("%s %d,y,#%d,{L}" % (br, off, mm), "rel", True, "brset-indy"),
            ("%s >{L}" % py, "abs", False, "prebyte18/extended"), ("cpd >{L}", "abs", False, "prebyte1a/extended"),
            ("%s >{L}" % rng.choice(["ldx", "stx", "ldd", "std", "jsr", "jmp", "ldaa", "cpx", "inc", "tst"]), "abs", False, "extended")]


def forms_65c02(rng, cpu):
    n, zp = rng.randrange(8), rng.randrange(256)
    return [("bbr%d %d,{L}" % (n, zp), "rel", True, "bbr"), ("bbs%d %d,{L}" % (n, zp), "rel", True, "bbs"),
            ("bra {L}", "rel", True, "bra"), ("%s {L}" % rng.choice(["jmp", "jsr", "lda", "sta", "inc", "bit", "cpx"]), "abs", False, "abs")]


def forms_740(rng, cpu):
    n, zp = rng.randrange(8), rng.randrange(256)
    # (template, selector, near, class, -, extras): m740 = (code, bit, zp) for the correspondence with Model/M740Bbs
    out = [("bbc %d,%d,{L}" % (n, zp), "rel", True, "bbc-zp", None, dict(m740=(0x13, n, zp))), ("bbs %d,%d,{L}" % (n, zp), "rel", True, "bbs-zp", None, dict(m740=(0x03, n, zp))),
           ("bbc %d,a,{L}" % n, "rel", True, "bbc-a", None, dict(m740=(0x13, n, None))), ("bbs %d,a,{L}" % n, "rel", True, "bbs-a", None, dict(m740=(0x03, n, None))),
           ("%s {L}" % rng.choice(["jmp", "jsr", "lda", "sta"]), "abs", False, "abs")]
    # the bit branch directly behind CLI / SEI: the assembler puts a NOP in front of the branch (the distance counts from the
    # place the branch finally has)
    lead, lb = rng.choice([("sei", 0x78), ("cli", 0x58)])
    out += [(t, sel, near, kl + "/behind-" + lead, None, dict(x, lead=[lead], lead_bytes=[lb], skip_nop=True)) for (t, sel, near, kl, _m, x) in out[:4]]
    return out


def forms_65c19(rng, cpu):
    mk = rng.randrange(256)
    m = rng.choice(["bar", "bas"])
    return [("%s {L},#%d,{P}" % (m, mk), "abs", False, "bar-abs"), ("%s %d,#%d,{L}" % (m, rng.randrange(0x200, 0x8000), mk), "rel", True, "bar-rel"),
            ("%s {L}" % rng.choice(["jmp", "jsr", "lda", "sta"]), "abs", False, "abs")]


def forms_8086(rng, cpu):
    seg = rng.choice(["es:", "cs:", "ss:", "ds:", ""])
    r16 = rng.choice(["ax", "bx", "cx", "dx", "si", "di", "bp"])
    r8 = rng.choice(["al", "bl", "ch", "dl"])
    alu = rng.choice(["add", "or", "adc", "sbb", "and", "sub", "xor", "cmp", "mov", "test"])
    imm = rng.randrange(0x100, 0x10000)
    out = [("mov ax,%s[{L}]" % seg, "abs", False, "moffs" + ("/prefix" if seg else "")), ("mov %s[{L}],al" % seg, "abs", False, "moffs" + ("/prefix" if seg else "")),
           ("%s word ptr %s[{L}],%d" % (alu, seg, imm), "abs", False, "modrm+imm16" + ("/prefix" if seg else "")),
           ("%s byte ptr %s[{L}],%d" % (alu, seg, imm & 255), "abs", False, "modrm+imm8" + ("/prefix" if seg else "")),
           ("%s %s,%s[{L}]" % (rng.choice(["add", "mov", "cmp", "xchg", "lea"] if not seg else ["add", "mov", "cmp", "xchg"]), r16, seg), "abs", False, "modrm" + ("/prefix" if seg else "")),
           ("mov %s[{L}],%s" % (seg, r8), "abs", False, "modrm" + ("/prefix" if seg else "")),
           ("%s word ptr %s[{L}+%s],%d" % (alu, seg, rng.choice(["bx", "si", "di"]), imm), "abs", False, "modrm-disp16+imm" + ("/prefix" if seg else "")),
           ("%s byte ptr %s[{L}]" % (rng.choice(["inc", "dec", "not", "neg"]), seg), "abs", False, "modrm" + ("/prefix" if seg else "")),
           ("push word ptr %s[{L}]" % seg, "abs", False, "modrm" + ("/prefix" if seg else "")),
           ("call word ptr %s[{L}]" % seg, "abs", False, "modrm" + ("/prefix" if seg else "")),
           ("mov %s,{L}" % r16, "abs", False, "imm16"),
           ("call {L}", "rel", False, "call"), ("jmp {L}", "rel", False, "jmp"),
           ("%s {L}" % rng.choice(["loop", "loope", "loopne", "jcxz", "jz", "jnc", "jg"]), "rel", True, "rel8")]
    if cpu == "v35":
        out += [("btclr %d,%d,{L}" % (rng.randrange(256), rng.randrange(8)), "rel", True, "btclr")]
    else:
        out += [("%s %s %s[{L}]" % (rng.choice(["fld", "fadd", "fst", "fcom"]), rng.choice(["dword ptr", "qword ptr"]), seg), "abs", False, "fpu/wait-prefix" + ("+seg" if seg else ""))]
    return out


def forms_z80(rng, cpu):
    return [("ld ({L}),%s" % rng.choice(["ix", "iy"]), "abs", False, "ddfd"), ("ld %s,({L})" % rng.choice(["ix", "iy"]), "abs", False, "ddfd"),
            ("ld %s,{L}" % rng.choice(["ix", "iy"]), "abs", False, "ddfd"),
            ("ld %s,({L})" % rng.choice(["bc", "de", "sp"]), "abs", False, "ed"), ("ld ({L}),%s" % rng.choice(["bc", "de", "sp"]), "abs", False, "ed"),
            ("ld %s,{L}" % rng.choice(["bc", "de", "hl", "sp"]), "abs", False, "nn"), ("ld ({L}),hl", "abs", False, "nn"), ("ld a,({L})", "abs", False, "nn"),
            ("jp %s,{L}" % rng.choice(["nz", "z", "nc", "c", "po", "pe", "p", "m"]), "abs", False, "nn"),
            ("call %s,{L}" % rng.choice(["nz", "z", "nc", "c", "po", "pe", "p", "m"]), "abs", False, "nn"),
            ("jr %s,{L}" % rng.choice(["nz", "z", "nc", "c"]), "rel", True, "e"), ("djnz {L}", "rel", True, "e")]


OT = {
    # name -> cpu statements, decoder cpu, data directive, PC symbol, form source
    "68000": dict(cpus=["68000", "68010"], dec="m68k", db="dc.b", pcsym="*", m68k=True, phase="68000"),
    "68332": dict(cpus=["68332", "68340"], dec="m68k", db="dc.b", pcsym="*", m68k=True, phase="68000"),
    "68020": dict(cpus=["68020", "68030", "68040"], dec="m68k", db="dc.b", pcsym="*", m68k=True, phase="68000"),
    "6809": dict(cpus=["6809"], dec="6809", db="fcb", pcsym="*", forms=forms_6809, phase="byte"),
    "6309": dict(cpus=["6309"], dec="6309", db="fcb", pcsym="*", forms=forms_6809, phase="byte"),
    "68hc11": dict(cpus=["6811"], dec="6811", db="fcb", pcsym="*", forms=forms_6811, phase="byte"),
    "65c02": dict(cpus=["65c02"], dec="65c02", db="byt", pcsym="*", forms=forms_65c02, phase="byte"),
    "melps740": dict(cpus=["melps740"], dec="740", db="byt", pcsym="*", forms=forms_740, phase="byte"),
    "65c19": dict(cpus=["65c19"], dec="65c19", db="byt", pcsym="*", forms=forms_65c19, phase="byte"),
    "8086": dict(cpus=["8086", "v35"], dec="8086", db="db", pcsym="$", forms=forms_8086, phase="byte", pre=["\tfpu on"]),
    "z80": dict(cpus=["z80"], dec="z80", db="db", pcsym="$", forms=forms_z80, phase="byte"),
}
# the 68000 family takes a larger share of the programs
ORDER = ["68000", "68020", "6809", "68332", "68hc11", "68000", "8086", "68020", "6309", "65c02", "68000", "z80", "68020", "melps740", "68332", "65c19"]


def marker(t, tag, ident):
    close = {0xEE: 0x77, 0xDD: 0x66, 0xCC: 0x55}[tag]
    return "\t%s %d,%d,%d,%d" % (t["db"], tag, ident >> 8, ident & 255, close)


def gen_program(rng, tname):
    """-> dict(text, cpu, labels {id: ctx}, refs [dict(rid, target, ctx, form...)], phases {pid: addr}, stats)"""
    t = OT[tname]
    cpu = rng.choice(t["cpus"])
    even = bool(t.get("m68k"))
    base = rng.choice([0x400, 0x1000, 0x2000] if even else [0x200, 0x400, 0x1000, 0x4000])
    lines = ["\tcpu %s" % cpu]
    if even:
        lines.append("\tpadding off")
        if FAMILIES[cpu] != "cpu32":
            lines.append("\tfpu on")
        if cpu == "68020":
            lines.append("\tpmmu on")
    lines += t.get("pre", [])
    lines.append("\torg %d" % base)
    st = Counter()
    labels, refs, phases = {}, [], {}
    ctx = []
    nlab = [0]
    nrid = [0]
    shared = []          # labels any far form may refer to (placed or still to come)
    pending = []

    def cur():
        return ctx[-1] if ctx else None

    def fill(k):
        if even and k % 2:
            k += 1
        while k > 0:
            c = min(k, 64)
            lines.append("\t%s %s" % (t["db"], ",".join(str((5 * c + j) % 7 + 1) for j in range(c))))
            k -= c

    def new_label():
        n = nlab[0]
        nlab[0] += 1
        return n

    def put_label(n):
        lines.append("lab%d:" % n)
        lines.append(marker(t, 0xEE, n))
        labels[n] = cur()

    def put_ref(form, n):
        rid = nrid[0]
        nrid[0] += 1
        lines.append(marker(t, 0xDD, rid))
        for ld in form.get("lead", []):
            lines.append("\t" + ld)
        lines.append("\t" + form["tpl"].replace("{L}", "lab%d" % n).replace("{P}", t["pcsym"]))
        lines.append("\t%s 1,1,1,1" % t["db"])
        refs.append(dict(form, rid=rid, target=n, ctx=cur()))
        st["class/" + form["klass"]] += 1

    def one_form(far=False):
        if even:
            return m68k_form(rng, cpu, far)
        fm = rng.choice(t["forms"](rng, cpu))
        tpl, sel, near, kl = fm[:4]
        form = dict(tpl=tpl, sel=sel, near=near, klass=kl, pcrel=(sel == "rel"), idx=None, pcr=fm[4] if len(fm) > 4 else None)
        if len(fm) > 5:
            form.update(fm[5])
        return form

    # labels of the program: some placed up front, the others pending (forward references)
    for _ in range(rng.randrange(2, 6)):
        n = new_label()
        shared.append(n)
        pending.append(n)
    rng.shuffle(pending)
    if rng.random() < 0.5 and pending:
        put_label(pending.pop())
    far_label = None
    if even and FAMILIES[cpu] != "gen1" and rng.random() < 0.5:
        far_label = new_label()

    for _ in range(rng.randrange(5, 16)):
        r = rng.random()
        if r < 0.15 and pending:
            put_label(pending.pop())
        elif r < 0.70:
            form = one_form()
            if form["near"] or rng.random() < 0.35:
                # a label of its own next to the reference: distance small enough for every 8-bit form
                n = new_label()
                gap = rng.choice([0, 0, 1, 2, 3, 4, 10, 50, 90, 100, 108])
                if even and gap % 2:
                    gap += 1
                if rng.random() < 0.6:
                    put_ref(form, n)
                    fill(gap)
                    put_label(n)
                    st["direction/forward-near"] += 1
                else:
                    put_label(n)
                    fill(gap)
                    put_ref(form, n)
                    st["direction/backward-near"] += 1
            else:
                # same phase context only: the phased ranges lie far apart (16-bit PC-relative distances would not reach)
                cands = [n for n in shared if (n in labels and labels[n] == cur()) or (n in pending and not ctx)]
                if not cands:
                    continue
                n = rng.choice(cands)
                put_ref(form, n)
                st["direction/" + ("backward" if n in labels else "forward")] += 1
        elif r < 0.76 and far_label is not None and not ctx:
            form = one_form(far=True)
            if not form["near"]:
                put_ref(form, far_label)
                st["direction/forward-beyond-16-bit"] += 1
        elif r < 0.82 and not ctx and len(phases) < 2:
            pid = len(phases)
            pa = rng.choice(c01_ext.PHASE_ADDRS[t["phase"]]) if not even else [0x6000, 0x4000][pid]
            if not even and rng.random() < 0.3:
                pa += rng.randrange(16)
            phases[pid] = pa
            lines.append("\tphase %d" % pa)
            lines.append(marker(t, 0xCC, pid))
            ctx.append(pid)
            st["phase-statements"] += 1
        elif r < 0.88 and ctx:
            lines.append("\tdephase")
            ctx.pop()
        else:
            fill(rng.choice([2, 4, 30, 100, 120, 126, 128, 130, 200, 256, 300]))
    while ctx:
        lines.append("\tdephase")
        ctx.pop()
    for n in pending:
        put_label(n)
    if far_label is not None:
        lines.append("\torg %d" % (base + rng.choice([0x9000, 0x12000, 0x8400])))
        put_label(far_label)
    return dict(text="\n".join(lines) + "\n", cpu=cpu, tname=tname, labels=labels, refs=refs, phases=phases, stats=st)


def gen_sweep(rng, tname, cpu):
    """systematic companion of gen_program: every instruction class of the target x every operand form x forward / backward,
    each reference with a label of its own next to it (parameters random)"""
    t = OT[tname]
    even = bool(t.get("m68k"))
    base = 0x1000
    lines = ["\tcpu %s" % cpu]
    if even:
        lines.append("\tpadding off")
        if FAMILIES[cpu] != "cpu32":
            lines.append("\tfpu on")
        if cpu == "68020":
            lines.append("\tpmmu on")
    lines += t.get("pre", [])
    lines.append("\torg %d" % base)
    st = Counter()
    labels, refs = {}, []
    forms = []
    if even:
        for k in sorted(set(m68k_classes(cpu))):
            for ea in ("pc", "pcx", "pci", "abs"):
                if ea == "pci" and FAMILIES[cpu] != "gen2":
                    continue
                for _ in range(3 if k in ("absdst", "branch", "plain", "fpu") else 2):
                    forms.append(m68k_form(rng, cpu, False, force_k=k, force_ea=ea))
                if k in ("absdst", "branch"):
                    break
    else:
        for _ in range(3):
            for fm in t["forms"](rng, cpu):
                form = dict(tpl=fm[0], sel=fm[1], near=fm[2], klass=fm[3], pcrel=(fm[1] == "rel"), idx=None, pcr=fm[4] if len(fm) > 4 else None)
                if len(fm) > 5:
                    form.update(fm[5])
                forms.append(form)
    for n, form in enumerate(forms):
        gap = rng.choice([0, 2, 4, 20, 100]) if even else rng.choice([0, 1, 2, 3, 20, 100])
        fwd = n % 2 == 0
        rl = [marker(t, 0xDD, n)] + ["\t" + ld for ld in form.get("lead", [])] + \
             ["\t" + form["tpl"].replace("{L}", "lab%d" % n).replace("{P}", t["pcsym"]), "\t%s 1,1,1,1" % t["db"]]
        ll = ["lab%d:" % n, marker(t, 0xEE, n)]
        fl = ["\t%s %s" % (t["db"], ",".join(str(j % 7 + 1) for j in range(gap)))] if gap else []
        lines += (rl + fl + ll) if fwd else (ll + fl + rl)
        labels[n] = None
        refs.append(dict(form, rid=n, target=n, ctx=None))
        st["sweep-class/" + form["klass"]] += 1
    return dict(text="\n".join(lines) + "\n", cpu=cpu, tname=tname, labels=labels, refs=refs, phases={}, stats=st)


def scan_markers(img):
    close = {0xEE: 0x77, 0xDD: 0x66, 0xCC: 0x55}
    marks = {}
    for (s, a), b in img.items():
        if s == 1 and b in close and img.get((1, a + 3)) == close[b]:
            hi, lo = img.get((1, a + 1)), img.get((1, a + 2))
            if hi is not None and lo is not None:
                marks.setdefault((b, (hi << 8) | lo), []).append(a)
    return marks


def run_part(args, bdir, wd):
    """returns dict(spec_fail, corr_fail, evaluations, distinct, dist, samples, problems)"""
    quick = args.tier == "quick"
    out = dict(spec_fail=[], corr_fail=[], evaluations=0, distinct=set(), dist=Counter(), samples=[], problems=[])
    rng = common.rng_for(args.seed, "C01O")
    n = 480 if quick else 6000
    progs = []
    for tname in sorted(OT):
        for cpu in OT[tname]["cpus"]:
            progs.append(gen_sweep(rng, tname, cpu))
    out["dist"]["OP:sweep-programs"] = len(progs)
    progs += [gen_program(rng, ORDER[i % len(ORDER)]) for i in range(n)]
    flagsets = c01_ext.FLAG_SETS
    with ThreadPoolExecutor(max_workers=4) as ex:
        ress = list(ex.map(lambda ip: c01_ext.assemble_twice(bdir, wd, "xo%d" % ip[0], ip[1]["text"], flags=flagsets[ip[0] % len(flagsets)]), enumerate(progs)))
    reqs, meta = [], []
    bad_by_prog = {}
    corr_by_prog = {}
    for i, (p, res) in enumerate(zip(progs, ress)):
        out["evaluations"] += 1
        out["distinct"].add(p["text"])
        out["dist"]["OP:target/" + p["tname"]] += 1
        for k, v in p["stats"].items():
            out["dist"]["OP:" + k] += v
        base = dict(source=p["text"], target=p["cpu"], flags=" ".join(flagsets[i % len(flagsets)]))
        rc = res["rc"]
        if rc == 97 or rc == "timeout":
            out["dist"]["OP:cap-hits"] += 1
            out["spec_fail"].append(dict(base, sig=None, why="pass loop does not terminate within %d passes (program with operands behind extension words / prebytes)" % PASS_CAP))
            continue
        if rc != 0:
            out["spec_fail"].append(dict(base, sig=None, why="asl rejected a valid program: rc=%s %s" % (rc, res["msg"])))
            continue
        out["dist"]["OP:passes=%s" % res["passes"]] += 1
        if res["extra"]:
            out["spec_fail"].append(dict(base, sig=None, why=res["extra"]))
        img = res["img"]
        marks = scan_markers(img)
        off = {None: 0}
        for pid, pa in p["phases"].items():
            h = marks.get((0xCC, pid), [])
            if len(h) == 1:
                off[pid] = pa - h[0]
        lab_val = {}
        for lid, c in p["labels"].items():
            h = marks.get((0xEE, lid), [])
            if len(h) == 1 and c in off:
                lab_val[lid] = h[0] + off[c]
        for r in p["refs"]:
            h = marks.get((0xDD, r["rid"]), [])
            if len(h) != 1 or r["target"] not in lab_val or r["ctx"] not in off:
                out["dist"]["OP:references-not-located"] += 1
                continue
            a = h[0] + 4
            # instructions the source puts in front of the reference (and a NOP the assembler may put between them)
            lead_ok = True
            for lb in r.get("lead_bytes", []):
                if img.get((1, a)) != lb:
                    lead_ok = False
                a += 1
            if not lead_ok:
                bad_by_prog.setdefault(i, []).append(("reference %d `%s`: the instruction in front of it (%s) is missing in the image" % (r["rid"], r["tpl"], r["lead"]), "", r))
                continue
            if r.get("m740"):
                code, bit, zpv = r["m740"]
                hxb = "".join("%02x" % img[(1, a + k)] for k in range(6) if (1, a + k) in img)
                reqs.append("B %d %d %s %d %d %d %s" % (code, bit, "-" if zpv is None else zpv, a + off[r["ctx"]], lab_val[r["target"]], 1 if r.get("skip_nop") else 0, hxb))
                meta.append(("B", i, r, a, a + off[r["ctx"]], lab_val[r["target"]], hxb))
            if r.get("skip_nop") and img.get((1, a)) == 0xEA:
                a += 1
                r["nop_seen"] = True
                out["dist"]["OP:inserted-nop-skipped"] += 1
            epc = a + off[r["ctx"]]
            bs = []
            for k in range(18):
                b = img.get((1, a + k))
                if b is None:
                    break
                bs.append(b)
            hx = "".join("%02x" % b for b in bs)
            reqs.append("D %s %d %s" % (OT[p["tname"]]["dec"], epc, hx))
            meta.append(("D", i, r, a, epc, lab_val[r["target"]], hx))
            if r.get("pcr"):
                reqs.append("N %s %d %d" % (r["pcr"], epc, lab_val[r["target"]]))
                meta.append(("M", i, r, a, epc, lab_val[r["target"]], hx))
            if OT[p["tname"]].get("m68k") and r.get("cls"):
                reqs.append("M %s %d %d %s %s" % (FAMILIES[p["cpu"]], epc, lab_val[r["target"]], r["cls"], r["ea"]))
                meta.append(("M", i, r, a, epc, lab_val[r["target"]], hx))
    try:
        answers = common.driver("c01o", reqs, timeout=1800) if reqs else []
    except RuntimeError as ex:
        out["problems"].append(str(ex))
        answers = []
    if len(answers) != len(reqs):
        out["problems"].append("driver c01o answered %d of %d requests" % (len(answers), len(reqs)))
        answers = []
    for (kind, i, r, a, epc, want, hx), rq, ans in zip(meta, reqs, answers):
        p = progs[i]
        line = r["tpl"].replace("{L}", "lab%d" % r["target"])
        if kind == "D":
            if not ans.startswith("ok "):
                if ans == "none":
                    bad_by_prog.setdefault(i, []).append(("reference %d `%s` at %d: bytes %s are not an instruction form the manual decoder describes for this source line" % (r["rid"], line, a, hx[:16]), rq, r))
                else:
                    out["problems"].append("driver rejected a c01o request: %r / %s" % (ans, rq))
                continue
            fields = []
            for f in ans.split()[2:]:
                v = f.split(":", 7)
                fields.append(dict(value=int(v[0]), bits=int(v[1]), pos=int(v[2]), flen=int(v[3]), pcrel=v[4] == "1", len=int(v[5]),
                                   idx=None if v[6] == "-" else int(v[6]), form=v[7]))
            sel = [f for f in fields if f["pcrel"] == r["pcrel"] and (f["bits"] >= 16 or (want < 256 and not r["pcrel"]))]
            if not sel:
                bad_by_prog.setdefault(i, []).append(("reference %d `%s` at %d: the source names a %s operand, the instruction bytes %s hold %s" % (
                    r["rid"], line, a, "PC-relative" if r["pcrel"] else "absolute", hx[:20], ", ".join(f["form"] for f in fields) or "no address field"), rq, r))
                continue
            f = sel[0] if r["pcrel"] else sel[-1]
            out["dist"]["OP:references-decoded"] += 1
            out["dist"]["OP:field-at-byte/%d" % f["pos"]] += 1
            out["dist"]["OP:form/" + f["form"]] += 1
            wantv = want & ((1 << f["bits"]) - 1)
            if f["value"] != wantv:
                bad_by_prog.setdefault(i, []).append(("reference %d `%s` at load address %d (instruction address %d): the %s field at byte %d stands for %d, the label has the value %d" % (
                    r["rid"], line, a, epc, f["form"], f["pos"], f["value"], want), rq, r))
            elif r.get("idx") is not None and f["idx"] != r["idx"]:
                bad_by_prog.setdefault(i, []).append(("reference %d `%s` at %d: index register field %s, the source says %s" % (r["rid"], line, a, f["idx"], r["idx"]), rq, r))
        elif kind == "B":
            out["dist"]["OP:model-compared"] += 1
            kv = dict(x.split("=", 1) for x in ans.split() if "=" in x)
            if "asis" not in kv:
                out["problems"].append("driver rejected a c01o request: %r / %s" % (ans, rq))
            elif r.get("skip_nop") and kv["intended"] != "eq":
                # behind CLI/SEI: the bug-compatible model (InsNOP as written) must reproduce the bytes, else it is something new
                r["insnop_reproduced"] = kv["asis"] == "eq"
                out["dist"]["OP:insnop-finding-reproduced-by-the-model"] += 1 if kv["asis"] == "eq" else 0
                if kv["asis"] != "eq":
                    corr_by_prog.setdefault(i, []).append(("`%s` behind %s at %d: asl %s is neither the model of InsNOP as written nor the intended NOP + branch" % (line, r["lead"], epc, hx), rq))
            elif not r.get("skip_nop") and kv["asis"] != "eq":
                corr_by_prog.setdefault(i, []).append(("`%s` at %d (target %d): asl %s differs from Model.M740Bbs.encode" % (line, epc, want, hx), rq))
        else:
            out["dist"]["OP:model-compared"] += 1
            if ans.startswith("ok hex="):
                mh = ans[7:]
                if not hx.startswith(mh):
                    corr_by_prog.setdefault(i, []).append(("`%s` at %d (value %d): asl %s, model %s" % (line, epc, want, hx[:len(mh)], mh), rq))
            elif ans.startswith("err="):
                corr_by_prog.setdefault(i, []).append(("`%s` at %d (value %d): asl assembled %s, the model rejects it (%s)" % (line, epc, want, hx[:16], ans), rq))
            else:
                out["problems"].append("driver rejected a c01o request: %r / %s" % (ans, rq))
    for i, bl in sorted(bad_by_prog.items()):
        p = progs[i]
        # known finding: MELPS 740 bit branch behind CLI/SEI - only when every failing reference of the program is of that class
        # and the assembler really put its NOP there
        known = p["tname"] == "melps740" and all(b[2].get("skip_nop") and b[2].get("nop_seen") and b[2].get("insnop_reproduced") for b in bl)
        out["dist"]["OP:programs-with-known-finding-insnop"] += 1 if known else 0
        out["spec_fail"].append(dict(source=p["text"], target=p["cpu"], flags=" ".join(flagsets[i % len(flagsets)]), sig=SIG_INSNOP if known else None,
                                     why="; ".join(b[0] for b in bl[:4]), spec_request=bl[0][1]))
    for i, bl in sorted(corr_by_prog.items()):
        p = progs[i]
        out["corr_fail"].append(dict(source=p["text"], target=p["cpu"], why="; ".join(b[0] for b in bl[:4]), model_request=bl[0][1],
                                     correspondence="asl instruction bytes == Model.M68kOpnd.encode (RelPos / extension word layout of code68k.c) resp. Model.M6809Pcr.encode (OpcodeLen / n,PCR of code6809.c)"))
    # the smallest failing program first (the systematic programs are long)
    out["spec_fail"].sort(key=lambda f: len(f["source"]))
    out["corr_fail"].sort(key=lambda f: len(f["source"]))
    for i, p in enumerate(progs):
        if i not in bad_by_prog and i not in corr_by_prog and len(out["samples"]) < 3 and len(p["refs"]) > 5 and ress[i]["rc"] == 0:
            out["samples"].append(dict(kind="operand-positions/" + p["cpu"], source=p["text"][:900], passes=ress[i]["passes"]))
    out["dist"] = dict(sorted(out["dist"].items()))
    return out
