"""C08, part "constants inside formulas and operand lists": every integer notation - in particular the IBM forms with and
without closing apostrophe on the targets that install a QualifyQuote callback - followed by every dyadic operator, by a
comma and a further operand, by a closing parenthesis, preceded by the sign / complement operators; all digits of the
base (including the largest), both cases of the marker letters, RELAXED ON / INTSYNTAX +/-, several RADIX values.

Lean side: driver mode `c08q` (Driver/C08Q.lean) = MODEL `Model/ExprQuote.lean` (character loop of EvalStrExpression and
QuotPosCore with the QualifyQuote callback, ConstIntVal under the notation state) and SPEC `Spec/LitFormula.lean`
(the manual's notation table incl. the open IBM form, fold of the operator semantics).  The text sent to the real assembler
is rendered by the Lean SPEC (`LF.render`)."""
import os
import re

from .. import common

# cpu, integer syntax of the target, IBM constants without closing apostrophe allowed (READING of "some targets": the
# H8/300, H8/500, NS32000 and SC/MP families), QualifyQuote callback of the target, byte data statement (None: formulas only)
TARGETS = [
    ("sc/mp", "c", 1, "sqc", "db"),
    ("ns32016", "intel", 1, "sqc", "db"),
    ("ns32532", "intel", 1, "sqc", "db"),
    ("h8/300", "moto", 1, "sqc", "dc.b"),
    ("h8/300h", "moto", 1, "sqc", "dc.b"),
    ("hd6475328", "moto", 1, "sqc", "dc.b"),
    ("hd6475348", "moto", 1, "sqc", "dc.b"),
    ("68000", "moto", 0, "none", "dc.b"),
    ("6809", "moto", 0, "none", "fcb"),
    ("z80", "intel", 0, "z80", "db"),
    ("8051", "intel", 0, "none", "db"),
    ("8086", "intel", 0, "none", "db"),
    ("at90s8515", "c", 0, "none", None),
]
NATIVE = {"moto": ["$hex", "%bin", "@oct"], "intel": ["hexh", "binb", "octo", "octq"], "c": ["0xhex", "0bbin", "0oct"],
          "ibm": ["x'hex'", "h'hex'", "b'bin'", "o'oct'"]}
IBM = ["h'hex'", "x'hex'", "b'bin'", "o'oct'"]
ALL = ["$hex", "%bin", "@oct", "hexh", "binb", "octo", "octq", "h'hex'", "x'hex'", "b'bin'", "o'oct'", "0xhex", "0bbin", "0oct"]
BASE = {"$hex": 16, "%bin": 2, "@oct": 8, "hexh": 16, "binb": 2, "octo": 8, "octq": 8, "h'hex'": 16, "x'hex'": 16, "b'bin'": 2,
        "o'oct'": 8, "0xhex": 16, "0bbin": 2, "0oct": 8}
DIG = "0123456789ABCDEFGHIJKLMNOPQRSTUVWXYZ"
M64 = (1 << 64) - 1

OPS_ALL = ["add", "sub", "mul", "div", "mod", "pow", "and", "or", "xor", "shl", "shr", "mirror", "land", "lor", "lxor",
           "eq", "eqeq", "ne", "lt", "le", "gt", "ge"]
OPS_SAFE = ["add", "sub", "mul", "and", "or", "xor", "land", "lor", "lxor", "eq", "ne", "lt", "le", "gt", "ge"]
OPS_DATA = ["add", "sub", "mul", "and", "or", "xor"]
PY = {"add": lambda a, b: a + b, "sub": lambda a, b: a - b, "mul": lambda a, b: a * b, "and": lambda a, b: a & b,
      "or": lambda a, b: a | b, "xor": lambda a, b: a ^ b}


def configs(mode, no_term):
    """(relaxed, intsyntax minus, intsyntax plus)"""
    out = [(1, [], []), (0, [], list(IBM))]
    if no_term:
        out.append((0, [], ["o'oct'", "h'hex'"]))
        out.append((1, [NATIVE[mode][0]], ["b'bin'"]))
    else:
        out.append((0, [], []))
    return out


def enabled_of(mode, relaxed, minus, plus):
    s = set(NATIVE[mode])
    s -= set(minus)
    s |= set(plus)
    if relaxed:
        # RELAXED adds the notations of the OTHER syntaxes; a native notation taken away by INTSYNTAX stays away
        s |= set(ALL) - set(NATIVE[mode])
    return [n for n in ALL if n in s]


class QGen:
    def __init__(self, rng, radix, no_term, enabled):
        self.rng = rng
        self.radix = radix
        self.no_term = no_term
        self.enabled = enabled
        self.dist = {}

    def count(self, k):
        self.dist[k] = self.dist.get(k, 0) + 1

    def digits(self, base, maxlen=5, small=False):
        rng = self.rng
        r = rng.random()
        n = rng.randrange(1, (3 if small else maxlen) + 1)
        if small:
            n = {2: rng.randrange(1, 8), 8: rng.randrange(1, 3), 16: rng.randrange(1, 3)}.get(base, 1)
        top = DIG[base - 1]
        if r < 0.35:
            d = [rng.choice(DIG[:base]) for _ in range(n)]
        elif r < 0.7:
            d = [rng.choice(DIG[:base]) for _ in range(n)]
            d[rng.randrange(n)] = top                      # the largest digit of the base somewhere
            self.count("with_largest_digit")
        elif r < 0.85:
            d = [top] * n
            self.count("with_largest_digit")
        else:
            d = [rng.choice(DIG[:base]) for _ in range(n - 1)] + [rng.choice([top, DIG[base - 2], "0", "1"])]
        return "".join(d)

    def case(self, t):
        r = self.rng.random()
        return t.lower() if r < 0.4 else (t.upper() if r < 0.8 else "".join(c.lower() if self.rng.random() < 0.5 else c.upper() for c in t))

    def lit(self, nota=None, form=None, small=False, value=None):
        """returns (text, intended value, class key)"""
        rng = self.rng
        if nota is None:
            nota = rng.choice(self.enabled + ["dec"])
        base = self.radix if nota == "dec" else BASE[nota]
        d = self.digits(base, small=small) if value is None else to_base(value, base)
        v = int(d, base)
        if small and base > 16:
            d = self.digits(base, 1)
            v = int(d, base)
        dc = self.case(d)
        key = nota
        if nota == "dec":
            t = dc if dc[0].isdigit() else "0" + dc
            # `<decimal digits>E` directly followed by + or - is the mantissa / exponent form of a floating point constant
            # (assembler-usage.md: [-]<integer digits>[.post decimal positions][E[-]exponent]); under RADIX 15 and above such a
            # digit string is also an integer, and asl reads `0E-05` as the float 0e-05.  The text is ambiguous, the manual does
            # not say which reading wins: such a constant is written in parentheses so that no sign can follow the E
            if self.radix > 14 and re.fullmatch(r"[0-9]+[eE]", t):
                self.count("exponent_like_constant_parenthesised")
                return ("p", ("l", t)), v, key
        elif nota in ("$hex", "%bin", "@oct"):
            t = nota[0] + dc
        elif nota in ("hexh", "binb", "octo", "octq"):
            t = (dc if dc[0].isdigit() else "0" + dc) + self.case(nota[-1])
        elif nota in IBM:
            if form is None:
                form = "open" if (self.no_term and rng.random() < 0.65) else "closed"
            t = self.case(nota[0]) + "'" + dc + ("'" if form == "closed" else "")
            key = nota + ":" + form
        elif nota == "0xhex":
            t = "0" + self.case("x") + dc
        elif nota == "0bbin":
            t = "0" + self.case("b") + dc
        elif nota == "0oct":
            t = "0" + dc
        else:
            raise AssertionError(nota)
        return ("l", t), v, key

    def leaf(self, small=False):
        """a further operand: a constant of any enabled notation or of the RADIX base (digits of that base only: a digit string
        with a digit outside the base is not an integer constant but - by the manual's "first integer, then floating point" - a float)"""
        rng = self.rng
        if rng.random() < 0.75:
            t, v, _ = self.lit(small=small)
            return t, v
        if self.radix != 10:
            t, v, _ = self.lit("dec", small=True)
            return t, v
        v = rng.randrange(0, 10) if small else rng.randrange(0, 300)
        return ("l", str(v)), v

    def right_for(self, op):
        """right operand that keeps the operator defined: (tree, value)"""
        rng = self.rng
        lo, hi = {"shl": (0, 63), "shr": (0, 63), "mirror": (1, 32), "pow": (0, 9)}.get(op, (1, 1 << 20))
        for _ in range(30):
            if op in ("shl", "shr", "mirror", "pow"):
                v = rng.randrange(lo, hi + 1)
                t, v2, _ = self.lit(value=v)
                return t, v2
            t, v = self.leaf()
            if t[0] == "l" and (op not in ("div", "mod") or v != 0):
                return t, v
        return ("l", "1"), 1

    def contexts(self, nota, form):
        """formulas that place one constant of the notation in every position class; yields (class, tree)"""
        rng = self.rng

        def L():
            return self.lit(nota, form)[0]
        for op in OPS_ALL:                                   # the constant followed by each dyadic operator
            yield "followed-by-operator", ("b", op, L(), self.right_for(op)[0])
        for op in rng.sample(OPS_SAFE, 4):                   # ... and preceded by it (end of the text behind the constant)
            yield "preceded-by-operator", ("b", op, self.leaf()[0], L())
        o1, o2 = rng.choice(OPS_SAFE), rng.choice(OPS_SAFE)
        yield "chain", ("b", o2, ("b", o1, L(), self.leaf()[0]), self.leaf()[0])
        yield "chain", ("b", o1, self.leaf()[0], ("b", o2, L(), self.leaf()[0]))
        yield "two-constants", ("b", rng.choice(OPS_SAFE), L(), L())
        yield "before-closing-parenthesis", ("b", rng.choice(OPS_SAFE), ("p", ("b", rng.choice(OPS_SAFE), self.leaf()[0], L())), self.leaf()[0])
        yield "before-closing-parenthesis", ("b", rng.choice(OPS_SAFE), ("p", L()), self.leaf()[0])
        yield "before-closing-parenthesis", ("p", ("p", L()))
        yield "parenthesised-left", ("b", rng.choice(OPS_SAFE), self.leaf()[0], ("p", ("b", rng.choice(OPS_SAFE), L(), self.leaf()[0])))
        u = rng.choice(["neg", "not", "lnot"])
        yield "after-unary", ("u", u, L())
        yield "after-unary", ("b", rng.choice(OPS_SAFE), ("u", rng.choice(["neg", "not", "lnot"]), L()), self.leaf()[0])
        yield "after-unary", ("b", rng.choice(OPS_SAFE), self.leaf()[0], ("u", rng.choice(["neg", "not", "lnot"]), L()))
        yield "with-character-constant", ("b", rng.choice(["sub", "and", "or", "xor", "mul", "lt", "eq"]), L(), ("k", rng.choice("ABHOXbhox1")))
        yield "with-character-constant", ("b", rng.choice(["sub", "and", "or", "xor", "mul", "lt", "eq"]), ("k", rng.choice("ABHOXbhox1")), L())
        yield "alone", L()

    def data_operand(self, nota, form):
        """(tree, value) with value in 0..255 as far as the generator can tell"""
        rng = self.rng
        for _ in range(40):
            a, va, _ = self.lit(nota, form, small=True)
            r = rng.random()
            if r < 0.25:
                t, v = a, va
            elif r < 0.8:
                b, vb = self.leaf(small=True)
                op = rng.choice(OPS_DATA)
                if rng.random() < 0.5:
                    t, v = ("b", op, a, b), PY[op](va, vb)
                else:
                    t, v = ("b", op, b, a), PY[op](vb, va)
            elif r < 0.9:
                t, v = ("p", a), va
            else:
                b, vb = self.leaf(small=True)
                t, v = ("b", "add", ("u", "neg", a), ("p", ("b", "add", a, b))), vb
            if 0 <= v <= 255 and not has_char(t):
                return t, v
        return ("l", "1"), 1


def has_char(t):
    if t[0] == "k":
        return True
    if t[0] == "l":
        return False
    return any(has_char(x) for x in t[1:] if isinstance(x, tuple))


def to_base(v, b):
    if v == 0:
        return "0"
    out = ""
    while v:
        out = DIG[v % b] + out
        v //= b
    return out


def ser(t):
    k = t[0]
    if k == "l":
        return "l:" + t[1].encode().hex()
    if k == "k":
        return "k:" + t[1].encode().hex()
    if k == "p":
        return "p: " + ser(t[1])
    if k == "u":
        return "u:%s %s" % (t[1], ser(t[2]))
    if k == "b":
        return "b:%s %s %s" % (t[1], ser(t[2]), ser(t[3]))
    raise AssertionError(t)


MSG_RE = re.compile(rb"^@(\d+)@ (.*)$")


def run(c08, bdir, wd, quirks, seed, tier, stats, dist, spec_fail, corr_fail, samples, proof_problems):
    """returns the number of evaluations"""
    rounds = {"quick": 1, "thorough": 5}[tier]
    n_eval = 0
    d = dist.setdefault("constants_in_formulas", dict(cases=0, data_statements=0, by_class={}, by_notation={}, by_target={},
                                                     int_results=0, spec_errors=0, spec_undef=0, with_largest_digit=0))
    for ti, (cpu, mode, no_term, qual, dataop) in enumerate(TARGETS):
        cfgs = configs(mode, no_term)
        if tier == "quick" and not no_term:
            cfgs = cfgs[:2]
        for ci, (relaxed, minus, plus) in enumerate(cfgs):
            rng = common.rng_for(seed, "C08q/%s/%d" % (cpu, ci))
            radix = rng.choice([10, 10, 10, 16, 8, 2, rng.randrange(2, 37)]) if ci else 10
            enabled = enabled_of(mode, relaxed, minus, plus)
            g = QGen(rng, radix, no_term, enabled)
            cases = []          # (kind 'F'|'L', class, notation key, [trees])
            for _ in range(rounds):
                for nota in enabled + ["dec"]:
                    forms = (["open", "closed"] if no_term else ["closed"]) if nota in IBM else [None]
                    for form in forms:
                        key = nota + (":" + form if form else "")
                        for cls, t in g.contexts(nota, form):
                            cases.append(("F", cls, key, [t]))
                        if dataop:
                            for _k in range(3):
                                n_ops = rng.randrange(2, 5)
                                pos = rng.randrange(n_ops)
                                ops = []
                                for j in range(n_ops):
                                    if j == pos or rng.random() < 0.4:
                                        ops.append(g.data_operand(nota, form)[0])
                                    else:
                                        ops.append(g.data_operand(None, None)[0])
                                cases.append(("L", "operand-list", key, ops))
            head = "%s %d %d %d %s %s %s %s " % (mode, relaxed, no_term, radix, ",".join(minus) or "-", ",".join(plus) or "-", qual, quirks)
            reqs = [head + " ; ".join(ser(t) for t in trees) for _, _, _, trees in cases]
            ans = common.driver("c08q", reqs, timeout=600)
            cfg_s = "cpu %s relaxed %s intsyntax %s radix %d" % (cpu, "on" if relaxed else "off",
                                                                 ",".join(["-" + m for m in minus] + ["+" + p for p in plus]) or "(unchanged)", radix)
            rows = []
            for (kind, cls, key, trees), rq, a in zip(cases, reqs, ans):
                kv = dict(x.split("=", 1) for x in a.split() if "=" in x)
                if "text" not in kv:
                    proof_problems.append("driver rejected request: c08q " + rq[:200] + " -> " + a[:80])
                    continue
                text = bytes.fromhex(kv["text"]).decode("latin-1")
                rows.append(dict(kind=kind, cls=cls, key=key, req=rq, text=text, model=kv["model"].split(","), spec=kv["spec"].split(","),
                                 nargs=int(kv["args"]), qual=kv.get("qual")))
            # ---- the real assembler: one source with the formulas (SET + MESSAGE), one with the data statements (the code file is
            #      only kept by an assembly without errors: statements that got an error are taken out and the rest is assembled again)
            head_src = ["\tcpu %s" % cpu, "\trelaxed %s" % ("on" if relaxed else "off")]
            if minus or plus:
                head_src.append("\tintsyntax " + ",".join(["-" + m for m in minus] + ["+" + p for p in plus]))
            head_src.append("\toutradix 10")
            if radix != 10:
                head_src.append("\tradix %d" % radix)
            hdr = len(head_src)
            where = dict(config=cfg_s, cpu=cpu)
            errs, vals, mem = {}, {}, {}
            broken = False

            def assemble(body, tag):
                """body: list of (k, [lines]); returns (ok, errors by k, stdout)"""
                src = list(head_src)
                owner = {}
                for k, lines in body:
                    for ln in lines:
                        src.append(ln)
                        owner[len(src)] = k
                f = os.path.join(wd, "q%d_%d%s.asm" % (ti, ci, tag))
                open(f, "w").write("\n".join(src) + "\n")
                stats["asl_runs"] += 1
                rc, so, se = common.run_tool(bdir, "asl", ["-q", "-n", f, "-o", f[:-4] + ".p"], wd, timeout=300)
                pf = f[:-4] + ".p"
                data = open(pf, "rb").read() if os.path.exists(pf) else None
                for p in (f, pf):
                    if os.path.exists(p):
                        os.unlink(p)
                if rc == "timeout" or (isinstance(rc, int) and (rc < 0 or rc == 3)):
                    spec_fail.append(dict(sig=None, text="constants-in-formulas file", asl="status %s" % rc,
                                          why="the assembler crashed or aborted on formulas over integer constants", source="\n".join(src[:60]), **where))
                    return False, {}, b"", None
                if [m for m in c08.ERR_RE.finditer(se + so) if int(m.group(1)) <= hdr]:
                    corr_fail.append(dict(sig=None, text="constants-in-formulas header", asl=(se + so).decode("latin-1")[:300], why="configuration statements rejected", **where))
                    return False, {}, b"", None
                e = {}
                for m in c08.ERR_RE.finditer(se + so):
                    ln, num = int(m.group(1)), int(m.group(2))
                    if ln in owner:
                        e.setdefault(owner[ln], num)
                return True, e, so, data

            fbody = []
            for k, r in enumerate(rows):
                if r["kind"] == "F":
                    fbody.append((k, ["q_%d\tset %s%s" % (k, r["text"], " ; c" if k % 7 == 3 else ""),
                                      '\tmessage "@%d@ \\{defined(q_%d)}\\{q_%d}"' % (k, k, k)]))
            ok, e, so, _ = assemble(fbody, "f")
            if not ok:
                continue
            errs.update(e)
            for line in so.split(b"\n"):
                m = MSG_RE.match(line)
                if m and m.group(2).startswith(b"1"):
                    vals[int(m.group(1))] = m.group(2)[1:].decode("latin-1")
            dbody = []
            slot = 0
            for k, r in enumerate(rows):
                if r["kind"] == "L":
                    r["slot"] = slot
                    pre = ["\tradix 10"] if radix != 10 else []
                    post = ["\tradix %d" % radix] if radix != 10 else []
                    dbody.append((k, pre + ["\torg %d" % (slot * 8)] + post + ["\t%s %s%s" % (dataop, r["text"], " ; c" if k % 5 == 2 else "")]))
                    slot += 1
            for _attempt in range(4):
                if not dbody:
                    break
                ok, e, so, data = assemble(dbody, "d")
                if not ok:
                    broken = True
                    break
                errs.update(e)
                if e:
                    dbody = [x for x in dbody if x[0] not in e]
                    continue
                for rec in (common.parse_pfile_py(data) if data else None) or []:
                    if rec[0] == "D":
                        for j, bb in enumerate(rec[5]):
                            mem[rec[4] + j] = bb
                break
            if broken:
                continue
            # ---- verdicts
            for k, r in enumerate(rows):
                n_eval += 1
                d["cases"] += 1
                d["by_class"][r["cls"]] = d["by_class"].get(r["cls"], 0) + 1
                d["by_notation"][r["key"]] = d["by_notation"].get(r["key"], 0) + 1
                d["by_target"][cpu] = d["by_target"].get(cpu, 0) + 1
                if r["qual"] == "ne":
                    proof_problems.append("model-internal: QualifyQuote_SingleQuoteConstant model differs from the SPEC predicate openIbmAt on " + r["text"])
                if any(s == "Eundef" for s in r["spec"]):
                    d["spec_undef"] += 1
                elif any(s.startswith("E") for s in r["spec"]):
                    d["spec_errors"] += 1
                else:
                    d["int_results"] += 1
                if r["kind"] == "F":
                    if k in errs:
                        real = ("err", c08.ERRCLASS.get(errs[k], "other"), errs[k])
                    elif k in vals:
                        real = ("val", vals[k])
                    else:
                        real = ("missing",)
                    sp, mo = r["spec"][0], (r["model"][0] if r["nargs"] == 1 else "Esplit%d" % r["nargs"])
                    spec_ok = sp == "Eundef" or c08.agrees(sp, real)
                    model_ok = mo in ("Eub", "Eundef") or c08.agrees(mo, real)
                    shown = c08.show_real(real)
                else:
                    d["data_statements"] += 1
                    n = len(r["spec"])
                    got = [mem.get(r["slot"] * 8 + j) for j in range(n)]
                    if k in errs:
                        shown = "error #%d" % errs[k]
                        realb = None
                    else:
                        shown = "bytes " + " ".join("??" if b is None else "%d" % b for b in got)
                        realb = got

                    def expect(vs):
                        out = []
                        for v in vs:
                            if not v.startswith("I"):
                                return None
                            x = int(v[1:])
                            x = x - (1 << 64) if x >= (1 << 63) else x
                            if not -128 <= x <= 255:
                                return "range"
                            out.append(x & 255)
                        return out
                    es, em = expect(r["spec"]), (expect(r["model"]) if r["nargs"] == n else None)
                    if es == "range" or es is None:
                        continue            # outside what this statement is asked (the generator aims at 0..255)
                    spec_ok = realb == es
                    model_ok = (realb == em) if em is not None else (realb is None)
                    sp, mo = ",".join(r["spec"]), ",".join(r["model"]) + ("" if r["nargs"] == n else " (split into %d arguments)" % r["nargs"])
                if len(samples) < 14 and k % 211 == 17:
                    samples.append(dict(text=r["text"], config=cfg_s, asl=shown, model=mo, spec=sp))
                if spec_ok and model_ok:
                    continue
                entry = dict(sig=None, text=("%s %s" % (dataop, r["text"]) if r["kind"] == "L" else r["text"]), formula="c08q " + r["req"], asl=shown, spec=sp, model=mo,
                             cls=r["cls"], notation=r["key"], quote_source=True,
                             source="\tcpu %s\n\trelaxed %s\n%s\toutradix 10\n%s%s\n" % (
                                 cpu, "on" if relaxed else "off",
                                 ("\tintsyntax " + ",".join(["-" + m for m in minus] + ["+" + p for p in plus]) + "\n") if (minus or plus) else "",
                                 ("\tradix %d\n" % radix) if radix != 10 else "",
                                 ("x\tset %s\n\tmessage \"\\{x}\"" % r["text"]) if r["kind"] == "F" else "\t%s %s" % (dataop, r["text"])),
                             why="a formula over integer constants does not have the documented value", **where)
                if not spec_ok:
                    spec_fail.append(entry)
                else:
                    entry["why"] = "real assembler and Lean model disagree (the documented value is met)"
                    corr_fail.append(entry)
            d["with_largest_digit"] += g.dist.get("with_largest_digit", 0)
    return n_eval


def replay(c08, d):
    """re-run the source of a recorded failure"""
    bdir = common.repo_build("hooks")
    with common.Workdir("c08qr") as wd:
        f = os.path.join(wd, "rp.asm")
        open(f, "w").write(d["source"])
        rc, so, se = common.run_tool(bdir, "asl", ["-q", "-n", f, "-o", f[:-4] + ".p"], wd)
        pf = f[:-4] + ".p"
        recs = common.parse_pfile_py(open(pf, "rb").read()) if os.path.exists(pf) else None
        print("asl now: status", rc, (se + so).decode("latin-1")[:400], "bytes", [r[5].hex() for r in (recs or []) if r[0] == "D"])
        if d.get("formula", "").startswith("c08q "):
            print("driver :", common.driver("c08q", [d["formula"][5:]])[0])
    return 0
