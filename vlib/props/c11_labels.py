"""C11, labels of enclosing expansions seen from nested bodies (Spec/MacroLabels.lean, Model/MacroLabels.lean, Props/C11_Labels.lean,
driver mode `c11lab`).

Programs of one-byte statements - `lbK: db <128+K>` (defines a label) and ` db lbK` (lays down the value of a name) - in MACRO / REPT / IRP /
IRPN / IRPC / WHILE bodies nested 1..5 levels deep, kinds mixed at random, 0..3 iterations, with and without {GLOBALSYMBOLS}.  A body refers
to labels of its own body, of the body 1, 2, 3, 4 levels further out (in front of and behind the reference), to names that a body in between
defines again, to names that exist globally as well (global namesake in front of / behind the constructs), to names that only a sibling or an
inner body defines (then the global symbol is meant, or nothing: the assembler must refuse), macros are called once or twice.

(C) SPEC: `MacroLabelsSpec.bytesOf` (hand expansion with the labels of every copy renamed, addresses counted by hand) must be the code the
    real asl produces for the construct program; the hand expansion is also written out as source text and assembled by the same binary.
(B) MODEL: `MacroLabels.bytesOf` (handle stack + FindLocNode of asmpars.c, two passes) vs the real code.
A reference inside a macro body to a label of the body the macro was *called* from is not generated (the manual leaves it open).
"""
from .. import common

MAXSTMT = 230
POOL = list(range(1, 11))
KINDS = ["m", "r", "i", "n", "c", "w"]
KIND_NAME = dict(m="MACRO", r="REPT", i="IRP", n="IRPN", c="IRPC", w="WHILE")


class Gen:
    def __init__(self, rng, maxdepth, allow_undef):
        self.rng = rng
        self.maxdepth = maxdepth
        self.allow_undef = allow_undef
        self.macros = []          # (glob, body)
        self.fresh = 20
        self.globals = set()
        self.stats = dict(ref_own=0, ref_out1=0, ref_out2=0, ref_out3=0, ref_out4plus=0, ref_global=0, ref_global_namesake_of_enclosing=0,
                          ref_shadowed=0, ref_forward=0, ref_any=0, labels=0, glob=0, macro_twice=0, maxdepth=0, kinds={})

    def plan(self, lo, hi):
        k = self.rng.randrange(lo, hi + 1)
        return self.rng.sample(POOL, k)

    def ref(self, frames, blocked, defined_so_far):
        """choose the name a reference statement names; frames: the label sets of the enclosing bodies whose text we stand in, innermost last"""
        rng = self.rng
        for _ in range(20):
            r = rng.random()
            cand = None
            if frames and r < 0.40:
                # farthest body that has labels
                idx = [i for i, f in enumerate(frames) if f]
                if idx:
                    i = idx[0] if rng.random() < 0.7 else rng.choice(idx)
                    cand = rng.choice(sorted(frames[i]))
            elif frames and r < 0.60:
                idx = [i for i, f in enumerate(frames) if f]
                if idx:
                    cand = rng.choice(sorted(frames[rng.choice(idx)]))
            elif r < 0.85 and self.globals:
                cand = rng.choice(sorted(self.globals))
            elif self.allow_undef or not frames:
                cand = rng.choice(POOL)
            if cand is None:
                continue
            vis = [i for i, f in enumerate(frames) if cand in f]
            if not vis:
                if any(cand in f for f in blocked):
                    continue          # would mean a label of the body the macro was called from: the manual leaves it open
                if cand not in self.globals and not self.allow_undef:
                    continue
                self.stats["ref_global"] += 1
            else:
                d = len(frames) - 1 - vis[-1]
                self.stats["ref_own" if d == 0 else "ref_out%s" % (d if d < 4 else "4plus")] += 1
                if len(vis) > 1:
                    self.stats["ref_shadowed"] += 1
                if cand in self.globals:
                    self.stats["ref_global_namesake_of_enclosing"] += 1
                if cand not in defined_so_far[vis[-1]]:
                    self.stats["ref_forward"] += 1
            self.stats["ref_any"] += 1
            return cand
        return None

    def body(self, depth, frames, blocked, sofar, planned, top=False):
        """statements of one body; `planned`: labels this body defines itself (each once)"""
        rng = self.rng
        nst = rng.randrange(1, 4) + (2 if top else 0)
        slots = ["L%d" % k for k in planned] + ["R"] * nst
        ncon = 0
        if depth < self.maxdepth:
            ncon = rng.choice([1, 1, 1, 2]) if depth < 2 else rng.choice([0, 1, 1, 1, 1, 2])
        slots += ["C"] * ncon
        rng.shuffle(slots)
        if top:
            # global namesakes in front of and behind the constructs
            slots.sort(key=lambda s: 0 if s != "C" and rng.random() < 0.3 else 1)
        out = []
        for s in slots:
            if s[0] == "L":
                k = int(s[1:])
                out.append(("L", k))
                self.stats["labels"] += 1
                if sofar:
                    sofar[-1].add(k)
            elif s == "R":
                k = self.ref(frames, blocked, sofar)
                if k is not None:
                    out.append(("R", k))
            else:
                out += self.construct(depth + 1, frames, blocked, sofar, top)
        return out

    def construct(self, depth, frames, blocked, sofar, top):
        rng = self.rng
        self.stats["maxdepth"] = max(self.stats["maxdepth"], depth)
        kind = rng.choice(KINDS)
        self.stats["kinds"][kind] = self.stats["kinds"].get(kind, 0) + 1
        glob = rng.random() < 0.15 and (kind != "m" or top)
        if kind == "m":
            n = 1
        elif kind in ("r", "w"):
            n = rng.choice([0, 1, 2, 2, 3]) if depth <= 3 else rng.choice([1, 2])
        else:
            n = rng.choice([1, 2, 3]) if depth <= 3 else rng.choice([1, 2])
        if kind == "n":
            n = min(n, 2)
        if glob:
            n = 1
            self.stats["glob"] += 1
        if kind == "m":
            # the body is text of its own: nothing of the caller's bodies is visible in it
            in_frames, in_blocked, in_sofar = [], blocked + frames, []
        else:
            in_frames, in_blocked, in_sofar = frames, blocked, sofar
        if glob:
            # the labels are those of the enclosing body (or global): fresh names, the body runs once
            planned = []
            for _ in range(rng.randrange(0, 3)):
                self.fresh += 1
                planned.append(self.fresh)
            if in_frames:
                in_frames[-1].update(planned)
                fr, sf = in_frames, in_sofar
            elif kind == "m" or not frames:
                self.globals.update(planned)
                fr, sf = in_frames, in_sofar
            else:
                fr, sf = in_frames, in_sofar
            body = self.body(depth, fr, in_blocked, sf, planned)
        else:
            planned = self.plan(0, 3) if depth > 1 or rng.random() < 0.2 else self.plan(1, 3)
            body = self.body(depth, in_frames + [set(planned)], in_blocked, in_sofar + [set()], planned)
        if not body:
            body = [("R", rng.choice(sorted(self.globals)))] if self.globals else [("L", self._fresh())]
        if kind == "m":
            self.macros.append((glob, body))
            node = ("C", "m", glob, 1, body, len(self.macros) - 1)
            if not glob and rng.random() < 0.4:
                self.stats["macro_twice"] += 1
                return [node, node]
            return [node]
        return [("C", kind, glob, n, body, None)]

    def _fresh(self):
        self.fresh += 1
        return self.fresh


def count(items):
    t = 0
    for it in items:
        if it[0] in "LR":
            t += 1
        else:
            t += it[3] * count(it[4])
    return t


def gen_program(rng, maxdepth):
    for _ in range(200):
        g = Gen(rng, maxdepth, allow_undef=rng.random() < 0.08)
        planned = g.plan(0, 4)
        g.globals = set(planned)
        top = g.body(0, [], [], [], planned, top=True)
        if 3 <= count(top) <= MAXSTMT and g.stats["maxdepth"] >= 1:
            return top, g.macros, g.stats
    raise RuntimeError("c11_labels: generator does not find a program of admissible size")


def encode(items, out):
    for it in items:
        if it[0] == "L":
            out += ["L", str(it[1])]
        elif it[0] == "R":
            out += ["R", str(it[1])]
        else:
            _, kind, glob, n, body, _ = it
            out += ["C", "1" if kind == "w" else "0", "1" if glob else "0", str(n)]
            encode(body, out)
            out.append("E")
    return out


class Render:
    def __init__(self):
        self.np = 0

    def items(self, items, lines):
        for it in items:
            if it[0] == "L":
                lines.append("lb%d:\tdb\t%d" % (it[1], 128 + it[1] % 64))
            elif it[0] == "R":
                lines.append("\tdb\tlb%d" % it[1])
            elif it[1] == "m":
                lines.append("\tmc%d" % it[5])
            else:
                _, kind, glob, n, body, _ = it
                g = "{GLOBALSYMBOLS}," if glob else ""
                self.np += 1
                pa, pb, w = "zp%da" % self.np, "zp%db" % self.np, "wc%d" % self.np
                if kind == "r":
                    lines.append("\trept\t%s%d" % (g, n))
                elif kind == "i":
                    lines.append("\tirp\t%s,%s%s" % (pa, g, ",".join("a%d" % i for i in range(n))))
                elif kind == "n":
                    lines.append("\tirpn\t2,%s,%s,%s%s" % (pa, pb, g, ",".join("a%d" % i for i in range(2 * n))))
                elif kind == "c":
                    lines.append("\tirpc\t%s,%s\"%s\"" % (pa, g, "uvwxyz"[:n]))
                elif kind == "w":
                    lines.append("%s\t:=\t0" % w)
                    lines.append("\twhile\t%s%s<%d" % (g, w, n))
                self.items(body, lines)
                if kind == "w":
                    lines.append("%s\t:=\t%s+1" % (w, w))
                lines.append("\tendm")


def source(top, macros):
    r = Render()
    lines = ["\tcpu\tz80", "\torg\t0"]
    for k, (g, body) in enumerate(macros):
        lines.append("mc%d\tmacro%s" % (k, "\t{GLOBALSYMBOLS}" if g else ""))
        r.items(body, lines)
        lines.append("\tendm")
    r.items(top, lines)
    return "\n".join(lines) + "\n"


def hand_source(hand):
    """the SPEC's hand expansion as source text: the label of copy i of a body is lbK_i"""
    lines = ["\tcpu\tz80", "\torg\t0"]
    if hand != "-":
        for ev in hand.split(","):
            k, inst = ev[1:].split(".")
            name = "lb%s" % k if inst == "g" else "lb%s_%s" % (k, inst)
            lines.append("%s:\tdb\t%d" % (name, 128 + int(k) % 64) if ev[0] == "D" else "\tdb\t%s" % name)
    return "\n".join(lines) + "\n"


SIG_FWD = "forward-ref-in-macro-body-binds-outer-symbol-when-no-second-pass"


def asl_extra_pass(bdir, wd, name, src):
    """the same run with one more pass after convergence (hook H1)"""
    import os
    f = os.path.join(wd, name + ".asm")
    with open(f, "w") as fh:
        fh.write(src)
    pf = os.path.join(wd, name + ".p")
    if os.path.exists(pf):
        os.unlink(pf)
    rc, so, se = common.run_tool(bdir, "asl", ["-q", f, "-o", pf], wd, env={"ASL_VERIF_EXTRA_PASSES": "1"})
    return rc, (so + se).decode(errors="replace"), open(pf, "rb").read() if os.path.exists(pf) else None, None


def real_bytes(asl, canon_p, bdir, wd, name, src):
    rc, msg, p, _ = asl(bdir, wd, name, src)
    cells = canon_p(p) if p is not None else None
    if rc != 0 or cells is None:
        return None, rc, msg
    return b"".join(c[4] for c in sorted(cells, key=lambda c: c[3])).hex() or "-", rc, msg


def run_stream(args, asl, canon_p, bdir, wd, drv_ok, dist, spec_fail, corr_fail, proof_problems, samples):
    evaluations, distinct = 0, set()
    if not drv_ok:
        return evaluations, distinct
    thorough = args.tier == "thorough"
    rng = common.rng_for(args.seed, "C11/labels")
    nprog = 2500 if thorough else 160
    progs = []
    for k in range(nprog):
        maxdepth = [2, 3, 4, 4, 5, 5][k % 6]
        progs.append(gen_program(rng, maxdepth))
    reqs = [" ".join(encode(top, [])) for top, _, _ in progs]
    answers = common.driver("c11lab", reqs, timeout=1800)
    d = dict(programs=0, undefined_expected=0, model_eq_real=0, spec_eq_real=0, hand_assembled=0, statements=0, by_maxdepth={},
             refs=dict(own=0, out1=0, out2=0, out3=0, out4plus=0, glob=0, global_namesake_of_enclosing=0, shadowed=0, forward=0),
             labels=0, globalsymbols=0, macro_called_twice=0, kinds={}, hyp_nodoubledef=0, hyp_noearlybind=0, hyp_both=0, hyp_second_pass=0, hyp_none_applies=0,
             early_bind_programs_model_ne_spec=0)
    for k, ((top, macros, st), req, ans) in enumerate(zip(progs, reqs, answers)):
        if not ans.startswith("ok "):
            proof_problems.append("driver c11lab: %s on program %d" % (ans[:60], k))
            continue
        kv = dict(x.split("=", 1) for x in ans.split()[1:])
        # the hypotheses of C11_labels_refines / C11_labels_refines_extra_pass evaluated on this program: what the theorems say must be what
        # the compiled model and the compiled SPEC give - a contradiction is a broken proof chain (or a driver that is not the proved model)
        ndd, neb = kv.get("ndd"), kv.get("neb")
        d["hyp_nodoubledef"] += ndd == "1"
        d["hyp_noearlybind"] += neb == "1"
        d["hyp_both"] += ndd == "1" and neb == "1"
        if ndd not in ("0", "1") or neb not in ("0", "1"):
            proof_problems.append("driver c11lab: hypotheses of C11_labels_refines not evaluated on program %d" % k)
        if ndd == "1" and neb == "1" and kv["model"] != kv["spec"]:
            proof_problems.append("c11lab: NoDoubleDef and NoEarlyBind hold for program %d, C11_labels_refines says model = spec, evaluation gives "
                                  "model=%s spec=%s (request %s)" % (k, kv["model"], kv["spec"], req[:200]))
        d["hyp_second_pass"] += kv.get("p2") == "1"
        d["hyp_none_applies"] += not (ndd == "1" and (neb == "1" or kv.get("p2") == "1"))
        if ndd == "1" and kv.get("p2") == "1" and kv["model"] != kv["spec"]:
            proof_problems.append("c11lab: NoDoubleDef holds for program %d and pass 1 leaves a reference undefined, C11_labels_refines_second_pass "
                                  "says model = spec, evaluation gives model=%s spec=%s (request %s)" % (k, kv["model"], kv["spec"], req[:200]))
        if ndd == "1" and neb == "0" and kv.get("p2") == "0" and kv["model"] == kv["spec"]:
            proof_problems.append("c11lab: NoDoubleDef holds for program %d, a reference is bound early and pass 1 asks for no second pass: "
                                  "C11_labels_refines_iff says model /= spec, evaluation gives model=spec=%s (request %s)" % (k, kv["spec"], req[:200]))
        if ndd == "1" and kv["model2"] != kv["spec"]:
            proof_problems.append("c11lab: NoDoubleDef holds for program %d, C11_labels_refines_extra_pass says model2 = spec, evaluation gives "
                                  "model2=%s spec=%s (request %s)" % (k, kv["model2"], kv["spec"], req[:200]))
        src = source(top, macros)
        hand = hand_source(kv["hand"])
        real, rc, msg = real_bytes(asl, canon_p, bdir, wd, "lc%d" % k, src)
        evaluations += 1
        distinct.add(req)
        d["early_bind_programs_model_ne_spec"] += neb == "0" and kv["model"] != kv["spec"]
        d["programs"] += 1
        d["statements"] += 0 if kv["hand"] == "-" else kv["hand"].count(",") + 1
        d["by_maxdepth"][str(st["maxdepth"])] = d["by_maxdepth"].get(str(st["maxdepth"]), 0) + 1
        for a, b in (("own", "ref_own"), ("out1", "ref_out1"), ("out2", "ref_out2"), ("out3", "ref_out3"), ("out4plus", "ref_out4plus"),
                     ("glob", "ref_global"), ("global_namesake_of_enclosing", "ref_global_namesake_of_enclosing"), ("shadowed", "ref_shadowed"),
                     ("forward", "ref_forward")):
            d["refs"][a] += st[b]
        d["labels"] += st["labels"]
        d["globalsymbols"] += st["glob"]
        d["macro_called_twice"] += st["macro_twice"]
        for kk, v in st["kinds"].items():
            d["kinds"][KIND_NAME[kk]] = d["kinds"].get(KIND_NAME[kk], 0) + v
        info = dict(tag="labels %d" % k, source=src, hand_expansion=hand, asflags="", mode="c11lab", request=req,
                    real=("rc=%s %s" % (rc, msg[-300:])) if real is None else real, spec=kv["spec"], model=kv["model"])
        undef_real = real is None and "ymbol undefined" in msg
        if kv["spec"] == "UNDEF":
            d["undefined_expected"] += 1
            if real is not None or not undef_real:
                info["why"] = ("the hand expansion refers to a name that is defined nowhere (the assembler must report 'symbol undefined'), "
                               "the construct program gives: %s" % info["real"])
                spec_fail.append(info)
                continue
        else:
            # the hand expansion as source text, assembled by the same binary: must be what the SPEC computed by hand
            hreal, hrc, hmsg = real_bytes(asl, canon_p, bdir, wd, "lh%d" % k, hand)
            d["hand_assembled"] += 1
            if hreal != kv["spec"]:
                proof_problems.append("c11lab: the hand expansion of program %d assembles to %s, Spec/MacroLabels.image says %s" % (
                    k, hreal if hreal is not None else "rc=%s %s" % (hrc, hmsg[-200:]), kv["spec"]))
                continue
            if real != kv["spec"]:
                info["why"] = ("a label of a macro / loop body is the label every reference inside that expansion means, however deep the reference is "
                               "nested (code of the construct program = code of its hand expansion, Spec/MacroLabels.lean); construct program: %s" % (
                                   "rejected, " + info["real"] if real is None else "code differs"))
                if real is not None and real == kv["model"] and kv["model2"] == kv["spec"]:
                    # class of the known finding: a reference in front of the body's own label of that name found a label of an enclosing
                    # body / a global symbol in pass 1 and nothing asked for a second pass - with one more pass the code is the hand expansion's
                    x, _, _ = real_bytes(lambda b, w, n, s_: asl_extra_pass(b, w, n, s_), canon_p, bdir, wd, "lx%d" % k, src)
                    if x == kv["spec"] and neb == "0":
                        # (neb = 1 here would contradict the theorem; that case is reported above as a proof problem)
                        info["sig"] = SIG_FWD
                        info["with_one_more_pass"] = x
                        d["finding_forward_ref_programs"] = d.get("finding_forward_ref_programs", 0) + 1
                spec_fail.append(info)
                continue
        d["spec_eq_real"] += 1
        m_ok = (kv["model"] == "UNDEF" and undef_real) or (kv["model"] != "UNDEF" and kv["model"] == real)
        if not m_ok or kv["mom"] != "-1" or kv["left"] != "0":
            info["why"] = "Model/MacroLabels.lean (handle stack, FindLocNode) and the real asl differ (mom=%s left=%s)" % (kv["mom"], kv["left"])
            corr_fail.append(info)
            continue
        d["model_eq_real"] += 1
        if len([s for s in samples if s.get("kind") == "labels"]) < 1 and st["ref_out2"] + st["ref_out3"] > 1 and len(src) < 900:
            samples.append(dict(kind="labels", source=src, code=real))
    dist["labels"] = d
    return evaluations, distinct
