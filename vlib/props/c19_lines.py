"""C19, source positions of the debug outputs (driver mode c19l).

Generator: programs made of a main file and include files in several directories (equal base names in different
directories, files included more than once, nested includes, includes reached relative to the including file, relative to
the working directory, through `-i`), code statements at file level, inside REPT / IRP / IRPN / IRPC / WHILE bodies (also
nested and with REPT 0 / WHILE 0), inside macro bodies, INCLUDE statements inside all of these, code after the blocks,
continuation lines (everywhere; every other block body has them at a high rate, so that body lines behind a continued body
line are frequent - as.c AddBodyLine stores the source line of every body line), blank and comment lines.  Every code statement is a `db`/`byt` line storing marker bytes that identify
the statement (`LineInfo.stmtBytes id`); the program is a nesting tree (the tokens of vlib/props/c20.py), the files are
its rendering.

(C) `-g MAP` (every program), `-g NOICE` (every second program) and the listing's line column are read by the Lean readers
    and joined with the code file and with the structurally computed positions `LineInfo.spec` (file being read, own
    physical lines, lines of the enclosing statements of that file): `LineInfo.judge`.
(B) the order and values of the MAP / NoICE records = `LineInfo.run` (CurrLine / CurrFileName / MomLineCounter machine)
    + `addFile` + `addLineInfo`.
"""
import os
import re

from .. import common
from . import c19

TARGETS = [("z80", "db"), ("6502", "byt"), ("8051", "db"), ("8086", "db")]
DIRS = ["", "", "inc", "inc", "lib", "inc/sub", "lib/x"]
BASES = ["t.inc", "t.inc", "tab.inc", "defs.inc", "m.asm"]
ARG_POOL = ["5", "6", "7", "12", "AB", "cd", "Q9", "0", "Z"]
IRPC_POOL = "abcxyzQR0189"


def irpc_string(r, n):
    """the string of an IRPC statement.  Inside the body of an enclosing IRP the parameter of that IRP (`x<number>`) is replaced
    also inside string literals: `irp x1,AB,Z` / `irpc c,"x1"` iterates over "AB" and "Z".  The generator counts iterations from
    the text it writes, so a string that spells such a parameter name is drawn again."""
    while True:
        s = "".join(r.choice(IRPC_POOL) for _ in range(n))
        if not re.search(r"[xX][0-9]", s):
            return s


def stmt_bytes(i):
    return [i // 256 % 256, i % 256] + [(i * 7 + 1) % 256] * (i % 3)


def hx(s):
    return s.encode().hex()


class Gen:
    """items: ('plain', pieces) ('code', id, pieces) ('call', name) ('rept', n, body) ('irp', k, params, args, body)
    ('irpc', param, s, body) ('while', n, var, body) ('incl', path, ref) ('mdef', name, body)"""

    def __init__(self, rng, idx):
        self.rng = rng
        self.cpu, self.db = TARGETS[idx % len(TARGETS)]
        self.nid = rng.randrange(1, 40000)
        self.nvar = 0
        self.files = {}       # relative path -> body
        self.macros = []      # (name, body)
        self.incdirs = []
        self.budget = 0
        self.stats = dict(code_lines=0, cont_lines=0, cont_in_block=0, code_behind_cont_in_block=0, incl_in_block=0, incl_in_macro=0, incl_nested=0, incl_again=0,
                          same_base=0, if_blocks=0, code_after_block=0, block_in_block=0, block_in_macro=0, incl_via_path=0, incl_via_parent=0)
        self.maindir = rng.choice(["", "", "src"])
        self.mainname = os.path.join(self.maindir, rng.choice(["main.asm", "m.asm", "t.asm"]))

    # ---- text
    def cont(self, text, rate):
        """split a logical line over 1..3 physical lines (`rate`: how often)"""
        r = self.rng
        if r.random() >= rate or len(text) < 4:
            return [text]
        k = r.choice([2, 2, 3])
        cuts = sorted(set(r.randrange(2, len(text) - 1) for _ in range(k - 1)))
        pieces, prev = [], 0
        for c in cuts:
            pieces.append(text[prev:c] + "\\")
            prev = c
        pieces.append(text[prev:])
        self.stats["cont_lines"] += 1
        return pieces

    def num(self, v):
        k = self.rng.randrange(3)
        if self.cpu == "6502":
            return "$%x" % v if k == 0 else str(v)
        return ("0%xh" % v) if k == 0 else (("%xh" % v) if (k == 1 and ("%x" % v)[0].isdigit()) else str(v))

    def code(self, rate=0.15):
        self.nid += self.rng.choice([1, 1, 2, 5, 250])
        i = self.nid % 65536
        t = "\t%s\t%s" % (self.db, ",".join(self.num(b) for b in stmt_bytes(i)))
        if self.rng.random() < 0.15:
            t += " ; c%d" % i
        self.stats["code_lines"] += 1
        return ("code", i, self.cont(t, rate))

    def plain(self, rate=0.15):
        r = self.rng
        self.nvar += 1
        t = r.choice(["", "; remark", "\t; indented remark", "v%d\tset\t%d" % (self.nvar, self.nvar), "v%d\tset\t2*%d" % (self.nvar, self.nvar)])
        return ("plain", self.cont(t, rate if len(t) > 6 else 0))

    # ---- structure
    def body(self, depth, mult, ctx, cur, minlen=1):
        """ctx: '' file level, 'b' inside a block body, 'm' inside a macro body (innermost construct)"""
        r = self.rng
        n = r.choice([1, 2, 2, 3, 4]) if depth > 0 else r.randrange(4, 10)
        n = max(n, minlen)
        out = []
        # continuation lines anywhere, also inside block bodies (AddBodyLine stores the source line of every body line); every
        # other block body gets them at a higher rate, so that body lines *behind* a continued line are frequent
        allow_cont = 0.45 if (ctx == "b" and r.random() < 0.5) else 0.15
        seen_cont = False
        for _ in range(n):
            x = r.random()
            if self.budget <= 0 or x < 0.45 or depth >= 4:
                it = self.code(allow_cont)
                if ctx == "b":
                    if len(it[2]) > 1:
                        self.stats["cont_in_block"] += 1
                    if seen_cont:
                        self.stats["code_behind_cont_in_block"] += 1
                seen_cont = seen_cont or len(it[2]) > 1
                out.append(it)
                self.budget -= mult
            elif x < 0.60:
                it = self.plain(allow_cont)
                seen_cont = seen_cont or len(it[1]) > 1
                out.append(it)
            elif x < 0.66 and depth < 4:
                # conditional assembly: the lines of a skipped branch count as lines, its statements are not executed
                self.stats["if_blocks"] += 1
                taken = r.random() < 0.5
                out.append(("plain", ["\tif\t%d" % (1 if taken else 0)]))
                if taken:
                    out += self.body(depth + 1, mult, ctx, cur)
                else:
                    for _ in range(r.randrange(1, 4)):
                        dead = self.code(allow_cont)
                        self.stats["code_lines"] -= 1
                        out.append(("plain", dead[2]))
                    out.append(("plain", ["\telse"]))
                    out += self.body(depth + 1, mult, ctx, cur)
                out.append(("plain", ["\tendif"]))
            else:
                c = self.construct(depth, mult, ctx, cur)
                if c[0] == "while":
                    t = "%s\tset\t0" % c[2]
                    out.append(("plain", [t]))
                out.append(c)
                if c[0] != "call" and c[0] != "incl":
                    # code after the block, in the same file
                    out.append(self.code(allow_cont))
                    self.stats["code_after_block"] += 1
                    self.budget -= mult
        return out

    def fresh(self):
        self.nvar += 1
        return self.nvar

    def construct(self, depth, mult, ctx, cur):
        r = self.rng
        c = r.choice(["rept", "irp", "irpn", "irpc", "while", "call", "call", "incl", "incl", "incl", "dead"])
        if c in ("rept", "irp", "irpn", "irpc", "while", "dead"):
            if ctx == "b":
                self.stats["block_in_block"] += 1
            elif ctx == "m":
                self.stats["block_in_macro"] += 1
        if c == "rept":
            n = r.choice([1, 2, 3])
            return ("rept", n, self.body(depth + 1, mult * n, "b", cur))
        if c == "dead":
            if r.random() < 0.5:
                return ("rept", 0, self.body(depth + 1, 0, "b", cur))
            return ("while", 0, "cnt%d" % self.fresh(), self.body(depth + 1, 0, "b", cur))
        if c == "irp":
            n = r.choice([1, 2, 3])
            return ("irp", 0, ["x%d" % self.fresh()], [r.choice(ARG_POOL) for _ in range(n)], self.body(depth + 1, mult * n, "b", cur))
        if c == "irpn":
            k = r.choice([1, 2, 2, 3])
            groups = r.choice([1, 2])
            nargs = max(k, k * groups - r.choice([0, 0, 1]))
            return ("irp", k, ["p%d" % self.fresh() for _ in range(k)], [r.choice(ARG_POOL) for _ in range(nargs)],
                    self.body(depth + 1, mult * groups, "b", cur))
        if c == "irpc":
            n = r.choice([1, 2, 3])
            return ("irpc", "ch%d" % self.fresh(), irpc_string(r, n), self.body(depth + 1, mult * n, "b", cur))
        if c == "while":
            n = r.choice([1, 2])
            return ("while", n, "cnt%d" % self.fresh(), self.body(depth + 1, mult * n, "b", cur))
        if c == "call":
            if self.macros and r.random() < 0.4:
                return ("call", r.choice(self.macros)[0])
            name = "mac%d" % self.fresh()
            # a macro body is expanded in whatever file calls the macro (cur = None): an INCLUDE inside it is searched relative
            # to the caller's directory first, so its argument is chosen to resolve the same way from every directory (ref_for)
            b = self.body(depth + 1, mult, "m", None)
            self.macros.append((name, b))
            return ("call", name)
        return self.include(depth, mult, ctx, cur)

    def include(self, depth, mult, ctx, cur):
        r = self.rng
        if ctx == "b":
            self.stats["incl_in_block"] += 1
        elif ctx == "m":
            self.stats["incl_in_macro"] += 1
        if cur is not None and cur != self.mainname:
            self.stats["incl_nested"] += 1
        done = [p for p in self.files if self.files[p] is not None]
        if done and r.random() < 0.25:
            path = r.choice(sorted(done))
            self.stats["incl_again"] += 1
        else:
            for _ in range(40):
                path = os.path.join(r.choice(DIRS), r.choice(BASES))
                if path not in self.files and path != self.mainname:
                    break
            else:
                path = "gen%d.inc" % self.fresh()
            if any(os.path.basename(p) == os.path.basename(path) for p in list(self.files) + [self.mainname]):
                self.stats["same_base"] += 1
            self.files[path] = None      # under construction (not available for re-inclusion)
            self.files[path] = self.body(depth + 1, mult, "", path)
        return ("incl", path, cur)

    # ---- INCLUDE arguments
    def resolve(self, ref, curdir):
        """FSearch: the directory of the including file first, then the -i directories (None unless unambiguous)"""
        paths = set(self.files) | {self.mainname}
        cand = os.path.normpath(os.path.join(curdir, ref))
        if cand in paths:
            return cand
        hits = {os.path.normpath(os.path.join(d, ref)) for d in self.incdirs}
        hits = {h for h in hits if h in paths}
        return hits.pop() if len(hits) == 1 else None

    def ref_for(self, path, cur):
        """the text of the INCLUDE argument (cur = file whose text holds the statement, None = a macro body, which is
        expanded in whatever file calls the macro)"""
        r = self.rng
        curdirs = [os.path.dirname(cur)] if cur is not None else sorted({os.path.dirname(p) for p in list(self.files) + [self.mainname]})
        cands = []
        if cur is not None:
            cands.append(("rel", os.path.relpath(path, curdirs[0] or ".")))
        for d in self.incdirs:
            rel = os.path.relpath(path, d or ".")
            if not rel.startswith(".."):
                cands.append(("path", rel))
        r.shuffle(cands)
        for kind, ref in cands:
            if all(self.resolve(ref, cd) == path for cd in curdirs):
                if kind == "path" and (cur is None or os.path.normpath(os.path.join(curdirs[0], ref)) != path):
                    self.stats["incl_via_path"] += 1
                elif ref.startswith(".."):
                    self.stats["incl_via_parent"] += 1
                return ref
        return None


def while_body(node):
    _, n, var, b = node
    return [("plain", ["%s\tset\t%s+1" % (var, var)])] + b


def render_body(g, body, out, refs):
    for it in body:
        k = it[0]
        if k == "plain":
            out.append(it[1])
        elif k == "code":
            out.append(it[2])
        elif k == "call":
            out.append(["\t" + it[1]])
        elif k == "rept":
            out.append(["\trept\t%d" % it[1]])
            render_body(g, it[2], out, refs)
            out.append(["\tendm"])
        elif k == "irp":
            _, kk, params, args, b = it
            if kk == 0:
                out.append(["\tirp\t%s,%s" % (params[0], ",".join(args))])
            else:
                out.append(["\tirpn\t%d,%s,%s" % (kk, ",".join(params), ",".join(args))])
            render_body(g, b, out, refs)
            out.append(["\tendm"])
        elif k == "irpc":
            out.append(['\tirpc\t%s,"%s"' % (it[1], it[2])])
            render_body(g, it[3], out, refs)
            out.append(["\tendm"])
        elif k == "while":
            out.append(["\twhile\t%s<%d" % (it[2], it[1])])
            render_body(g, while_body(it), out, refs)
            out.append(["\tendm"])
        elif k == "incl":
            out.append(['\tinclude\t"%s"' % refs[id(it)]])
        elif k == "mdef":
            out.append(["%s\tmacro" % it[1]])
            render_body(g, it[2], out, refs)
            out.append(["\tendm"])
        else:
            raise AssertionError(k)


def flat_lines(g, body, refs):
    ls = []
    render_body(g, body, ls, refs)
    return [len(p) for p in ls]


def toks(g, body, macros, refs, mapname):
    out = []
    for it in body:
        k = it[0]
        if k == "plain":
            out.append("P%d" % len(it[1]))
        elif k == "code":
            out.append("F%d:%d" % (len(it[2]), it[1]))
        elif k == "call":
            out.append("C:%s" % it[1].upper())
            out += toks(g, macros[it[1]], macros, refs, mapname) + ["]"]
        elif k == "rept":
            out.append("R:%d" % it[1])
            out += toks(g, it[2], macros, refs, mapname) + ["]"]
        elif k == "irp":
            out.append("I:%d:%s" % (it[1], ";".join(a.upper() for a in it[3])))
            out += toks(g, it[4], macros, refs, mapname) + ["]"]
        elif k == "irpc":
            out.append("S:%s" % it[2].encode().hex())
            out += toks(g, it[3], macros, refs, mapname) + ["]"]
        elif k == "while":
            out.append("W:%d" % it[1])
            out += toks(g, while_body(it), macros, refs, mapname) + ["]"]
        elif k == "incl":
            out.append("U:%s" % hx(mapname(it[1])))
            out += toks(g, g.files[it[1]], macros, refs, mapname) + ["]"]
        elif k == "mdef":
            out += ["P%d" % n for n in flat_lines(g, [it], refs)]
        else:
            raise AssertionError(k)
    return out


def count_exec(body, macros, files):
    n = 0
    for it in body:
        k = it[0]
        if k == "code":
            n += 1
        elif k == "call":
            n += count_exec(macros[it[1]], macros, files)
        elif k == "rept":
            n += it[1] * count_exec(it[2], macros, files)
        elif k == "irp":
            n += -(-len(it[3]) // (it[1] or 1)) * count_exec(it[4], macros, files)
        elif k == "irpc":
            n += len(it[2]) * count_exec(it[3], macros, files)
        elif k == "while":
            n += it[1] * count_exec(it[3], macros, files)
        elif k == "incl":
            n += count_exec(files[it[1]], macros, files)
    return n


def all_includes(g, top):
    """every ('incl', …) item with the file whose text contains it (None: a macro body)"""
    out = []

    def walk(body, cur):
        for it in body:
            k = it[0]
            if k == "incl":
                out.append((it, cur))
            elif k in ("rept",):
                walk(it[2], cur)
            elif k == "irp":
                walk(it[4], cur)
            elif k in ("irpc", "while"):
                walk(it[3], cur)
            elif k == "mdef":
                walk(it[2], None)
    walk(top, g.mainname)
    for p, b in g.files.items():
        walk(b, p)
    return out


def gen_program(rng, idx):
    for _ in range(60):
        g = Gen(rng, idx)
        g.budget = rng.choice([12, 25, 40])
        main = g.body(0, 1, "", g.mainname)
        macros = dict(g.macros)
        org = rng.choice([0, 0x100, 0x1000, 0x8000])
        head = [("plain", ["\tcpu\t%s" % g.cpu]), ("plain", ["\torg\t%d" % org])]
        top = head + [("mdef", n, macros[n]) for n, _ in g.macros] + main + [g.code()]
        n = count_exec(top, macros, g.files)
        if not (3 <= n <= 160):
            continue
        # -i directories, INCLUDE arguments
        used = sorted({os.path.dirname(p) for p in g.files if os.path.dirname(p)})
        g.incdirs = rng.sample(used, min(len(used), rng.choice([0, 1, 2])))
        if rng.random() < 0.5 or any(cur is None for _, cur in all_includes(g, top)):
            g.incdirs.insert(rng.randrange(len(g.incdirs) + 1), ".")
        refs = {}
        ok = True
        for it, cur in all_includes(g, top):
            ref = g.ref_for(it[1], cur)
            if ref is None:
                ok = False
                break
            refs[id(it)] = ref
        if not ok:
            continue
        return g, top, macros, refs, org, n
    raise RuntimeError("c19_lines: generator could not produce a program in budget")


def file_texts(g, top, refs):
    files = {}
    for name, body in [(g.mainname, top)] + sorted(g.files.items()):
        ls = []
        render_body(g, body, ls, refs)
        # line ends: LF or CR-LF per file; the last line of a file may come without a line end - line numbers depend on neither
        eol = "\r\n" if g.rng.random() < 0.15 else "\n"
        txt = "".join(p + eol for pieces in ls for p in pieces)
        if txt and g.rng.random() < 0.25:
            txt = txt[:-len(eol)]
        files[name] = txt
    return files


def write_files(d, files):
    for n, t in files.items():
        p = os.path.join(d, n)
        os.makedirs(os.path.dirname(p), exist_ok=True)
        open(p, "w", newline="").write(t)


def asl_args(g, fmt, with_listing):
    args = ["-q"]
    if g.incdirs:
        args += ["-i", ":".join(g.incdirs)]
    if with_listing:
        args += ["-L", "-olist", "out.lst"]
    args += ["-g", fmt, g.mainname, "-o", "out.p"]
    return args


def show_rec(v):
    """`<file hex>:<line or ranges>:<address>[:id]` of the driver, file name decoded"""
    if not v or v == "-":
        return str(v)
    parts = v.split(":")
    try:
        parts[0] = bytes.fromhex(parts[0]).decode(errors="replace")
    except ValueError:
        pass
    return "%s line %s address %s%s" % (parts[0], parts[1] if len(parts) > 1 else "?", parts[2] if len(parts) > 2 else "?",
                                       (" (statement %s)" % parts[3]) if len(parts) > 3 else "")


def run_lines(bdir, wd, rng, nprog, driver_ok):
    """returns dict(spec_fail, corr_fail, agg, dist, samples, distinct)"""
    reqs, metas = [], []
    dist = {}
    for idx in range(nprog):
        g, top, macros, refs, org, nexec = gen_program(rng, idx)
        d = os.path.join(wd, "q%d" % idx)
        os.makedirs(d)
        files = file_texts(g, top, refs)
        write_files(d, files)
        real_d = os.path.realpath(d)

        def mapname(p, real_d=real_d):
            return os.path.normpath(os.path.join(real_d, p))
        args = asl_args(g, "MAP", True)
        rc, so, se = common.run_tool(bdir, "asl", args, d, timeout=60)
        meta = dict(tag="lines:%d" % idx, cpu=g.cpu, files=files, args=args, stats=g.stats, executed=nexec)
        stem = os.path.splitext(g.mainname)[0]
        try:
            pf = open(os.path.join(d, "out.p"), "rb").read()
            mp = open(os.path.join(d, stem + ".map"), encoding="latin-1").read()
            lst = open(os.path.join(d, "out.lst"), encoding="latin-1").read()
        except OSError as ex:
            meta["error"] = "asl rc=%s %s %s" % (rc, ex, (so + se).decode(errors="replace")[-300:])
            metas.append((meta, None))
            continue
        if rc != 0:
            meta["error"] = "asl rc=%s %s" % (rc, (so + se).decode(errors="replace")[-300:])
            metas.append((meta, None))
            continue
        noi = None
        if idx % 2 == 0:
            args2 = asl_args(g, "NOICE", False)
            rc2, so2, se2 = common.run_tool(bdir, "asl", args2, d, timeout=60)
            try:
                noi = open(os.path.join(d, stem + ".noi"), encoding="latin-1").read()
            except OSError:
                noi = ""
            meta["args_noice"] = args2
        atm = None
        if idx % 3 == 1:
            args3 = asl_args(g, "ATMEL", False)
            common.run_tool(bdir, "asl", args3, d, timeout=60)
            try:
                atm = open(os.path.join(d, stem + ".obj"), "rb").read()
            except OSError:
                atm = b""
            meta["args_atmel"] = args3
        src, _sym = c19.strip_listing(lst)
        t = ["main:" + hx(g.mainname), "org:%d" % org, "p:" + pf.hex()]
        if atm is not None:
            t.append("a:" + (atm.hex() or "-"))
        t += ["m:" + c19.hx(l) for l in mp.split("\n") if l.strip()]
        if noi is not None:
            t += ["n:" + c19.hx(l) for l in noi.split("\n") if l.startswith(("FILE ", "LINE ", "ENDFILE"))] or ["n:" + c19.hx("ENDFILE 0x0")]
        t += ["l:" + c19.hx(l) for l in src]
        t += ["T"] + toks(g, top, macros, refs, mapname)
        reqs.append(" ".join(t))
        meta["map_head"] = mp.split("\n")[:10]
        metas.append((meta, len(reqs) - 1))
        for k, v in g.stats.items():
            dist[k] = dist.get(k, 0) + v
        dist["cpu_" + g.cpu] = dist.get("cpu_" + g.cpu, 0) + 1
        dist["files_per_program_max"] = max(dist.get("files_per_program_max", 0), len(files))
    answers = common.driver("c19l", reqs, timeout=3600) if driver_ok and reqs else []
    spec_fail, corr_fail, samples = [], [], []
    agg = dict(programs=0, asl_rejected=0, executed_statements=0, map_entries=0, noice_programs=0, noice_entries=0, atmel_programs=0, atmel_records=0, listing_groups=0,
               programs_with_continuation_in_block=0, programs_with_code_behind_continuation_in_block=0)
    distinct = set()
    for meta, ri in metas:
        agg["programs"] += 1
        if ri is None:
            agg["asl_rejected"] += 1
            spec_fail.append(dict(tag=meta["tag"], why="asl rejected a valid generated program: " + meta.get("error", ""), files=meta["files"], args=meta["args"]))
            continue
        if ri >= len(answers):
            continue
        ans = answers[ri]
        kv = c19.kv_of(ans)
        cf = dict(tag=meta["tag"], cpu=meta["cpu"], files=meta["files"], args=meta["args"], verdict=kv)
        for k_ in ("args_noice", "args_atmel"):
            if k_ in meta:
                cf[k_] = meta[k_]
        if kv.get("pfile") != "ok":
            spec_fail.append(dict(why="driver: " + ans[:200], **cf))
            continue
        agg["executed_statements"] += int(kv["execs"])
        agg["map_entries"] += int(kv["n_map"])
        agg["noice_entries"] += int(kv["n_noi"])
        agg["noice_programs"] += 1 if kv["spec_noi"] != "-" else 0
        agg["atmel_records"] += int(kv["n_atm"])
        agg["atmel_programs"] += 1 if kv["spec_atm"] != "-" else 0
        agg["listing_groups"] += int(kv["n_lst"])
        agg["programs_with_continuation_in_block"] += 1 if meta["stats"]["cont_in_block"] else 0
        agg["programs_with_code_behind_continuation_in_block"] += 1 if meta["stats"]["code_behind_cont_in_block"] else 0
        distinct.add((meta["cpu"], kv["execs"], kv["files"], kv["n_map"], kv["bytes"]))
        if len(samples) < 2 and int(kv["files"]) > 2 and int(kv["execs"]) > 10:
            samples.append(dict(tag=meta["tag"], cpu=meta["cpu"], args=meta["args"], map=meta["map_head"], files=sorted(meta["files"]), verdict=kv))
        if int(kv["execs"]) != meta["executed"]:
            corr_fail.append(dict(why="harness: the generator counts %d executed statements, the Lean spec %s" % (meta["executed"], kv["execs"]), **cf))
        if kv["code"] != "ok":
            spec_fail.append(dict(why="the code file does not hold the statements' marker bytes at consecutive addresses from ORG on", **cf))
            continue
        bad = False
        for key, what in (("map", "MAP line:address entry"), ("noi", "NoICE LINE record"), ("atm", "Atmel object record"), ("lst", "listing line column")):
            v = kv.get("spec_" + key, "-")
            if v not in ("ok", "-"):
                bad = True
                spec_fail.append(dict(why="%s names a file/line that is neither the statement stored at that address nor a statement enclosing it "
                                          "(spec_%s=%s; the file says: %s; admissible: %s)" % (what, key, v, show_rec(kv.get(key + "_real")), show_rec(kv.get(key + "_want"))), **cf))
        if kv["map_bad_lines"] != "0" or kv["map_other_seg"] != "0":
            bad = True
            spec_fail.append(dict(why="MAP line info unreadable or in a segment the program never uses: bad_lines=%s other_seg=%s" % (kv["map_bad_lines"], kv["map_other_seg"]), **cf))
        if kv.get("atm_files", "ok") != "ok":
            bad = True
            spec_fail.append(dict(why="Atmel object file: a file index stands for two different source files, or its name is not the file's base name", **cf))
        if not bad:
            if kv["corr_map"] != "ok":
                corr_fail.append(dict(why="order/values of the MAP line records differ from the model (CurrLine/CurrFileName machine + AddFile + AddLineInfo)", **cf))
            if kv["corr_noi"] not in ("ok", "-"):
                corr_fail.append(dict(why="order/values of the NoICE LINE records differ from the model", **cf))
    return dict(spec_fail=spec_fail, corr_fail=corr_fail, agg=agg, dist=dist, samples=samples, distinct=distinct)
