"""C14 target plug-in: Microchip PIC16C8x (code16c8x.c; CPUs 16C64, 16C84, 16C873, 16C874, 16C876, 16C877).

Word-addressed target: `org`/record addresses are in 14-bit words, a record carries two bytes per word (low byte first);
c14.observe() compares record start addresses with the case's pc (both in words) and hands the record bytes through,
so nothing had to be adapted there.  The sentinel is a one-word `data` at 0x2007 (configuration word area, inside
ChkPC_16c8x's range for every CPU of the family).

Operand values are what the driver gets; their spelling is chosen here: numbers in Motorola syntax (`$hex`, `%bin`,
decimal), the destination operand 0/1 also as `W`/`F`, an omitted destination as the one-operand form.
"""
from .c14 import Case, limits, num_moto

GENERATED = ["Isa_Pic"]

SIG_TRIS = "pic16c8x-tris-portc-rejected"

# CPUVar order of code16c8x_init() = cpu index of the Lean SPEC/MODEL (Generated.IsaPic.cpuNames, checked by C14_pic_table)
ROM = {0: 0x800, 1: 0x400, 2: 0x1000, 3: 0x1000, 4: 0x2000, 5: 0x2000}
ADD_CODE_SPACE = 0x300


class T:
    name = "pic16c8x"
    cpus = [("16C64", 0), ("16C84", 1), ("16C873", 2), ("16C874", 3), ("16C876", 4), ("16C877", 5)]
    sentinel = 0x2007
    gran = 2
    sample_tags = ("goto-page", "fd", "banksel", "lit")

    @staticmethod
    def header(cpuname):
        return ["\tcpu %s" % cpuname]

    @staticmethod
    def org(a):
        return "\torg %d" % a

    @staticmethod
    def sent(k):
        return "\tdata %d" % (k % 100 + 1)   # never at a limit of the data range

    @staticmethod
    def sent_bytes(k):
        return bytes([k % 100 + 1, 0])

    @staticmethod
    def dest(rng, d):
        if d == 0 and rng.random() < 0.6:
            return rng.choice("Ww")
        if d == 1 and rng.random() < 0.6:
            return rng.choice("Ff")
        return num_moto(rng, d)

    @classmethod
    def cases(cls, rng, tier, forms):
        N = num_moto
        quick = tier == "quick"
        out = []

        def add(cpu, pc, mn, args, text, tag):
            out.append(Case(cls.name, cpu, pc, mn, args, "\t%s %s" % (mn.lower() if rng.random() < 0.5 else mn, text), tag))

        def plain_pc(cpu):
            return rng.choice([0, 1, 0x10, 0x3fc, ROM[cpu] - 1, ROM[cpu] + ADD_CODE_SPACE - 4, 0x2000, 0x2003])

        # file addresses: 0, bank limits, limits +-1/2, the limits of the address space, far outside
        def fvals(n):
            s = set(limits(0, 511, rng, n)) | {126, 127, 128, 129, 255, 256, 257, 383, 384, 385, 3, 10}
            return sorted(s)

        main_cpus = (1, 0, 4) if quick else (1, 0, 4, 2, 3, 5)
        fd_mns = [m for (m, f, _) in forms if f == "fd"]
        fb_mns = [m for (m, f, _) in forms if f == "fb"]
        lit_mns = [m for (m, f, _) in forms if f == "lit"]
        full_fd = set(rng.sample(fd_mns, 2)) if quick else set(fd_mns)
        full_fb = set(rng.sample(fb_mns, 1)) if quick else set(fb_mns)
        full_lit = set(rng.sample(lit_mns, 2)) if quick else set(lit_mns)

        for (mn, form, _mincpu) in forms:
            if form == "none":
                for cpu in main_cpus:
                    for _ in range(2):
                        add(cpu, plain_pc(cpu), mn, [], "", "fixed")
                add(1, 0x20, mn, [3], "3", "argcnt")
            elif form == "lit":
                for cpu in main_cpus:
                    vals = limits(-128, 255, rng, 8 if cpu == 1 else 2, wide=(cpu == 1)) + [127, 128, -127]
                    for v in vals:
                        add(cpu, plain_pc(cpu), mn, [v], N(rng, v), "lit")
                if mn in full_lit:
                    for v in range(-131, 259):
                        add(1, 0x40, mn, [v], N(rng, v), "lit-all-values")
                add(1, 0x20, mn, [], "", "argcnt")
                add(1, 0x20, mn, [1, 2], "1,2", "argcnt")
            elif form == "fd":
                for cpu in main_cpus:
                    for f in fvals(6 if cpu == 1 else 1):
                        for d in (None, 0, 1):
                            if cpu != 1 and rng.random() < 0.6:
                                continue
                            if d is None:
                                add(cpu, plain_pc(cpu), mn, [f], N(rng, f), "fd")
                            else:
                                add(cpu, plain_pc(cpu), mn, [f, d], "%s,%s" % (N(rng, f), cls.dest(rng, d)), "fd")
                for d in (-1, 2, 3, 128, 255, 256, -32768, 65536):
                    f = rng.choice([0, 5, 127, 300, 511])
                    add(1, 0x30, mn, [f, d], "%s,%s" % (N(rng, f), N(rng, d)), "fd-dest")
                add(1, 0x30, mn, [512, 2], "512,2", "fd-dest")
                if mn in full_fd:
                    for f in range(-2, 515):
                        add(1, 0x50, mn, [f], N(rng, f), "fd-all-values")
                        add(1, 0x50, mn, [f, 0], "%s,%s" % (N(rng, f), cls.dest(rng, 0)), "fd-all-values")
                        add(1, 0x50, mn, [f, 1], "%s,%s" % (N(rng, f), cls.dest(rng, 1)), "fd-all-values")
                add(1, 0x20, mn, [], "", "argcnt")
                add(1, 0x20, mn, [1, 1, 1], "1,1,1", "argcnt")
            elif form == "fb":
                for cpu in main_cpus:
                    for f in fvals(4 if cpu == 1 else 1):
                        for bit in ((-1, 0, 1, 6, 7, 8, rng.randrange(8)) if cpu == 1 else (rng.randrange(8),)):
                            add(cpu, plain_pc(cpu), mn, [f, bit], "%s,%s" % (N(rng, f), N(rng, bit)), "fb")
                for bit in (-2, 9, 15, 16, 255, 256, 65535, -32768):
                    f = rng.choice([0, 5, 127, 300, 511, 512])
                    add(1, 0x30, mn, [f, bit], "%s,%s" % (N(rng, f), N(rng, bit)), "fb-bit")
                if mn in full_fb:
                    for f in range(-1, 514):
                        for bit in range(8):
                            add(1, 0x60, mn, [f, bit], "%s,%s" % (N(rng, f), N(rng, bit)), "fb-all-values")
                add(1, 0x20, mn, [5], "5", "argcnt")
                add(1, 0x20, mn, [5, 1, 1], "5,1,1", "argcnt")
            elif form == "f":
                for cpu in main_cpus:
                    for f in (list(range(-2, 515)) + limits(0, 511, rng, 2)) if cpu == 1 else fvals(1):
                        add(cpu, plain_pc(cpu), mn, [f], N(rng, f), "f" if cpu != 1 else "f-all-values")
                add(1, 0x20, mn, [], "", "argcnt")
                add(1, 0x20, mn, [5, 1], "5,1", "argcnt")
            elif form == "tris":
                for cpu in (0, 1, 2, 3, 4, 5):
                    for p in sorted(set(list(range(-2, 11)) + limits(5, 7, rng, 0))):
                        add(cpu, plain_pc(cpu), mn, [p], N(rng, p), "tris")
                add(1, 0x20, mn, [], "", "argcnt")
                add(1, 0x20, mn, [5, 6], "5,6", "argcnt")
            elif form == "bank":
                for cpu in main_cpus:
                    for a in (list(range(-2, 515)) + limits(0, 511, rng, 2)) if cpu == 1 else fvals(2):
                        add(cpu, plain_pc(cpu), mn, [a], N(rng, a), "banksel")
                add(1, 0x20, mn, [], "", "argcnt")
                add(1, 0x20, mn, [5, 6], "5,6", "argcnt")
            elif form == "addr":
                for cpu in (0, 1, 2, 3, 4, 5) if not quick else main_cpus:
                    rom = ROM[cpu]
                    top = rom + ADD_CODE_SPACE - 1          # last address ChkPC accepts outside the configuration words
                    # statement addresses: both sides of every 2K page boundary, the ends of the program memory and of the
                    # extra code space, the configuration word area
                    pcs = {0, 1, 0x3ff, 0x400, rom - 2, rom - 1, rom, rom + 1, top - 3, 0x2000, 0x2003}
                    for p in range(0x800, top - 2, 0x800):
                        pcs |= {p - 3, p - 2, p - 1, p, p + 1}
                    pcs = sorted(p for p in pcs if 0 <= p <= top - 3 or 0x2000 <= p <= 0x2003)
                    tg = {0, 1, 2, 0x3fe, 0x3ff, 0x400, 0x401, rom - 2, rom - 1, rom, rom + 1, rom + ADD_CODE_SPACE - 1, rom + ADD_CODE_SPACE,
                          0x1fff, 0x2000, 0x2001, 0x2007, 0x3fff, 0x4000, 32767, 32768, 65535, 65536, -1, -2, -32768, -32769, 1 << 31, -(1 << 33)}
                    for p in range(0x800, 0x2001, 0x800):
                        tg |= {p - 2, p - 1, p, p + 1}
                    for pc in pcs:
                        ts = set(tg) | {pc, pc + 1, pc + 3} | {rng.randrange(0, rom) for _ in range(3 if quick else 12)}
                        if quick and cpu != 4:
                            ts = set(rng.sample(sorted(ts), 18)) | {rom - 1, rom}
                        for a in sorted(ts):
                            add(cpu, pc, mn, [a], N(rng, a), "goto-page")
                    # every target address of the device (and a margin) from a few statement addresses
                    if cpu in (4, 1) or not quick:
                        full_pcs = [rng.choice([0x7ff, 0x800, 0x17fe, 0x1000])] if quick else [0x7fe, 0x7ff, 0x800, 0x1000, 0x17ff, 0x1fff, 0x2000, rng.randrange(0, rom)]
                        full_pcs = [p for p in full_pcs if p <= top - 3 or 0x2000 <= p <= 0x2003] or [0]
                        for pc in full_pcs:
                            for a in range(-2, rom + 3):
                                add(cpu, pc, mn, [a], N(rng, a), "goto-all-targets")
                add(1, 0x20, mn, [], "", "argcnt")
                add(1, 0x20, mn, [5, 6], "5,6", "argcnt")
            else:
                raise AssertionError("pic16c8x: unknown operand form %s of the spec" % form)
        return out

    @staticmethod
    def sig(case, kv):
        # DecodeTRIS accepts 5..6 on every CPU of the family; the devices other than the 16C84 have a PORTC (TRIS 7)
        if case.mn == "TRIS" and list(case.args) == [7] and case.cpu != 1:
            return SIG_TRIS
        return None
