"""C12 - conditional assembly selects exactly the documented branch.

(B) real asl vs Model/Cond.lean (`run` + `endPass`), (C) Spec/Cond.lean (`selB`, `warnB`, `WellNested`, `definedBy`,
`usedBy`) on what the real asl did.  Well-formed skeletons are packed many per source file (each at its own ORG window,
leaves are `db <marker>`, markers read back from the .p through the Lean `pfile` reader, diagnostics from `-E` attributed
by line number).  Leaves may carry symbols (LEAF_KINDS: label in front of an instruction / a pseudo-op / a macro call
with and without INTLABEL / a structure instantiation, EQU/SET lines, references), the same label may stand in several
branches of one construct; after the construct every symbol is probed (IFDEF / IFNDEF / DEFINED() / SYMTYPE() / SWITCH
DEFINED() emitting the symbol's value or FFFF, IFUSED / IFNUSED) - only the symbols of selected leaves may exist; arbitrary (mostly ill-formed) statement streams run one per file because they leave constructs
open (leaves are `message "<marker>"` because asl deletes the code file when an error was reported).
Conditions whose truth comes from the environment or from the history of the pass (IFDEF/IFUSED/IFEXIST and counterparts over symbols that are
defined / referenced in front, behind, in skipped branches, never; one-pass and multi-pass programs; programs spread over INCLUDE files in other
directories, -i directories, working directory): c12_env.py, Spec/Model CondEnv.lean, Props/C12_Env.lean, driver mode `c12env`.
Ways a pass can end (`end_streams`): the text of a skeleton cut at any point (constructs left open at the end of the file), END
lines (plain, with entry point, issued by a macro / a nested macro / a REPT body, issued inside a conditional that the macro
itself opened) put at any point - in selected and in skipped branches, at any depth, followed by nothing, by the rest of the
skeleton or by arbitrary statements; the SPEC (`AssembledAt`, `OpenAtEnd`) says which END ends the pass and that whatever is open
there is an error; the MODEL is `runL`/`passL`.
Statements other than instructions that the conditional machinery must silence as well: leaves may be preprocessor lines (`#define` /
`#undef` with a replacement in force, LEAF_KINDS D / U, Lean leaf kinds ppDefine / ppUndef, `effectsOf (selB b)` vs the probes behind the
construct), the marker byte may come out of an INCLUDE file, and plain leaves standing in a block that is certainly not assembled are
spelled as statements with drastic effects (BOMBS: invalid / incomplete `#` lines, redefinitions of the header's symbols and replacements,
FATAL/ERROR/WARNING/MESSAGE, INCLUDE/BINCLUDE of missing files, END, CPU/ORG/PHASE/SEGMENT/RADIX/LISTING/SHARED/SECTION/SAVE/RESTORE,
macro / structure definitions, EXITM/SHIFT - the latter two are the finding SIG_EXITM and run alone).
Target history (class of C12-k): the keyword of the SWITCH construct is SELECT exactly while an OLMS-50 target is selected; packed cases
are preceded by visits to such targets or stand as a whole under one, `history_program` programs change the target between their
constructs, begin without a CPU statement, need two passes, end under an occupying target, and run several per asl invocation;
`Generated/Occupied.lean` + `C12_occupied_flags_reset` / `C12_switch_keyword_by_current_target` (Model/CondKw.lean) are the static side.
"""
import itertools
import json
import os
import re
from concurrent.futures import ThreadPoolExecutor

from .. import common
from ..common import log
from . import c12_env

SIG_IFB = "ifb-every-second-argument-skipped"
SIG_ARMLESS = "dead-armless-switch-warns"
SIG_SEGV = "lone-elsecase-segv"
SIG_EXITM = "skipped-exitm-outside-macro-reported"

HEADER = """\tcpu z80
T1\tequ 1
F0\tequ 0
DEFD\tequ 7
USEDS\tequ 3
UNUS\tequ 4
REFU\tequ USEDS+1
SEL3\tequ 3
""" + "".join(
    "%s%d\tmacro PM,%s\n\t%s %s\n\tdb PM\n\tendif\n\tendm\n" % (nm, n, ",".join("PQ%d" % i for i in range(n)), op, ",".join("PQ%d" % i for i in range(n)))
    for n in range(2, 6) for nm, op in (("tb", "ifb"), ("tn", "ifnb"))) + (
    # leaves written as macro calls whose body leaves through EXITM from inside its own conditionals (the manual: EXITM ends the
    # expansion and closes what the body opened - the caller's open constructs must be exactly as before the call), or that open
    # and close constructs of their own; 238 would be a statement behind the EXITM
    "lva\tmacro PM\n\tdb PM\n\tif T1\n\texitm\n\tendif\n\tdb 238\n\tendm\n"
    "lvb\tmacro PM\n\tswitch SEL3\n\tcase 1\n\tdb 238\n\tcase 3\n\tdb PM\n\texitm\n\tendcase\n\tdb 238\n\tendm\n"
    "lvc\tmacro PM\n\tif T1\n\tif F0\n\tdb 238\n\telse\n\tdb PM\n\texitm\n\tendif\n\tendif\n\tdb 238\n\tendm\n"
    "lvd\tmacro PM\n\trept 2\n\tif T1\n\tdb PM\n\texitm\n\tendif\n\tdb 238\n\tendm\n\tendm\n"
    "lve\tmacro PM\n\tif F0\n\tdb 238\n\telseif T1\n\tdb PM\n\tendif\n\tendm\n"
    # leaves with a label in front: plain macro (the label labels the line), INTLABEL macros (the label is only the body's
    # parameter __LABEL__: not used / placed as a global symbol / placed as a symbol local to the expansion), a structure
    "lvp\tmacro PM\n\tdb PM\n\tendm\n"
    "lvi\tmacro PM,{INTLABEL}\n\tdb PM\n\tendm\n"
    "lvj\tmacro PM,{INTLABEL},{GLOBALSYMBOLS}\n__LABEL__:\tdb PM\n\tendm\n"
    "lvk\tmacro PM,{INTLABEL}\n__LABEL__:\tdb PM\n\tendm\n"
    "srec\tstruct\nfa\tds 1\nsrec\tendstruct\n"
    # lines that issue END: from a macro body, from a macro called by a macro, inside a conditional the macro itself opens
    # (selected: the construct stays open; not selected: no END at all); 238 would be a statement behind the END
    "fin\tmacro\n\tend\n\tmessage \"238\"\n\tendm\n"
    "finw\tmacro\n\tfin\n\tmessage \"238\"\n\tendm\n"
    "finc\tmacro\n\tif T1\n\tend\n\tendif\n\tmessage \"238\"\n\tendm\n"
    "fins\tmacro\n\tswitch SEL3\n\tcase 3\n\tend\n\tendcase\n\tmessage \"238\"\n\tendm\n"
    "fine\tmacro\n\tif F0\n\tend\n\tendif\n\tendm\n")
HEADER_LINES = HEADER.count("\n")
LEAF_MACROS = ["lva", "lvb", "lvc", "lvd", "lve"]

TRUE_EXPR = ["1", "7", "T1", "2>1", "F0==0", "-1", "T1+T1", "DEFD", "256", "512", "65536", "T1<<8", "-256", "DEFD<<16"]
FALSE_EXPR = ["0", "F0", "1>2", "T1-1", "T1==F0", "F0*5"]

# selector values: (token, asm spellings)
VAL_POOL = [
    ("i0", ["0", "F0"]), ("i1", ["1", "T1"]), ("i2", ["2", "1+1"]), ("i3", ["3", "SEL3"]), ("i-1", ["-1"]),
    ("i255", ["255", "0ffh"]), ("i65536", ["65536"]), ("i4294967297", ["4294967297"]), ("i2147483648", ["2147483648"]),
    ("f4", ["1.0"]), ("f8", ["2.0"]), ("f6", ["1.5"]), ("f1", ["0.25"]), ("f12", ["3.0"]),
    ("s61", ['"a"']), ("s6162", ['"ab"']), ("s-", ['""']), ("s4142", ['"AB"']), ("s31", ['"1"']),
]
VAL_ASM = dict(VAL_POOL)


# ----------------------------------------------------------------------------------------------
# statements: (token for the Lean driver, asm text or None for a leaf)

def cond_stmt(rng, cond):
    k = cond[0]
    if k == "e":
        return "I1:e%d" % cond[1], "\tif %s" % rng.choice(TRUE_EXPR if cond[1] else FALSE_EXPR)
    if k in "dux":
        neg, raw = cond[1], cond[2]
        op = {"d": ("ifdef", "ifndef"), "u": ("ifused", "ifnused"), "x": ("ifexist", "ifnexist")}[k][neg]
        arg = {"d": ("NDEF", "DEFD"), "u": ("UNUS", "USEDS"), "x": ("nofile.inc", "exist.inc")}[k][raw]
        if k == "x" and rng.random() < 0.3:
            arg = '"%s"' % arg
        return "I1:%s%d%d" % (k, neg, raw), "\t%s %s" % (op, arg)
    neg, flags = cond[1], cond[2]
    return ("I%d:b%d%s" % (len(flags), neg, "".join("1" if f else "0" for f in flags)),
            "\t%s %s" % (("ifb", "ifnb")[neg], ",".join("x" if f else "" for f in flags)))


def val_asm(rng, tok):
    return rng.choice(VAL_ASM[tok])


# leaf kinds that involve a symbol: letter -> (weight, code bytes reserved)
LEAF_KINDS = {"i": (2, 2), "p": (2, 1), "m": (4, 1), "n": (1.5, 1), "g": (1, 1), "k": (1, 1), "s": (1.5, 1), "e": (1.5, 0), "t": (1, 0),
              "u": (1.5, 1), "D": (1.5, 0), "U": (1.5, 0)}
# D / U: preprocessor lines `#define w<sym> <marker>` / `#undef v<sym>` (v<sym> has a replacement in force in front of the construct);
# ordinary symbols of the same names (value FFFF) show through when the replacement is not there
# EXITM / SHIFT outside a macro body: the unchanged tree reports them also in a block that is not assembled (finding SIG_EXITM);
# cases holding one run alone (an error costs the whole pack its code file)
RARE_BOMBS = ["\texitm", "\tshift", "\tEXITM"]
OLMS_CPUS = ["msm5054", "msm5055", "msm5056", "msm6051", "msm6052"]      # targets where SWITCH is a machine instruction: the construct is SELECT

# statements with a drastic effect, spelled where a plain leaf stands in a block that is certainly not assembled (the first block of
# `IF <false>`, the ELSEIF / ELSE blocks behind `IF <true>`, at any depth below): "a line that is not assembled has no effect at all"
# for every kind of line - preprocessor lines (valid, invalid), messages, file inclusion, END, target / counter / listing / macro statements
BOMBS = ["#foo", "#", "#define", "#include <x.h>", "#undef", "#undef T1", "#define T1 0", "#define F0 1", "#define db dw", "#define endif",
         '\tfatal "x"', '\terror "x"', '\twarning "x"', '\tmessage "238"', "\tinclude nofile.inc", '\tinclude "lvinc.inc"', "\tbinclude nofile.bin",
         "\tnosuchop 1", "\tcpu nosuch", "\tcpu 8051", "\tcpu msm5054", "\torg 70000", "\torg $+3", "\tphase 5", "\tdephase", "\tdb 238,239", "\tds 3", "\talign 16",
         "\tlisting off", "\tshared T1", "\tsection xs", "\tendsection", "\tend", "\tradix 2", "\tsegment data", "T1\tequ 5", "F0\t:= 1", "SEL3\tequ 4",
         "lvp\tmacro\n\tendm", "\trept 2\n\tdb 238\n\tendm", "\tendm", "srec\tstruct\nfb\tds 2\nsrec\tendstruct", "\tcharset 'a','z',1",
         "\tsave", "\trestore", "\tpushv T1", "\tselect 1", "\tpagesize 5", "\tassume x:1", "DEFD:", "USEDS:\tdb 238", "\tdb UNUS", "\tdb NDEF"]
ELEM = 500          # Spec.elemSym


def sym_name(i):
    """symbol number -> name template ('@' = number of the case inside the source file)"""
    return "q@x%d" % i if i < ELEM else "q@x%d_fa" % (i - ELEM)


def labelled(rng, name, rest):
    """the three ways of writing a label"""
    r = rng.random()
    if r < 0.5:
        return "%s:\t%s" % (name, rest)
    if r < 0.8:
        return "%s\t%s" % (name, rest)
    return " %s: %s" % (name, rest)


def spell_leaf(rng, kind, sym):
    """asm text of a leaf about symbol `sym` (%d = its marker)"""
    n = sym_name(sym)
    if kind == "i":
        return labelled(rng, n, "cp %d")
    if kind == "p":
        return labelled(rng, n, "db %d")
    if kind == "m":
        return labelled(rng, n, "%s %%d" % (rng.choice(LEAF_MACROS) if rng.random() < 0.4 else "lvp"))
    if kind in "ngk":
        return labelled(rng, n, "%s %%d" % {"n": "lvi", "g": "lvj", "k": "lvk"}[kind])
    if kind == "s":
        return labelled(rng, n, "srec")
    if kind == "e":
        return rng.choice(["%s\tequ %%d", "%s\t= %%d", "%s:\tequ %%d"]) % n
    if kind == "t":
        return rng.choice(["%s\t:= %%d", "%s\teval %%d"]) % n
    if kind == "D":
        return rng.choice(["#define w@x%d %%d", "#DEFINE w@x%d %%d", " #define w@x%d %%d", "\t#define\tw@x%d\t%%d"]) % sym
    if kind == "U":
        return rng.choice(["#undef v@x%d", "#UNDEF v@x%d", " #undef v@x%d", "\t#undef\tv@x%d "]) % sym
    return "\tdb r@x%d" % sym


def decorate(rng, block, st, p):
    """copy of the skeleton in which leaves carry symbols: ["leaf", kind, sym] (mutable: share_labels renames)"""
    res = []
    for node in block:
        if node[0] == "leaf":
            if len(node) == 1 and st["n"] < st.get("cap", 8) and rng.random() < p:
                st["n"] += 1
                res.append(["leaf", rng.choices(st["kinds"], st["weights"])[0], st["n"]])
            else:
                res.append(node)
        elif node[0] == "if":
            _, cond, blk, elifs, els = node
            res.append(("if", cond, decorate(rng, blk, st, p), [(c, decorate(rng, b, st, p)) for c, b in elifs],
                        decorate(rng, els, st, p) if els is not None else None))
        else:
            _, sel, pre, cases, els = node
            res.append(("sw", sel, decorate(rng, pre, st, p), [(v, decorate(rng, b, st, p)) for v, b in cases],
                        decorate(rng, els, st, p) if els is not None else None))
    return res


def sym_leaves(block, acc):
    for node in block:
        if node[0] == "leaf":
            if len(node) == 3:
                acc.append(node)
        else:
            for b in [node[2]] + [b for _, b in node[3]] + ([node[4]] if node[4] is not None else []):
                sym_leaves(b, acc)
    return acc


def share_labels(rng, block, st):
    """the pattern 'same label in several branches of one construct': branches of an IF ladder resp. the CASE/ELSECASE
    branches of a SWITCH exclude each other, so a label may stand in two of them (each leaf takes part once)"""
    for node in block:
        if node[0] == "leaf":
            continue
        branches = ([node[2]] if node[0] == "if" else []) + [b for _, b in node[3]] + ([node[4]] if node[4] is not None else [])
        cands = [[l for l in sym_leaves(b, []) if l[1] not in "uDU" and id(l) not in st["shared"]] for b in branches]
        have = [i for i, c in enumerate(cands) if c]
        if len(have) >= 2 and rng.random() < 0.5:
            i, j = rng.sample(have, 2)
            a, b = rng.choice(cands[i]), rng.choice(cands[j])
            b[2] = a[2]
            st["shared"].update((id(a), id(b)))
            st["nshared"] += 1
        for b in [node[2]] + [b for _, b in node[3]] + ([node[4]] if node[4] is not None else []):
            share_labels(rng, b, st)


def flatten(rng, block, out, macros=False, dead=False, kw="switch"):
    """skeleton (python tree) -> list of (token, asm|None); markers are numbered in source order.
    With macros=True a leaf-only IFB/IFNB ladder may be written as a call of a macro whose body is the ladder
    (blank / non-blank *macro arguments*)."""
    for node in block:
        if node[0] == "leaf":
            if len(node) == 3:
                out.append(("L:%s%d" % (node[1], node[2]), spell_leaf(rng, node[1], node[2])))
            elif macros and dead and rng.random() < 0.35:
                out.append(("L", rng.choice(RARE_BOMBS if rng.random() < 0.004 else BOMBS)))
            elif macros and rng.random() < 0.04:
                # the marker byte comes out of an INCLUDE file (`db INCM`)
                out.append(("L", "INCM\teval %d\n\tinclude " + rng.choice(["lvinc.inc", '"lvinc.inc"'])))
            elif macros and rng.random() < 0.25:
                out.append(("L", "\t%s %%d" % rng.choice(LEAF_MACROS)))
            else:
                out.append(("L", None))
        elif (macros and node[0] == "if" and node[1][0] == "b" and 2 <= len(node[1][2]) <= 5 and node[2] == [("leaf",)]
              and not node[3] and node[4] is None and rng.random() < 0.6):
            neg, flags = node[1][1], node[1][2]
            out.append((cond_stmt(rng, node[1])[0], ""))
            out.append(("L", "\t%s%d %%d,%s" % (("tb", "tn")[neg], len(flags), ",".join("x" if f else "" for f in flags))))
            out.append(("EN0", ""))
        elif node[0] == "if":
            _, cond, blk, elifs, els = node
            out.append(cond_stmt(rng, cond))
            d1, d2 = dead or cond == ("e", 0), dead or cond == ("e", 1)
            flatten(rng, blk, out, macros, d1, kw)
            for c, b in elifs:
                out.append(("EI1:%d" % c, "\t%s %s" % (rng.choice(["elseif", "elseif", "ELSEIF"]), rng.choice(TRUE_EXPR if c else FALSE_EXPR))))
                flatten(rng, b, out, macros, d2, kw)
            if els is not None:
                out.append(("EI0:0", "\t" + rng.choice(["else", "elseif", "ELSE"])))
                flatten(rng, els, out, macros, d2, kw)
            out.append(("EN0", "\t" + rng.choice(["endif", "endif", "ENDIF"])))
        else:
            _, sel, pre, cases, els = node
            out.append(("S1:" + sel, "\t%s %s" % (kw, val_asm(rng, sel))))
            flatten(rng, pre, out, macros, dead, kw)
            for vals, b in cases:
                out.append(("C:" + ",".join(vals), "\tcase " + ",".join(val_asm(rng, v) for v in vals)))
                flatten(rng, b, out, macros, dead, kw)
            if els is not None:
                out.append(("EC0", "\telsecase"))
                flatten(rng, els, out, macros, dead, kw)
            out.append(("ED0", "\tendcase"))
    return out


def number_leaves(stmts):
    """give leaves their markers 1,2,3...; returns (tokens, asm templates, nleaves)"""
    toks, asm, n = [], [], 0
    for t, a in stmts:
        if t == "L" or t.startswith("L:"):
            n += 1
            toks.append("L%d" % n + t[1:])
            asm.append(n if a is None else a.replace("%d", str(n)))
        else:
            toks.append(t)
            asm.append(a)
    return toks, asm, n


DEF_PROBES = [
    "\tifdef N\n\tdw N\n\telse\n\tdw 0ffffh\n\tendif",
    "\tifndef N\n\tdw 0ffffh\n\telse\n\tdw N\n\tendif",
    "\tif defined(N)\n\tdw N\n\telseif 1\n\tdw 0ffffh\n\tendif",
    "\tif symtype(N)<0\n\tdw 0ffffh\n\telse\n\tdw N\n\tendif",
    "\tswitch defined(N)\n\tcase 1\n\tdw N\n\telsecase\n\tdw 0ffffh\n\tendcase",
]
USE_PROBES = [
    "\tifused N\n\tdw 1\n\telse\n\tdw 0ffffh\n\tendif",
    "\tifnused N\n\tdw 0ffffh\n\telse\n\tdw 1\n\tendif",
]


def make_case(rng, tag, toks, asm, n, cpu=None):
    """a packed case: statements, the symbols its leaves are about, the probes behind the construct.
    Window: [base, base+cw) code, then 2 bytes per probe."""
    pro, probes, seen, cw = [], [], set(), 1
    for t in toks:
        if t[0] != "L":
            continue
        if ":" not in t:
            cw += 1
            continue
        m, ks = t[1:].split(":")
        kind, sym = ks[0], int(ks[1:])
        cw += LEAF_KINDS[kind][1]
        if kind == "u":
            pro.append("r@x%d\tequ %s" % (sym, m))
            probes.append(("u", sym, rng.choice(USE_PROBES).replace("N", "r@x%d" % sym)))
            continue
        if kind in "DU":
            if ("x", sym) in seen:
                continue
            seen.add(("x", sym))
            nm = ("w@x%d" if kind == "D" else "v@x%d") % sym
            pro.append("%s\tequ 0ffffh" % nm)
            if kind == "D":
                # in force behind the construct <=> the line reads `dw <marker>` (otherwise the symbol: FFFF)
                probes.append(("x", sym, rng.choice(["\tdw N", "\tif N<>0ffffh\n\tdw 1\n\telse\n\tdw 0ffffh\n\tendif"]).replace("N", nm)))
            else:
                pro.append("#define %s %d" % (nm, rng.choice([1, 7, 300])))
                probes.append(("x", sym, "\tif N==0ffffh\n\tdw 1\n\telse\n\tdw 0ffffh\n\tendif".replace("N", nm)))
            continue
        for i in [sym] + ([sym + ELEM] if kind == "s" else []):
            if i not in seen:
                seen.add(i)
                probes.append(("d", i, rng.choice(DEF_PROBES).replace("N", sym_name(i))))
    rng.shuffle(probes)
    return dict(tag=tag, toks=toks, asm=asm, n=n, pro=pro, probes=probes, cw=cw, w=cw + 2 * len(probes), cpu=cpu,
                nexitm=sum(1 for a in asm if a in RARE_BOMBS))


def case_lines(c, base, idx):
    """source lines of a case placed at `base` as case number `idx` of its file"""
    lines = list(c["pro"]) + ["\torg %d" % base]
    if c.get("cpu"):
        lines.append("\tcpu %s" % c["cpu"])
    for a in c["asm"]:
        if a != "":
            lines.append(("\tdb %d" % a) if isinstance(a, int) else a)
    if c.get("cpu"):
        lines.append("\tcpu z80")
    lines.extend(c.get("post", []))
    if c["probes"]:
        lines.append("\torg %d" % (base + c["cw"]))
        lines.extend(p[2] for p in c["probes"])
    lines.extend(c.get("tail", []))
    return "\n".join(lines).replace("@", str(idx)).split("\n")


def case_obs(c, mem, base, errnums, st):
    """the observation string of a case from the decoded code file"""
    code = [mem[a] for a in range(base, base + c["cw"]) if a in mem]
    syms = []
    for j, (what, i, _) in enumerate(c["probes"]):
        pa = base + c["cw"] + 2 * j
        if pa not in mem or pa + 1 not in mem:
            syms.append("?%d" % i)           # the probe emitted nothing at all: not a well-formed observation
            continue
        v = mem[pa] | (mem[pa + 1] << 8)
        if v == 0xFFFF:
            continue
        if what in "ux":
            syms.append("%s%d" % (what, i))
        else:
            own = lambda a: str(mem[a]) if base <= a < base + c["cw"] and a in mem else "x"
            syms.append("d%d=%d/%s/%s" % (i, v, own(v), own(v + 1)))
    return "%s;%s;%s;%s" % (bytes(code).hex() or "-", ",".join(map(str, errnums)) or "-", st, ",".join(syms) or "-")


# ----------------------------------------------------------------------------------------------
# generators

def b1_constructs():
    """all depth-1 constructs with one leaf per block: IF ladders with <= 2 ELSEIF, optional ELSE, all condition
    vectors; SWITCH 1 with <= 2 CASE from {[1],[2],[2,1]}, optional ELSECASE"""
    L = [("leaf",)]
    res = []
    for k in range(3):
        for conds in itertools.product([0, 1], repeat=k + 1):
            for els in (None, L):
                res.append(("if", ("e", conds[0]), list(L), [(c, list(L)) for c in conds[1:]], els))
    vls = [("i1",), ("i2",), ("i2", "i1")]
    for k in range(3):
        for cv in itertools.product(vls, repeat=k):
            for els in (None, L):
                res.append(("sw", "i1", list(L), [(v, list(L)) for v in cv], els))
    return res


def slots(c):
    """number of blocks of a construct"""
    if c[0] == "if":
        return 1 + len(c[3]) + (1 if c[4] is not None else 0)
    return 1 + len(c[3]) + (1 if c[4] is not None else 0)


def with_child(c, slot, child):
    """construct c with `child` inserted into block number `slot`: [leaf, child, leaf]"""
    nb = [("leaf",), child, ("leaf",)]
    if c[0] == "if":
        _, cond, blk, elifs, els = c
        if slot == 0:
            return ("if", cond, nb, elifs, els)
        if slot <= len(elifs):
            e2 = list(elifs)
            e2[slot - 1] = (elifs[slot - 1][0], nb)
            return ("if", cond, blk, e2, els)
        return ("if", cond, blk, elifs, nb)
    _, sel, pre, cases, els = c
    if slot == 0:
        return ("sw", sel, nb, cases, els)
    if slot <= len(cases):
        c2 = list(cases)
        c2[slot - 1] = (cases[slot - 1][0], nb)
        return ("sw", sel, pre, c2, els)
    return ("sw", sel, pre, cases, nb)


def exhaustive_blocks():
    b1 = b1_constructs()
    for c in b1:
        yield "E1", [("leaf",), c, ("leaf",)]
    for p in b1:
        for s in range(slots(p)):
            for ch in b1:
                yield "E2nest", [with_child(p, s, ch), ("leaf",)]
    for c1 in b1:
        for c2 in b1:
            yield "E2seq", [c1, c2]


def rand_cond(rng):
    r = rng.random()
    if r < 0.45:
        return ("e", rng.randrange(2))
    if r < 0.75:
        return (rng.choice("dux"), rng.randrange(2), rng.randrange(2))
    n = rng.choice([0, 2, 2, 3, 3, 4, 5])
    if rng.random() < 0.35:
        flags = tuple(False for _ in range(n))
    else:
        flags = tuple(rng.random() < 0.4 for _ in range(n))
    return ("b", rng.randrange(2), flags)


def rand_vals(rng, sel):
    n = rng.choice([1, 1, 2, 3])
    vs = []
    for _ in range(n):
        r = rng.random()
        if r < 0.3:
            vs.append(sel)
        elif r < 0.6:
            # same type as the selector
            vs.append(rng.choice([t for t, _ in VAL_POOL if t[0] == sel[0]]))
        else:
            vs.append(rng.choice(VAL_POOL)[0])
    return tuple(vs)


def rand_block(rng, depth, maxbr):
    items = []
    for _ in range(rng.choice([0, 1, 1, 2, 3])):
        if depth > 0 and rng.random() < 0.5:
            items.append(rand_construct(rng, depth - 1, maxbr))
        else:
            items.append(("leaf",))
    return items


def rand_construct(rng, depth, maxbr):
    if rng.random() < 0.55:
        if rng.random() < 0.12:
            # leaf-only IFB/IFNB ladder (may be written as a macro call with blank / non-blank arguments)
            c = rand_cond(rng)
            while c[0] != "b":
                c = rand_cond(rng)
            return ("if", c, [("leaf",)], [], None)
        ne = rng.randrange(0, maxbr - 1)
        return ("if", rand_cond(rng), rand_block(rng, depth, maxbr),
                [(rng.randrange(2), rand_block(rng, depth, maxbr)) for _ in range(ne)],
                rand_block(rng, depth, maxbr) if rng.random() < 0.5 else None)
    sel = rng.choice(VAL_POOL)[0]
    nc = rng.randrange(0, maxbr)
    return ("sw", sel, rand_block(rng, depth, maxbr) if rng.random() < 0.3 else [],
            [(rand_vals(rng, sel), rand_block(rng, depth, maxbr)) for _ in range(nc)],
            rand_block(rng, depth, maxbr) if rng.random() < 0.5 else None)


def depth_of(block):
    d = 0
    for n in block:
        if n[0] == "if":
            subs = [n[2]] + [b for _, b in n[3]] + ([n[4]] if n[4] is not None else [])
        elif n[0] == "sw":
            subs = [n[2]] + [b for _, b in n[3]] + ([n[4]] if n[4] is not None else [])
        else:
            continue
        d = max(d, 1 + max(depth_of(b) for b in subs))
    return d


ALPHABET = [
    ("L", None), ("I1:e1", "\tif 1"), ("I1:e0", "\tif 0"), ("I0:e1", "\tif"), ("I2:e1", "\tif 1,0"),
    ("I2:b001", "\tifb ,x"), ("I0:b1", "\tifnb"), ("I1:d01", "\tifdef DEFD"),
    ("EI0:0", "\telse"), ("EI1:1", "\telseif 1"), ("EI1:0", "\telseif 0"), ("EI2:1", "\telse 1,2"),
    ("EN0", "\tendif"), ("EN1", "\tendif 1"),
    ("S1:i1", "\tswitch 1"), ("S0:i1", "\tswitch"), ("S2:i1", "\tswitch 1,2"),
    ("C:i1", "\tcase 1"), ("C:i2,i1", "\tcase 2,1"), ("C:i2", "\tcase 2"), ("C", "\tcase"),
    ("EC0", "\telsecase"), ("EC1", "\telsecase 1"), ("ED0", "\tendcase"), ("ED1", "\tendcase 1"),
]
SHORT_ALPHABET = [a for a in ALPHABET if a[0] in ("L", "I1:e1", "I1:e0", "EI0:0", "EI1:1", "EN0", "EN1", "S1:i1", "C:i1", "C:i2", "C",
                                                  "EC0", "ED0", "EI2:1", "I2:e1", "S0:i1")]


def rand_stream(rng):
    base = flatten(rng, rand_block(rng, 2, 3) or [("leaf",)], [])
    if not base:
        base = [("L", None)]
    st = list(base)
    for _ in range(rng.choice([1, 1, 2, 3])):
        r = rng.random()
        if r < 0.3 and st:
            del st[rng.randrange(len(st))]
        elif r < 0.7:
            st.insert(rng.randrange(len(st) + 1), rng.choice(ALPHABET))
        elif r < 0.85 and st:
            st.insert(rng.randrange(len(st) + 1), rng.choice(st))
        elif len(st) >= 2:
            i, j = rng.randrange(len(st)), rng.randrange(len(st))
            st[i], st[j] = st[j], st[i]
    return st[:40]



# ----------------------------------------------------------------------------------------------
# the ways a pass can end

# a line that issues END: how -> asm spellings
END_PLAIN = {
    "d": ["\tend", "\tEND", " end"],
    "a": ["\tend 16", "\tend T1"],
    "m": ["\tfin"],
    "w": ["\tfinw"],
    "r": ["\trept 2\n\tend\n\tmessage \"238\"\n\tendm", "\trept 1\n\tend\n\tendm\n\tmessage \"238\"",
          "\tirp PX,5,6\n\tend\n\tmessage \"238\"\n\tendm", "\trept 2\n\tfin\n\tendm"],
}
# calls of macros that open conditionals of their own around the END (the statements of the body are the tokens; the call is
# one line).  Only where nothing is open, i.e. where the call is certainly expanded.
END_TOP = {
    "c": [("I1:e1", ""), ("Z:c", "\tfinc")],
    "s": [("S1:i3", ""), ("C:i3", ""), ("Z:s", "\tfins")],
    "e": [("I1:e0", ""), ("Z:e", "\tfine"), ("EN0", "")],
}


def end_line(rng, depth):
    """-> list of (token, asm) for one END-issuing line at a place where `depth` constructs are open"""
    if depth == 0 and rng.random() < 0.3:
        return list(END_TOP[rng.choice("cse")])
    how = rng.choice("dddamwr")
    return [("Z:" + how, rng.choice(END_PLAIN[how]))]


def depths(st):
    """number of open constructs in front of every position 0..len(st) of a skeleton's statement list"""
    d, res = 0, [0]
    for t, _ in st:
        if t[0] in "IS":
            d += 1
        elif t.startswith("EN") or t.startswith("ED"):
            d -= 1
        res.append(d)
    return res


def with_ends(rng, st, positions, cut=None, groups=False):
    """statement list `st` (cut behind position `cut`) with END lines put at `positions`; groups=True: list of source lines
    (each a list of statements)"""
    dp = depths(st)
    out = []
    for i in range(len(st) + 1):
        if cut is not None and i > cut:
            break
        for _ in range(positions.count(i)):
            out.append(end_line(rng, dp[i]))
        if i < len(st) and (cut is None or i < cut):
            out.append([st[i]])
    return out if groups else [x for g in out for x in g]


def end_streams(rng, thorough, dist):
    """-> list of (tag, toks, asm)"""
    res = []

    def add(tag, st):
        if len(st) > 70:
            return
        toks, asm, _ = number_leaves(st)
        res.append((tag, toks, asm))
        dist[tag.split(":")[0]] = dist.get(tag.split(":")[0], 0) + 1

    # every depth-1 construct (and, sampled, depth 2), every point of its text: END there with the rest of the text behind it,
    # END there and nothing behind, the text simply ending there
    blocks = [[("leaf",), c, ("leaf",)] for c in b1_constructs()]
    b1 = b1_constructs()
    for _ in range(400 if thorough else 25):
        p = rng.choice(b1)
        blocks.append([with_child(p, rng.randrange(slots(p)), rng.choice(b1)), ("leaf",)])
    for blk in blocks:
        st = flatten(rng, blk, [])
        for k in range(len(st) + 1):
            add("end_exh_rest", with_ends(rng, st, [k]))
            if thorough or rng.random() < 0.5:
                add("end_exh_cutend", with_ends(rng, st, [k], cut=k))
            if thorough or rng.random() < 0.25:
                add("end_exh_cut", with_ends(rng, st, [], cut=k))
    # random skeletons: cut or not, several END lines anywhere, arbitrary statements behind, a stray statement somewhere
    for i in range(12000 if thorough else 450):
        d = rng.choice([1, 2, 2, 3])
        blk = rand_block(rng, d, rng.choice([3, 4, 5]))
        if depth_of(blk) == 0:
            blk = blk + [rand_construct(rng, d - 1, 4)]
        st = flatten(rng, blk, [])
        cut = rng.randrange(len(st) + 1) if rng.random() < 0.5 else None
        hi = len(st) if cut is None else cut
        pos = [rng.randrange(hi + 1) for _ in range(rng.choice([0, 1, 1, 1, 2, 3]))]
        if cut is not None and rng.random() < 0.5:
            pos.append(cut)
        out = with_ends(rng, st, pos, cut, groups=True)
        if rng.random() < 0.3:
            out.extend([rng.choice(ALPHABET)] for _ in range(rng.choice([1, 2, 3])))
        if rng.random() < 0.15:
            # a stray statement (not in front of a macro call whose body is spelled out as statements: it may switch assembly off there)
            lo = max([i + 1 for i, g in enumerate(out) if len(g) > 1] + [0])
            out.insert(rng.randrange(lo, len(out) + 1), [rng.choice(ALPHABET)])
        add("end_rand", [x for g in out for x in g] or [("L", None)])
    return res


# ----------------------------------------------------------------------------------------------
# target history: programs without the z80 header that change the target between the constructs

MINI_HEADER = "T1\tequ 1\nF0\tequ 0\nDEFD\tequ 7\nUSEDS\tequ 3\nUNUS\tequ 4\nREFU\tequ USEDS+1\nSEL3\tequ 3\n"
OTHER_CPUS = ["z80", "8051", "6502", "68008", "65c02", "6809", "8086", "z80"]


def history_program(rng, dist):
    """a program of several phases: [CPU <target>] + one construct, the SWITCH construct spelled SELECT exactly while an OLMS-50 target is
    selected (SWITCH is a machine instruction there; asmif.c CodeIFs).  The first phase may come without any CPU statement (the default
    target of the invocation: what an earlier pass / an earlier source file of the same invocation selected must not matter); a forward
    reference may force a further pass.  Leaves are symbol definitions (EQU / SET), probed at the end under the z80.
    -> make_case dict or None"""
    nodes = []
    for _ in range(rng.choice([1, 2, 2, 3, 4])):
        nodes.append(rand_construct(rng, rng.choice([0, 1, 1, 2]), 4))
    st = dict(n=0, kinds=["e", "t"], weights=[1, 1], shared=set(), nshared=0, cap=60)
    nodes = decorate(rng, nodes, st, 1.1)
    share_labels(rng, nodes, st)
    out, cur, trail = [], None, []
    for i, nd in enumerate(nodes):
        change = None
        if i > 0 or rng.random() < 0.6:
            if rng.random() < 0.5:
                change = rng.choice(OLMS_CPUS)
            elif rng.random() < 0.85:
                change = rng.choice(OTHER_CPUS)
        if change:
            cur = change
        occ = cur in OLMS_CPUS
        trail.append("O" if occ else ("d" if cur is None else "n"))
        part = flatten(rng, [nd], [], kw=rng.choice(["select", "SELECT"] if occ else ["switch", "SWITCH", "switch"]))
        if change:
            if part[0][1] is None:
                return None
            part[0] = (part[0][0], "\tcpu %s\n%s" % (change, part[0][1]))
        out.extend(part)
    toks, asm, n = number_leaves(out)
    asm = [a.replace("0ffh", "255") if isinstance(a, str) else a for a in asm]       # (Intel notation is not every target's)
    if n > st["n"] or n > 200 or any(a is None or isinstance(a, int) for a in asm):
        return None
    c = make_case(rng, "history:" + "".join(trail), toks, asm, n)
    c["post"] = ["\tcpu z80"]
    if rng.random() < 0.4:
        c["pro"].append("fw@\tequ late@")
        c["post"] = ["late@\tequ 1"] + c["post"] if rng.random() < 0.5 else c["post"] + ["late@\tequ 1"]
        c["fwd"] = True
    if rng.random() < 0.3:
        # the program leaves an occupying target selected at its end (for the next pass / the next source of the invocation)
        c["tail"] = ["\tcpu %s" % rng.choice(OLMS_CPUS)]
        trail.append("O")
    key = "".join(trail)
    key = ("multi-pass," if c.get("fwd") else "") + ("occupying->other" if ("On" in key or "Od" in key) else "occupying-only" if "O" in key else "no-occupying")
    dist["target_history"][key] = dist["target_history"].get(key, 0) + 1
    return c


def run_session(bdir, wd, name, progs):
    """several programs as the sources of ONE asl invocation -> list of (obs, source)"""
    names, srcs = [], []
    for i, c in enumerate(progs):
        nm = "%s_%d" % (name, i)
        src = MINI_HEADER + "\n".join(case_lines(c, 16, i)) + "\n"
        open(os.path.join(wd, nm + ".asm"), "w").write(src)
        names.append(nm)
        srcs.append(src)
    ef = os.path.join(wd, name + ".err")
    if os.path.exists(ef):
        os.unlink(ef)
    rc, so, se = common.run_tool(bdir, "asl", ["-q", "-n", "-E", name + ".err"] + [n + ".asm" for n in names], wd, timeout=120)
    byfile = {}
    if os.path.exists(ef):
        for line in open(ef, errors="replace"):
            m = ERR_RE.match(line)
            if m:
                byfile.setdefault(m.group(1).strip(), []).append(int(m.group(4)))
            elif line.startswith("> > >"):
                byfile.setdefault("?", []).append(-1)
        os.unlink(ef)
    res = []
    for nm, c, src in zip(names, progs, srcs):
        pf = os.path.join(wd, nm + ".p")
        pb = open(pf, "rb").read() if os.path.exists(pf) else None
        for x in (pf, os.path.join(wd, nm + ".asm")):
            if os.path.exists(x):
                os.unlink(x)
        errs = byfile.get(nm + ".asm", []) + byfile.get("?", [])
        if c.get("fwd") and len(errs) % 2 == 0 and errs[:len(errs) // 2] == errs[len(errs) // 2:]:
            # the forward reference makes it a two-pass program; the error file does not separate the passes: what pass 1 reported
            # (the 'no CASE hit' warnings) comes once more from pass 2
            errs = errs[:len(errs) // 2]
        st = status_str(rc)
        if st != "sig":
            st = "0" if not [e for e in errs if e >= 1000 or e < 0] else (st if st != "0" else "2")
        mem = (mem_of_pfile(pb) if pb else None) or {}
        if len(progs) > 1:
            src = "; source %d of `asl %s`:\n%s" % (names.index(nm) + 1, " ".join(n + ".asm" for n in names), "".join("; ---- %s.asm\n%s" % (n, s) for n, s in zip(names, srcs)) if nm == names[-1] or True else src)
        res.append(("-;-;sig;-" if st == "sig" else case_obs(c, mem, 16, errs, st), src))
    return res

# ----------------------------------------------------------------------------------------------
# running the real assembler

ERR_RE = re.compile(r"^> > > ?([^(:]*)(?:\((\d+)\))?.*?: (error|warning|fatal error|fatal) #(\d+)")


def parse_errfile(path):
    """-> list of (line number or None, number)"""
    res = []
    if not os.path.exists(path):
        return res
    for line in open(path, errors="replace"):
        m = ERR_RE.match(line)
        if m:
            res.append((int(m.group(2)) if m.group(2) else None, int(m.group(4))))
        elif line.startswith("> > >") and "#" in line:
            res.append((None, -1))
    return res


def asl(bdir, wd, name, src):
    f = os.path.join(wd, name + ".asm")
    open(f, "w").write(src)
    ef = os.path.join(wd, name + ".err")
    pf = os.path.join(wd, name + ".p")
    for x in (ef, pf):
        if os.path.exists(x):
            os.unlink(x)
    rc, so, se = common.run_tool(bdir, "asl", ["-q", "-n", "-E", name + ".err", name + ".asm", "-o", name + ".p"], wd, timeout=120)
    errs = parse_errfile(ef)
    pbytes = open(pf, "rb").read() if os.path.exists(pf) else None
    for x in (ef, pf, f):
        if os.path.exists(x):
            os.unlink(x)
    return rc, so.decode(errors="replace"), errs, pbytes


def status_str(rc):
    if rc == "timeout":
        return "timeout"
    if rc < 0 or rc >= 128:
        return "sig"
    return str(rc)


def mem_of_pfile(pbytes):
    """address -> byte, decoded by the Lean SPEC reader (driver mode `pfile`)"""
    ans = common.driver("pfile", [pbytes.hex()])[0]
    mem = {}
    if not ans.startswith("ok"):
        return None
    for it in ans.split()[2:]:
        if it.startswith("D:"):
            cpu, seg, gran, start, hx = it[2:].split(",")
            data = bytes.fromhex(hx) if hx != "-" else b""
            for i, b in enumerate(data):
                mem[int(start) + i] = b
    return mem


def solo_source(asm, leaf_as_message):
    lines = []
    for a in asm:
        if isinstance(a, int):
            lines.append(('\tmessage "%d"' % a) if leaf_as_message else ("\tdb %d" % a))
        elif a:
            lines.append(a)
    return HEADER + "\torg 0\n" + "\n".join(lines) + "\n"


def run_solo(bdir, wd, name, asm, leaf_as_message=True):
    """-> (obs string, source)"""
    src = solo_source(asm, leaf_as_message)
    rc, so, errs, pb = asl(bdir, wd, name, src)
    st = status_str(rc)
    if st == "sig":
        return "-;-;sig", src
    if leaf_as_message:
        marks = [int(x) for x in so.split() if x.isdigit()]
    else:
        mem = mem_of_pfile(pb) if pb else {}
        marks = [mem[a] for a in sorted(mem or {})]
    return "%s;%s;%s" % (bytes(m % 256 for m in marks).hex() or "-", ",".join(str(n) for _, n in errs) or "-", st), src


def run_case_solo(bdir, wd, name, c):
    """one packed-style case alone in a file -> (obs string, source)"""
    src = HEADER + "\n".join(case_lines(c, 16, 0)) + "\n"
    rc, so, errs, pb = asl(bdir, wd, name, src)
    st = status_str(rc)
    if st == "sig":
        return "-;-;sig;-", src
    mem = (mem_of_pfile(pb) if pb else None) or {}
    return case_obs(c, mem, 16, [n for _, n in errs], st), src


def run_pack(bdir, wd, name, cases):
    """cases: list of make_case dicts.  Returns list of obs strings and the source."""
    lines = HEADER.rstrip("\n").split("\n")
    base = 16
    ranges = []
    for idx, c in enumerate(cases):
        lo = len(lines) + 1
        c["base"] = base
        c["idx"] = idx
        lines.extend(case_lines(c, base, idx))
        ranges.append((lo, len(lines)))
        base += c["w"] + 1
    src = "\n".join(lines) + "\n"
    rc, so, errs, pb = asl(bdir, wd, name, src)
    st = status_str(rc)
    mem = mem_of_pfile(pb) if pb else None
    obs, eslist = [], []
    byline = {}
    unpos = []
    for ln, num in errs:
        if ln is None:
            unpos.append(num)
        else:
            byline.setdefault(ln, []).append(num)
    for c, (lo, hi) in zip(cases, ranges):
        es = [n for ln in range(lo, hi + 1) for n in byline.get(ln, [])]
        eslist.append(es)
        if st == "sig" or mem is None:
            obs.append(None)
            continue
        obs.append(case_obs(c, mem, c["base"], es, st))
    return obs, src, unpos, st, eslist


def kv(ans):
    return dict(x.split("=", 1) for x in ans.split() if "=" in x)


def calibrate(bdir, wd):
    """probe the two behaviours the model takes as parameters"""
    o1, s1 = run_solo(bdir, wd, "probe_ifb", ["\tifb ,x", 1, "\tendif", 2], leaf_as_message=False)
    stride = 2 if o1.startswith("0102;") else 1
    o2, s2 = run_solo(bdir, wd, "probe_ec", ["\telsecase", 1])
    crash = 1 if o2.endswith(";sig") else 0
    o3, s3 = run_solo(bdir, wd, "probe_dw", ["\tif 0", "\tswitch 1", "\tendcase", "\tendif", 1], leaf_as_message=False)
    deadwarn = 1 if o3.split(";")[1] == "100" else 0
    return stride, crash, deadwarn, (o1, o2, o3)


# ----------------------------------------------------------------------------------------------

def cfgs(cfg):
    return "%d %d %d" % cfg


def classify(k, tag, toks, obs, src, cfg, nexitm=0):
    """-> ('spec'|'corr'|None, dict)"""
    req = "%s %s %s" % (cfgs(cfg), obs, " ".join(toks))
    base = dict(tag=tag, request=req, source=src, driver={a: b for a, b in k.items() if a not in ("mout",)})
    if k.get("spec") == "bad":
        sig = None
        why = k.get("why")
        if why == "crash" and k.get("mcrash") == "1":
            sig = SIG_SEGV
        elif nexitm and why in ("markers", "error-on-wellformed") and [e for e in obs.split(";")[1].split(",") if e != "100"] == ["1805"] * nexitm:
            # nothing but one 'EXITM not called from within macro' per EXITM / SHIFT line standing (outside a macro) in a skipped block
            sig = SIG_EXITM
        elif why == "markers" and k.get("ifbsens") == "1" and k.get("alt") == "eq":
            sig = SIG_IFB
        elif (why == "warnings" and k.get("ifbsens") == "1" and k.get("alt") == "eq" and k.get("model") == "eq"
              and (k.get("altw") == "eq" or k.get("armless", "0") != "0")):
            # the misjudged IFB branch holds no leaf but a SWITCH whose warning shows which branch was taken
            sig = SIG_IFB
        elif why == "warnings" and k.get("armless", "0") != "0" and k.get("model") == "eq":
            sig = SIG_ARMLESS
        d = dict(base, why="spec on the real asl failed: " + str(why))
        if sig:
            d["sig"] = sig
        return "spec", d
    if k.get("model") != "eq":
        return "corr", dict(base, why="real asl differs from Model/Cond (spec held or not applicable)")
    return None, None


def run(args):
    res = common.Result("C12", args.tier, args.seed, "proof")
    bdir, audit, proof_problems = common.standard_setup(res, "C12", ["Occupied"])
    if bdir is None:
        return res.finish()
    drv_ok = not any(p.startswith("driver does not build") for p in proof_problems)
    rng = common.rng_for(args.seed, "C12")
    thorough = args.tier == "thorough"
    spec_fail, corr_fail, samples = [], [], []
    dist = dict(E1=0, E2nest=0, E2seq=0, sampled=0, stream_exh=0, stream_rand=0, corpus=0,
                ladders=0, switches=0, ifb=0, sym=0, depth={}, wellnested_streams=0, illnested_streams=0,
                predicted_crash=0, err_numbers={}, packs=0, solo_runs=0, leaf_kinds={}, shared_labels=0, symbol_probes=0,
                symbols_found_defined=0, symbols_found_undefined=0, pass_end={}, end_spelling={}, target_history={})
    distinct = set()
    evaluations = 0

    with common.Workdir("c12") as wd:
        open(os.path.join(wd, "exist.inc"), "w").write("; exists\n")
        open(os.path.join(wd, "lvinc.inc"), "w").write("\tdb INCM\n")
        if not drv_ok:
            return common.conclude(res, proof_problems, [], [], 0)
        stride, crash, deadwarn, probes = calibrate(bdir, wd)
        cfg = (stride, crash, deadwarn)
        log("C12: calibrated ifbStride=%d elsecaseNullCrash=%d deadSwitchWarns=%d" % cfg)

        # ---------------- well-formed skeletons, packed
        cases = []

        kinds = sorted(LEAF_KINDS)

        def add_case(tag, block):
            r0 = rng.random()
            if r0 < 0.05:
                # target history: the whole construct under a target that occupies SWITCH (there the construct is spelled SELECT, SWITCH
                # being a machine instruction); leaves are symbol definitions (no code under that target), probed after the return to the z80
                st = dict(n=0, kinds=["e", "t"], weights=[1, 1], shared=set(), nshared=0, cap=40)
                block = decorate(rng, block, st, 1.1)
                toks, asm, n = number_leaves(flatten(rng, block, [], macros=False, kw=rng.choice(["select", "select", "SELECT"])))
                if n > st["n"] or n > 230:
                    return
                share_labels(rng, block, st)
                cpu = rng.choice(OLMS_CPUS)
                cases.append(make_case(rng, tag, toks, asm, n, cpu=cpu))
                dist["target_history"]["construct_under_" + cpu] = dist["target_history"].get("construct_under_" + cpu, 0) + 1
                return
            if rng.random() < 0.55:
                # leaves about symbols, the same label in branches that exclude each other
                st = dict(n=0, kinds=kinds, weights=[LEAF_KINDS[k][0] for k in kinds], shared=set(), nshared=0)
                block = decorate(rng, block, st, rng.choice([0.25, 0.5, 0.8]))
                share_labels(rng, block, st)
                dist["shared_labels"] += st["nshared"]
            toks, asm, n = number_leaves(flatten(rng, block, [], macros=True))
            if n > 230 or len(toks) > 1500:
                return
            cases.append(make_case(rng, tag, toks, asm, n))
            if r0 < 0.12:
                # target history: targets that occupy SWITCH were selected (and left again) in front of the construct - once or several
                # times, with or without a SELECT construct assembled there
                hist = []
                for _ in range(rng.choice([1, 1, 2, 3])):
                    hist.append("\tcpu %s" % rng.choice(OLMS_CPUS))
                    if rng.random() < 0.4:
                        hist.extend(["\tselect %d" % rng.randrange(3), "\tcase 1", "hh@\t:= 1", "\telsecase", "hh@\t:= 2", "\tendcase"])
                    hist.append("\tcpu %s" % rng.choice(["z80", "z80", "8051", "6502"]))
                if not hist[-1].endswith("z80"):
                    hist.append("\tcpu z80")
                cases[-1]["pro"].extend(hist)
                dist["target_history"]["occupying_target_in_front"] = dist["target_history"].get("occupying_target_in_front", 0) + 1
            for t in toks:
                if t[0] == "L" and ":" in t:
                    k = t.split(":")[1][0]
                    dist["leaf_kinds"][k] = dist["leaf_kinds"].get(k, 0) + 1
            dist["symbol_probes"] += len(cases[-1]["probes"])
            dist["ifb_macro_style"] = dist.get("ifb_macro_style", 0) + sum(1 for a in asm if isinstance(a, str) and a[:3] in ("\ttb", "\ttn"))
            d = depth_of(block)
            dist["depth"][d] = dist["depth"].get(d, 0) + 1
            for t in toks:
                if t.startswith("I"):
                    dist["ladders"] += 1
                    if ":b" in t:
                        dist["ifb"] += 1
                        pass
                    elif ":e" not in t:
                        dist["sym"] += 1
                elif t.startswith("S"):
                    dist["switches"] += 1

        cdir = os.path.join(common.VERIF, "corpus", "C12")
        corpus_streams = []
        if os.path.isdir(cdir):
            for f in sorted(os.listdir(cdir)):
                if f.endswith(".json"):
                    d = json.load(open(os.path.join(cdir, f)))
                    dist["corpus"] += 1
                    if d.get("packed"):
                        # a well-formed skeleton with symbol leaves: goes through the packed path (probes behind the construct)
                        cases.append(make_case(rng, "corpus:" + f, d["toks"], d["asm"], sum(1 for t in d["toks"] if t[0] == "L")))
                        continue
                    corpus_streams.append(("corpus:" + f, d["toks"], [a if not isinstance(a, str) or not a.isdigit() else int(a) for a in d["asm"]]))
        for kind, blk in exhaustive_blocks():
            add_case(kind, blk)
            dist[kind] += 1
        n_samp = 80000 if thorough else 2500
        for i in range(n_samp):
            d = rng.choice([1, 2, 2, 3, 3, 4, 4])
            blk = rand_block(rng, d, rng.choice([3, 4, 5, 5, 6]))
            if depth_of(blk) == 0:
                blk = blk + [rand_construct(rng, d - 1, 5)]
            add_case("sampled:%d" % i, blk)
            dist["sampled"] += 1

        packs = []
        cur, room = [], 60000
        solo_cases = [c for c in cases if c.get("nexitm")]
        dist["cases_with_exitm_in_skipped_block"] = len(solo_cases)
        for c in cases:
            if c.get("nexitm"):
                continue
            if len(cur) >= 1500 or room < c["w"] + 2:
                packs.append(cur)
                cur, room = [], 60000
            cur.append(c)
            room -= c["w"] + 1
        if cur:
            packs.append(cur)
        dist["packs"] = len(packs)

        def do_pack(ip):
            i, p = ip
            return run_pack(bdir, wd, "pack%d" % i, p)

        with ThreadPoolExecutor(max_workers=4) as ex:
            pack_results = list(ex.map(do_pack, enumerate(packs)))

        reqs, metas = [], []
        n_confirm = 0
        redo_budget = 30000 if thorough else 2500
        for p, (obs, src, unpos, st, eslist) in zip(packs, pack_results):
            for n in unpos:
                dist["err_numbers"][n] = dist["err_numbers"].get(n, 0) + 1
            redo = st != "0" or unpos
            again = {}
            if redo and not unpos and st != "sig":
                # an error was reported (=> no code file for the whole pack): the cases the diagnostics point at run alone,
                # the others are packed once more
                rest = [c for c, es in zip(p, eslist) if not any(e >= 1000 for e in es)]
                if 0 < len(rest) < len(p):
                    obs2, src2, unpos2, st2, es2 = run_pack(bdir, wd, "repack", rest)
                    dist["repacks"] = dist.get("repacks", 0) + 1
                    if st2 == "0" and not unpos2 and all(o is not None for o in obs2):
                        again = {id(c): o for c, o in zip(rest, obs2)}
            for c, o in zip(p, obs):
                if id(c) in again:
                    o = again[id(c)]
                    c["src"] = None
                elif o is None or redo:
                    # the pack as a whole failed (error => no code file): attribute by running the case alone
                    redo_budget -= 1
                    if redo_budget < 0:
                        dist["cases_not_attributed"] = dist.get("cases_not_attributed", 0) + 1
                        continue
                    o, s1 = run_case_solo(bdir, wd, "redo", c)
                    dist["solo_runs"] += 1
                    c["src"] = s1
                else:
                    c["src"] = None
                reqs.append("%s %s %s" % (cfgs(cfg), o, " ".join(c["toks"])))
                metas.append((c, o))
        for c in solo_cases:
            o, s1 = run_case_solo(bdir, wd, "soloex", c)
            dist["solo_runs"] += 1
            c["src"] = s1
            reqs.append("%s %s %s" % (cfgs(cfg), o, " ".join(c["toks"])))
            metas.append((c, o))
        if redo_budget < 0:
            proof_problems.append("%d packed cases of failing packs were not run alone (budget): failures so widespread that only the first %d were attributed"
                                  % (-redo_budget, 30000 if thorough else 2500))
        answers = common.driver("c12", reqs, timeout=1800)
        evaluations += len(reqs)
        for (c, o), ans in zip(metas, answers):
            k = kv(ans)
            distinct.add(" ".join(c["toks"]))
            for e in o.split(";")[1].split(","):
                if e != "-":
                    dist["err_numbers"][e] = dist["err_numbers"].get(e, 0) + 1
            if k.get("skel") != "1":
                proof_problems.append("generator/driver: a generated skeleton was not recognised as one: " + c["tag"])
                continue
            src = c["src"] or (HEADER + "\n".join(case_lines(c, 16, 0)) + "\n")
            nd = o.split(";")[3].count("d") if o.count(";") >= 3 else 0
            dist["symbols_found_defined"] += nd
            dist["symbols_found_undefined"] += sum(1 for p in c["probes"] if p[0] == "d") - nd
            kind, d = classify(k, c["tag"], c["toks"], o, src, cfg, c.get("nexitm", 0))
            if kind == "spec":
                # confirm on the case alone (packed neighbours must not be blamed)
                if c["src"] is None and n_confirm < 25:
                    n_confirm += 1
                    o2, s2 = run_case_solo(bdir, wd, "confirm", c)
                    k2 = kv(common.driver("c12", ["%s %s %s" % (cfgs(cfg), o2, " ".join(c["toks"]))])[0])
                    kind, d = classify(k2, c["tag"], c["toks"], o2, s2, cfg, c.get("nexitm", 0))
            if kind == "spec":
                spec_fail.append(d)
            elif kind == "corr":
                corr_fail.append(d)
            if len(samples) < 3 and c["tag"].startswith("sampled") and c["n"] >= 4 and kind is None:
                samples.append(dict(tag=c["tag"], source=src[len(HEADER):][:700], observed=o, verdict=ans[:300]))

        # ---------------- target history: programs that change the target between constructs, alone and several per invocation
        hprogs = []
        while len(hprogs) < (3000 if thorough else 150):
            c = history_program(rng, dist)
            if c is not None:
                hprogs.append(c)
        sessions, i = [], 0
        while i < len(hprogs):
            k = rng.choice([1, 2, 2, 3])
            sessions.append(hprogs[i:i + k])
            i += k
        dist["target_history"]["invocations"] = len(sessions)
        dist["target_history"]["invocations_with_several_sources"] = sum(1 for x in sessions if len(x) > 1)

        def do_session(it):
            return run_session(bdir, wd, "h%d" % it[0], it[1])

        with ThreadPoolExecutor(max_workers=4) as ex:
            sres = list(ex.map(do_session, enumerate(sessions)))
        hreqs, hmetas = [], []
        for sess, rs in zip(sessions, sres):
            for c, (o, src) in zip(sess, rs):
                hreqs.append("%s %s %s" % (cfgs(cfg), o, " ".join(c["toks"])))
                hmetas.append((c, o, src))
        answers = common.driver("c12", hreqs, timeout=1800)
        evaluations += len(hreqs)
        for (c, o, src), ans in zip(hmetas, answers):
            k = kv(ans)
            distinct.add(c["tag"] + " " + " ".join(c["toks"]))
            if k.get("skel") != "1":
                proof_problems.append("generator/driver: a generated skeleton was not recognised as one: " + c["tag"])
                continue
            kind, d = classify(k, c["tag"], c["toks"], o, src, cfg)
            if kind == "spec":
                spec_fail.append(d)
            elif kind == "corr":
                corr_fail.append(d)
            if kind is None and len([x for x in samples if x["tag"].startswith("history")]) < 2 and "O" in c["tag"] and c["n"] >= 3:
                samples.append(dict(tag=c["tag"], source=src[:900], observed=o, verdict=ans[:300]))

        # ---------------- arbitrary statement streams, one per file
        streams = list(corpus_streams)
        for n in (1, 2) + ((3,) if thorough else ()):
            for combo in itertools.product(ALPHABET, repeat=n):
                toks, asm, nl = number_leaves(list(combo))
                streams.append(("stream_exh:%d" % len(streams), toks, asm))
                dist["stream_exh"] += 1
        for i in range(20000 if thorough else 700):
            toks, asm, nl = number_leaves(rand_stream(rng))
            streams.append(("stream_rand:%d" % i, toks, asm))
            dist["stream_rand"] += 1

        streams.extend(end_streams(rng, thorough, dist))

        def do_solo(it):
            i, (tag, toks, asm) = it
            return run_solo(bdir, wd, "s%d" % i, asm)

        with ThreadPoolExecutor(max_workers=4) as ex:
            solo = list(ex.map(do_solo, enumerate(streams)))
        dist["solo_runs"] += len(streams)
        reqs = ["%s %s %s" % (cfgs(cfg), o, " ".join(toks)) for (tag, toks, asm), (o, src) in zip(streams, solo)]
        answers = common.driver("c12", reqs, timeout=1800)
        evaluations += len(reqs)
        nstream_samples = 0
        for (tag, toks, asm), (o, src), ans in zip(streams, solo, answers):
            k = kv(ans)
            distinct.add(" ".join(toks))
            dist["wellnested_streams" if k.get("wn") == "1" else "illnested_streams"] += 1
            if k.get("mcrash") == "1":
                dist["predicted_crash"] += 1
            if "ends" in k:
                # how the pass ended according to the SPEC: by an END / at the end of the text / not determined; constructs open there
                how = "undetermined" if k["cons"] == "?" else ("by_END" if k["endeff"] == "1" else "END_lines_all_skipped")
                key = "%s,open=%s" % (how, k["open"] if k["open"] in ("0", "x") else ("1" if k["open"] == "1" else "2+"))
                dist["pass_end"][key] = dist["pass_end"].get(key, 0) + 1
                for t in toks:
                    if t[0] == "Z":
                        dist["end_spelling"][t[2:]] = dist["end_spelling"].get(t[2:], 0) + 1
            for e in o.split(";")[1].split(","):
                if e != "-":
                    dist["err_numbers"][e] = dist["err_numbers"].get(e, 0) + 1
            kind, d = classify(k, tag, toks, o, src, cfg)
            if kind == "spec":
                spec_fail.append(d)
            elif kind == "corr":
                corr_fail.append(d)
            if (nstream_samples < 2 and tag.startswith("stream_rand") and k.get("wn") == "0" and kind is None) or (
                    nstream_samples < 4 and tag.startswith("end_rand") and k.get("endeff") == "1" and k.get("open") not in ("0", "x") and kind is None):
                nstream_samples += 1
                samples.append(dict(tag=tag, source=src[len(HEADER):][:500], observed=o, verdict=ans[:300]))

        # ---------------- conditions that test the symbol table / the file system: passes, include files, search paths (c12_env.py)
        ev_env, distinct_env = c12_env.run_stream(args, bdir, wd, drv_ok, cfgs(cfg), mem_of_pfile, status_str, dist, spec_fail, corr_fail,
                                                  proof_problems, samples)
        evaluations += ev_env
        distinct |= distinct_env

        # ---------------- the calibration probes are themselves cases (witnesses of the known findings)
        for tag, toks, o in (("probe:ifb", ["I2:b001", "L1", "EN0", "L2"], probes[0]), ("probe:elsecase", ["EC0", "L1"], probes[1]),
                             ("probe:deadswitch", ["I1:e0", "S1:i1", "ED0", "EN0", "L1"], probes[2])):
            ans = common.driver("c12", ["%s %s %s" % (cfgs(cfg), o, " ".join(toks))])[0]
            kind, d = classify(kv(ans), tag, toks, o, "(see tag)", cfg)
            evaluations += 1
            if kind == "spec":
                spec_fail.append(d)
            elif kind == "corr":
                corr_fail.append(d)

    res.coverage = common.proof_coverage(audit, "C12", [
        "calibration probes (`ifb ,x`, lone `elsecase`, skipped `switch/endcase`) choose the model's Cfg; the spec does not depend on them",
        "correspondence: real asl vs Model/Cond on generated sources (differential test)",
        "generator's spelling of conditions (literal expressions, defined/used symbols, existing file, blank arguments) is the oracle for the evaluated truth values",
        "conditions that test the environment (c12_env.py): the harness inlines the INCLUDE files of a program into one text and names, for every IFEXIST, the file it is written in (what INCLUDE does to the current file name is C11's subject); the number of passes is read from the assembler's own summary; the flag 'IFEXIST also searches the working directory' of the model is probed on the real binary; the INCLUDE oracle (an INCLUDE of the same name in a file of the same directory, assembled by the real asl) must agree with the SPEC's file search",
        "the spelling of the construct keyword (SELECT while an OLMS-50 target is selected, SWITCH otherwise: asmif.c CodeIFs / codeol50.c SwitchIsOccupied - the manual does not mention SELECT, it only has the target's SWITCH instruction) is the generator's; the Lean model of the statements does not see the target, Model/CondKw.lean models the flag and Generated/Occupied.lean ties its reset to the current sources",
        "symbols: after each packed skeleton every symbol its leaves are about is probed (IFDEF/IFNDEF/DEFINED()/SYMTYPE()/SWITCH DEFINED(): value or FFFF; IFUSED/IFNUSED); the set found defined / referenced is compared with Spec `definedBy (selB b)` / `usedBy (selB b)` and with the model's definition / reference events, label values with the address of the leaf's own code"])
    res.coverage.update(
        evaluations=evaluations, distinct_nontrivial=len([t for t in distinct if t.count(" ") >= 1]),
        exhaustive=False, exhaustive_part="all skeletons of <= 2 constructs (IF ladder with <= 2 ELSEIF + optional ELSE, SWITCH with <= 2 CASE + optional ELSECASE), nested or in sequence, x all condition vectors; all statement streams of length <= %d over a %d-letter alphabet; every depth-1 construct x every point of its text x an END line there (rest of the text behind it)" % (3 if thorough else 2, len(ALPHABET)),
        rule="a case = one skeleton (with the symbol kinds of its leaves) or one statement stream with its condition values; distinct by driver token list; non-trivial = at least two statements",
        samples=samples, distribution=dist, calibrated_cfg=dict(ifbStride=stride, elsecaseNullCrash=crash, deadSwitchWarns=deadwarn))
    res.assumptions = [
        "float selector values are the exactly representable k/4; equality of doubles on them is equality of k",
        "leaves of one-per-file streams are `message` lines (asl deletes the code file when an error was reported)",
        "IF/ELSEIF expressions are evaluated correctly by the expression evaluator (C08's subject): only trivially true/false spellings are used",
        "a line that issues END is `end` / `end <entry point>` / a call of a macro (directly or through another macro) or a REPT whose body issues it; the model treats all of them as 'reading stops here' (as.c flushes the running expansions without assembling them)",
        "leaves about symbols occur in the packed well-formed skeletons only (ill-formed streams keep plain leaves); labels stand in front of ordinary lines, not in front of the IF/ELSE/ENDIF/SWITCH/CASE lines themselves",
        "environment stream: referenced symbols are defined in a line that is certainly assembled (in front of or behind the tests: forward references force further passes), SET symbols are only referenced after a definition in front; names with a path specification never exist below a -i directory (the manual's 'the search list is ignored' vs FSearch is C11's subject); a -i list is always given (without one the empty list makes FSearch look into the working directory); SWITCH constructs of this stream always have ELSECASE (the 'no CASE hit' warning is repeated in every pass and the error file does not separate the passes); symbols local to sections are not generated",
        "text replacements are observed through a line behind the construct that names the replaced identifier, an ordinary symbol of the same name (value FFFF) showing through when no replacement is in force; of a two-pass program (forward reference) the diagnostics of both passes are in one error file: an exact repetition is taken as one pass",
        "statements with drastic effects (BOMBS) stand only in blocks whose condition is a literal false expression (or behind a literal true one), so that the generator needs no evaluator of its own; they are plain leaves for model and spec",
        "the symbol probes are themselves conditional statements (live, depth 1) and use IFDEF/DEFINED/SYMTYPE/IFUSED as the observation of the symbol table"]
    return common.conclude(res, proof_problems, spec_fail, corr_fail, evaluations)


def replay(args):
    d = json.load(open(args.replay))
    print(json.dumps({k: (v if len(str(v)) < 3000 else str(v)[:3000] + "...") for k, v in d.items()}, indent=1))
    if "source" in d and d["source"].startswith("\t"):
        bdir = common.repo_build("hooks")
        with common.Workdir("c12r") as wd:
            open(os.path.join(wd, "exist.inc"), "w").write("; exists\n")
            open(os.path.join(wd, "lvinc.inc"), "w").write("\tdb INCM\n")
            rc, so, errs, pb = asl(bdir, wd, "r", d["source"])
            print("asl status =", rc, "stdout =", so.split(), "diagnostics =", errs)
            if pb:
                print("code file cells:", sorted((mem_of_pfile(pb) or {}).items()))
    if "request" in d:
        # (programs of the environment stream: the files are listed in `source`, the command line in its first line)
        print(common.driver("c12env" if str(d.get("tag", "")).startswith("env:") else "c12", [d["request"]])[0])
    return 0
