"""C14 target plug-in: Texas Instruments MSP430 (codemsp.c, CPU MSP430 - not the 430X extensions).

A statement is `<MNEMONIC>[.B|.W] <operand>[,<operand>]`; the driver gets `<size> (<kind> <reg> <value>)*`
(size 0 none / 1 .B / 2 .W / 3 another letter; kind 0 Rn, 1 x(Rn), 2 ADDR, 3 &ADDR, 4 @Rn, 5 @Rn+, 6 #N, 7 #>N).
Operand text (built-in names PC/SP/SR, `*Rn` for `@Rn`, number spelling, letter case) is chosen here.

Register operands are written literally or through a SYMBOLIC ALIAS: the source starts with the alias family `ALIAS_DEFS`
(for each of R0..R15, PC, SP, SR: REG, EQU, SET of the name, REG of the EQU, EQU of the REG, REG of the REG, EQU of EQU of
REG).  Which register an alias denotes is asked from the Lean SPEC (`Spec/Isa/IMsp430Reg.denote`, driver mode `c14reg`),
the MODEL of `DecodeReg` over the symbol table (`Model/Isa/IMsp430Reg`) is compared with it in the same call; the number
the SPEC gives is the register of the statement the existing instruction SPEC judges.

Enumerated: the SPEC's complete mnemonic list x size attribute x every addressing mode x every register (R3/CG2 and,
for pointer modes, R2 are refused) x values at 0, the field limits, limits +-1/+-2, the six constant-generator values and
their neighbours, random interior, far outside; PC-relative operands at several program counters; every jump distance
around both limits, every encodable jump offset (1024), odd distances, distances across the 64K wrap.
"""
from .c14 import Case, limits, num_intel

GENERATED = ["Isa_Msp430"]

SIG_ZERO_PC = "msp430-zero-disp-pc-source-becomes-indirect"
SIG_RLA_DIST = "msp430-rla-rlc-pcrel-displacement-sign-check"
SIG_POP_IMM = "msp430-pop-immediate-0-1-accepted"
SIG_RLA_ABS0 = "msp430-rla-rlc-abs-zero-becomes-const4"
SIG_REG_RADIX = "msp430-symbol-spelled-like-radix-number-taken-as-register"

# user symbols (plain integer EQUs) whose names are `R` + something ConstLongInt() reads as a number below 16 in another radix
RADIX_LABELS = [("rh", 0x1230), ("ro", 0x1232), ("rah", 0x1234), ("rfh", 0x1236), ("r0h", 0x1238), ("r7o", 0x123a), ("r1o", 0x123c), ("rch", 0x123e)]

K_REG, K_IDX, K_SYM, K_ABS, K_IND, K_INC, K_IMM, K_IMML = range(8)
CG = [0, 1, 2, 4, 8, -1]


def _alias_family():
    """[(alias, directive, right side)] in source order: every register name through every definition shape"""
    defs = []
    bases = ["r%d" % n for n in range(16)] + ["pc", "sp", "sr"]
    for b in bases:
        defs.append(("r_" + b, "reg", b.upper() if len(defs) % 3 == 0 else b))
        defs.append(("e_" + b, "equ", b))
        defs.append(("s_" + b, "set", b))
    for b in bases:
        defs.append(("re_" + b, "reg", "e_" + b))
        defs.append(("er_" + b, "equ", "R_" + b))
        defs.append(("rr_" + b, "reg", "r_" + b))
    for b in bases:
        defs.append(("eer_" + b, "equ", "er_" + b))
        defs.append(("rs_" + b, "reg", "s_" + b))
    return defs


ALIAS_DEFS = _alias_family()


class T:
    name = "msp430"
    cpus = [("MSP430", 0)]
    sentinel = 0xFF00
    gran = 1
    sample_tags = ("two-src", "jump-limits", "rla-pcrel", "one", "alias-src", "alias-dst")

    @staticmethod
    def header(cpuname):
        return ["\tcpu %s" % cpuname] + ["%s\t%s\t%s" % d for d in ALIAS_DEFS] + ["%s\tequ\t%d" % d for d in RADIX_LABELS]

    # register number -> alias names, filled from the Lean SPEC by resolve_aliases()
    aliases = None
    alias_problems = []

    @classmethod
    def resolve_aliases(cls):
        from .. import common
        defs = " ".join("%s=%s" % (a, r) for (a, _d, r) in ALIAS_DEFS)
        names = [a for (a, _d, _r) in ALIAS_DEFS]
        # also asked: literal names, an undefined name, a right side of the family used before its definition does not occur
        probes = names + ["r%d" % n for n in range(16)] + ["PC", "sp", "Sr", "r16", "r99", "nosuchreg"]
        ans = common.driver("c14reg", ["%s %s" % (n, defs) for n in probes])
        cls.aliases = {n: [] for n in range(16)}
        cls.alias_problems = []
        for n, a in zip(probes, ans):
            kv = dict(x.split("=", 1) for x in a.split() if "=" in x)
            if "spec" not in kv or kv.get("model") != kv.get("spec"):
                cls.alias_problems.append("MODEL of DecodeReg and SPEC denote differ on the name %s: %s" % (n, a))
                continue
            if n in names:
                if kv["spec"] == "none":
                    cls.alias_problems.append("SPEC: alias %s of the family denotes no register" % n)
                else:
                    cls.aliases[int(kv["spec"])].append(n)

    @classmethod
    def pre_problems(cls):
        return list(cls.alias_problems)

    @staticmethod
    def org(a):
        return "\torg %d" % a

    @staticmethod
    def sent(k):
        return "\tbyte %d" % (k % 100 + 1)

    @staticmethod
    def sent_bytes(k):
        return bytes([k % 100 + 1])

    # ---- operand text
    @classmethod
    def reg(cls, rng, n):
        if n >= 16:
            return "R%d" % (n + 83)            # R99..: not a register (an undefined symbol)
        if cls.aliases and cls.aliases[n] and rng.random() < 0.3:
            t = rng.choice(cls.aliases[n])
            return t.upper() if rng.random() < 0.3 else t
        if n < 3 and rng.random() < 0.4:
            t = ["PC", "SP", "SR"][n]
        else:
            t = "R%d" % n
        return t.lower() if rng.random() < 0.4 else t

    @classmethod
    def opd_alias(cls, rng, a, name):
        """operand `a` with its register written as the alias `name`"""
        k, r, v = a
        nm = name.upper() if rng.random() < 0.3 else name
        if k == K_REG:
            return nm
        if k == K_IDX:
            return "%s(%s)" % (num_intel(rng, v), nm)
        if k == K_IND:
            return ("@" if rng.random() < 0.8 else "*") + nm
        if k == K_INC:
            return ("@" if rng.random() < 0.8 else "*") + nm + "+"
        raise AssertionError(k)

    @classmethod
    def opd(cls, rng, a):
        k, r, v = a
        N = num_intel
        if k == K_REG:
            return cls.reg(rng, r)
        if k == K_IDX:
            return "%s(%s)" % (N(rng, v), cls.reg(rng, r))
        if k == K_SYM:
            return N(rng, v)
        if k == K_ABS:
            return "&" + N(rng, v)
        if k == K_IND:
            return ("@" if rng.random() < 0.8 else "*") + cls.reg(rng, r)
        if k == K_INC:
            return ("@" if rng.random() < 0.8 else "*") + cls.reg(rng, r) + "+"
        if k == K_IMM:
            return "#" + N(rng, v)
        if k == K_IMML:
            return "#>" + N(rng, v)
        raise AssertionError(k)

    ATTR = {0: "", 1: ".b", 2: ".w", 3: ".a"}

    # ---- operand variants
    @staticmethod
    def imm_values(rng, byte, few=False):
        lo, hi = (-128, 255) if byte else (-32768, 65535)
        s = set(CG) | {3, 5, 7, 9, 16, -2, 254, 255, 256, 65534, 65535, 65536, 127, 128, -128, -129}
        s |= set(limits(lo, hi, rng, 2 if few else 8, wide=not few))
        return sorted(s)

    @classmethod
    def src_variants(cls, rng, pc, byte, tier, few=False):
        out = []
        regs = list(range(17))
        for n in regs:
            out.append((K_REG, n, 0))
            out.append((K_IND, n, 0))
            if n != 0:
                out.append((K_INC, n, 0))     # raw `@PC+` (immediate mode without its datum) is outside the statement domain
            out.append((K_IDX, n, 0))
            out.append((K_IDX, n, rng.choice([2, -2, 1, 100, 32767, 65535, -32768])))
        for n in ([0, 1, rng.choice([4, 5, 6, 7, 8, 9, 10, 11, 12, 13, 14, 15])] if not few else [rng.choice([0, 1, 9])]):
            for x in limits(-32768, 65535, rng, 2 if few else 6, wide=not few):
                out.append((K_IDX, n, x))
        addrs = set(limits(0, 65535, rng, 2 if few else 6, wide=not few))
        addrs |= {(pc + d) % 65536 for d in (0, 2, 3, 4, 6, 0x7ffe, 0x8000, 0x8002, 0x8004, 0xfffe)}
        for a in sorted(addrs):
            out.append((K_SYM, 0, a))
        for a in limits(0, 65535, rng, 2 if few else 6, wide=not few):
            out.append((K_ABS, 0, a))
        for v in cls.imm_values(rng, byte, few):
            out.append((K_IMM, 0, v))
        for v in CG + [255, 65535, 5, 256, 65536, -129, -32769]:
            out.append((K_IMML, 0, v))
        return out

    @classmethod
    def dst_variants(cls, rng, pc, tier, few=False):
        out = [a for a in cls.src_variants(rng, pc, False, tier, few) if a[0] not in (K_IMM, K_IMML)]
        out += [(K_IMM, 0, v) for v in (0, 1, 2, 3, 4, 8, -1, 1000)] + [(K_IMML, 0, 0), (K_IMML, 0, 7)]
        return out

    @classmethod
    def cases(cls, rng, tier, forms):
        out = []
        quick = tier == "quick"
        cls.resolve_aliases()
        pcs = [0x0000, 0x0200, 0x7ffc, 0x8000, 0xc000, 0xfdf0] + [2 * rng.randrange(0, 0x7e00) for _ in range(2 if quick else 8)]

        def add(pc, mn, size, ops, tag):
            args = [size]
            for a in ops:
                args += list(a)
            m = mn.lower() if rng.random() < 0.5 else mn
            at = cls.ATTR[size]
            at = at.upper() if rng.random() < 0.5 else at
            sep = rng.choice([",", ", ", " ,"]) if rng.random() < 0.2 else ","
            out.append(Case("msp430", 0, pc, mn, args, "\t%s%s %s" % (m, at, sep.join(cls.opd(rng, a) for a in ops)), tag))

        plain_src = [(K_REG, 4, 0), (K_REG, 15, 0), (K_IDX, 6, 10), (K_SYM, 0, 0x1234), (K_ABS, 0, 0x220), (K_IND, 7, 0), (K_INC, 8, 0), (K_IMM, 0, 1), (K_IMM, 0, 100)]
        plain_dst = [(K_REG, 5, 0), (K_REG, 0, 0), (K_REG, 2, 0), (K_IDX, 9, 4), (K_IDX, 1, 65534), (K_SYM, 0, 0x4321), (K_ABS, 0, 0x100), (K_IDX, 0, 6), (K_IND, 10, 0)]
        # ---- class "alias": every alias of the family (each definition shape of each register name) in every register-bearing
        # operand kind and position of the two-operand and one-operand formats; the other operand literal or another alias
        def add_alias(pc, mn, size, ops, names, tag):
            args = [size]
            for a in ops:
                args += list(a)
            m = mn.lower() if rng.random() < 0.5 else mn
            at = cls.ATTR[size]
            txt = ",".join(cls.opd_alias(rng, a, nm) if nm else cls.opd(rng, a) for a, nm in zip(ops, names))
            out.append(Case("msp430", 0, pc, mn, args, "\t%s%s %s" % (m, at, txt), tag))

        two = [mn for (mn, form, _c) in forms if form == "two"]
        one = [mn for (mn, form, _c) in forms if form in ("one", "oneW")]
        dsts = [mn for (mn, form, _c) in forms if form in ("dst", "pop", "dstInc", "br")]
        kinds_src = [K_REG, K_IND, K_INC, K_IDX]
        for n in range(16):
            for nm in (cls.aliases[n] if cls.aliases else []):
                for k in kinds_src:
                    if k == K_INC and n == 0:
                        continue
                    x = rng.choice([2, -2, 4, 100, 254, 32767, -32768]) if k == K_IDX else 0
                    size = rng.choice([0, 0, 1, 2])
                    if two:
                        add_alias(rng.choice(pcs), rng.choice(two), size, [(k, n, x), rng.choice(plain_dst)], [nm, None], "alias-src")
                    if one and (quick is False or rng.random() < 0.5):
                        mn1 = rng.choice(one)
                        add_alias(rng.choice(pcs), mn1, 0 if rng.random() < 0.7 else 2, [(k, n, x)], [nm], "alias-one")
                for k in (K_REG, K_IDX):
                    x = rng.choice([2, -2, 4, 100, 254, 32767, -32768]) if k == K_IDX else 0
                    if two:
                        add_alias(rng.choice(pcs), rng.choice(two), rng.choice([0, 0, 1, 2]), [rng.choice(plain_src), (k, n, x)], [None, nm], "alias-dst")
                    if dsts and (quick is False or rng.random() < 0.5):
                        add_alias(rng.choice(pcs), rng.choice(dsts), rng.choice([0, 0, 1]), [(k, n, x)], [nm], "alias-emul")
                # alias on both sides
                m2 = rng.randrange(16)
                if two and cls.aliases and cls.aliases[m2]:
                    add_alias(rng.choice(pcs), rng.choice(two), 0, [(rng.choice(kinds_src[:2] + [K_IDX]), n, 6), (rng.choice([K_REG, K_IDX]), m2, 8)],
                              [nm, rng.choice(cls.aliases[m2])], "alias-both")
        # ---- class "label-like-register": an integer symbol as symbolic / absolute operand whose NAME reads like a register number
        for (nm, val) in RADIX_LABELS:
            for k in (K_SYM, K_ABS):
                t = ("&" if k == K_ABS else "") + (nm.upper() if rng.random() < 0.3 else nm)
                if two:
                    mn2 = rng.choice(two)
                    out.append(Case("msp430", 0, 0x200, mn2, [0, k, 0, val, K_REG, 5, 0], "\t%s %s,r5" % (mn2.lower(), t), "label-like-register"))
                    out.append(Case("msp430", 0, 0x200, mn2, [0, K_REG, 5, 0, k, 0, val], "\t%s r5,%s" % (mn2.lower(), t), "label-like-register"))
        first = {}
        for (mn, form, _mincpu) in forms:
            full = (not quick) or form not in first       # quick tier: the first mnemonic of a form gets the full operand set
            first.setdefault(form, mn)
            if form == "none":
                for size in (0, 1, 2, 3):
                    add(rng.choice(pcs), mn, size, [], "fixed")
                add(rng.choice(pcs), mn, 0, [(K_REG, 4, 0)], "argcnt")
            elif form == "two":
                for size in (0, 1, 2):
                    pc = rng.choice(pcs)
                    for a in cls.src_variants(rng, pc, size == 1, tier, few=not full):
                        add(pc, mn, size, [a, rng.choice(plain_dst)], "two-src")
                    pc = rng.choice(pcs)
                    for d in cls.dst_variants(rng, pc, tier, few=not full):
                        add(pc, mn, size, [rng.choice(plain_src), d], "two-dst")
                add(rng.choice(pcs), mn, 3, [plain_src[0], plain_dst[0]], "attr")
                add(rng.choice(pcs), mn, 0, [plain_src[0]], "argcnt")
                add(rng.choice(pcs), mn, 0, [plain_src[0], plain_dst[0], plain_dst[1]], "argcnt")
                add(rng.choice(pcs), mn, 0, [], "argcnt")
                if full:
                    # every source mode x every destination mode, PC-relative on both sides
                    pc = rng.choice(pcs)
                    for a in plain_src + [(K_IDX, 0, 8), (K_IDX, 5, 0), (K_IMM, 0, 4), (K_IMM, 0, -1), (K_IMML, 0, 1), (K_SYM, 0, (pc + 0x8002) % 65536)]:
                        for d in plain_dst + [(K_SYM, 0, (pc + 0x8006) % 65536), (K_SYM, 0, pc)]:
                            for size in (0, 1):
                                add(pc, mn, size, [a, d], "two-cross")
            elif form in ("one", "oneW", "br"):
                for size in (0, 1, 2):
                    pc = rng.choice(pcs)
                    for a in cls.src_variants(rng, pc, size == 1, tier, few=not full):
                        add(pc, mn, size, [a], "br" if form == "br" else "one")
                add(rng.choice(pcs), mn, 3, [plain_src[0]], "attr")
                add(rng.choice(pcs), mn, 0, [], "argcnt")
                add(rng.choice(pcs), mn, 0, [plain_src[0], plain_dst[0]], "argcnt")
            elif form in ("dst", "pop", "dstInc"):
                for size in (0, 1, 2):
                    pc = rng.choice(pcs)
                    for d in cls.dst_variants(rng, pc, tier, few=not full):
                        add(pc, mn, size, [d], {"dst": "emul-dst", "pop": "pop", "dstInc": "rla-rlc"}[form])
                add(rng.choice(pcs), mn, 3, [plain_dst[0]], "attr")
                add(rng.choice(pcs), mn, 0, [], "argcnt")
                add(rng.choice(pcs), mn, 0, [plain_dst[0], plain_dst[1]], "argcnt")
                if form == "dstInc":
                    # PC-relative operand: source displacement d, destination displacement d-2 - every sign / wrap border
                    for pc in pcs:
                        for d in (0, 1, 2, 3, 4, 0x7ffe, 0x7fff, 0x8000, 0x8001, 0x8002, 0x8003, 0xfffd, 0xfffe, 0xffff, rng.randrange(0, 65536)):
                            add(pc, mn, rng.choice([0, 1, 2]), [(K_SYM, 0, (pc + 2 + d) % 65536)], "rla-pcrel")
                            if pc == pcs[1]:
                                add(pc, mn, rng.choice([0, 1]), [(K_IDX, 0, d if rng.random() < 0.5 or d < 32768 else d - 65536)], "rla-pcrel")
                        add(pc, mn, 0, [(K_IND, 0, 0)], "rla-pcrel")
                    for a in (0, 1, 2, 3, 4, 8, 0x8000, 0xffff):
                        add(rng.choice(pcs), mn, rng.choice([0, 1]), [(K_ABS, 0, a)], "rla-abs")
            elif form == "jump":
                for pc in (pcs if full else pcs[:3]):
                    ds = set(range(-1034, -1014)) | set(range(1012, 1034)) | {0, -2, 2, 1, -1, 3, 511, 512, -512, 32766, -32768, 32767, 40000, -40000}
                    for d in sorted(ds):
                        t = pc + 2 + d
                        add(pc, mn, rng.choice([0, 0, 2]), [(K_SYM, 0, t)], "jump-limits")          # target may leave 0..65535 (range error)
                        if not 0 <= t <= 65535:
                            add(pc, mn, 0, [(K_SYM, 0, t % 65536)], "jump-wrap")                    # the same distance across the 64K wrap
                for size in (1, 3):
                    add(pcs[1], mn, size, [(K_SYM, 0, pcs[1] + 10)], "attr")
                add(pcs[1], mn, 0, [], "argcnt")
                add(pcs[1], mn, 0, [(K_SYM, 0, 0x210), (K_SYM, 0, 0x220)], "argcnt")
                for a in [(K_REG, 5, 0), (K_IMM, 0, 0x210), (K_IND, 5, 0), (K_INC, 5, 0), (K_IDX, 5, 2)]:
                    add(pcs[1], mn, 0, [a], "jump-operand-kind")
                if full:
                    # every encodable offset (1024 word offsets) and every odd distance between them
                    for pc in ([0x8000] if quick else [0x0000, 0x8000, 0xfdf0]):
                        for d in range(-1030, 1030):
                            add(pc, mn, 0, [(K_SYM, 0, (pc + 2 + d) % 65536)], "jump-all-offsets")
            else:
                raise AssertionError("msp430: unknown operand form %s of the spec" % form)
        if not quick:
            # every 16-bit value for the immediate, index, absolute and symbolic fields of one instruction each, every jump target
            for v in range(-32770, 65540, 1):
                out.append(Case("msp430", 0, 0x200, "MOV", [0, K_IMM, 0, v, K_REG, 5, 0], "\tmov #%d,r5" % v, "imm16-all-values"))
            for v in range(-130, 258):
                out.append(Case("msp430", 0, 0x200, "CMP", [1, K_IMM, 0, v, K_REG, 5, 0], "\tcmp.b #%d,r5" % v, "imm8-all-values"))
            for v in range(-32770, 65540, 3):
                out.append(Case("msp430", 0, 0x200, "ADD", [0, K_IDX, 7, v, K_IDX, 8, v], "\tadd %d(r7),%d(r8)" % (v, v), "index-values"))
                out.append(Case("msp430", 0, 0x8000, "RLA", [0, K_SYM, 0, v], "\trla %d" % v, "rla-all-targets"))
            for v in range(-2, 65538):
                out.append(Case("msp430", 0, 0x4000, "JNE", [0, K_SYM, 0, v], "\tjne %d" % v, "jump-all-targets"))
                out.append(Case("msp430", 0, 0xc000, "BIS", [1, K_SYM, 0, v, K_ABS, 0, v], "\tbis.b %d,&%d" % (v, v), "sym-abs-all-values"))
        return out

    @staticmethod
    def sig(case, kv):
        a = case.args
        ops = [tuple(a[i:i + 3]) for i in range(1, len(a) - 2, 3)]
        mn = case.mn
        if case.tag == "label-like-register":
            return SIG_REG_RADIX
        if mn in ("RLA", "RLC") and len(ops) == 1:
            k, r, v = ops[0]
            if k == K_ABS and v == 0:
                return SIG_RLA_ABS0
            d = None
            if k == K_SYM:
                d = (v - (case.pc + 2)) % 65536
            elif k == K_IDX and r == 0:
                d = v % 65536
            elif k == K_IND and r == 0:
                d = 0
            if d in (0, 1, 0x8000, 0x8001):
                return SIG_RLA_DIST
        if mn == "POP" and len(ops) == 1 and ops[0][0] == K_IMM and ops[0][2] in (0, 1):
            return SIG_POP_IMM
        # source-position operand `0(PC)`
        src_first = ("MOV", "ADD", "ADDC", "SUBC", "SUB", "CMP", "DADD", "BIT", "BIC", "BIS", "XOR", "AND", "RRC", "RRA", "PUSH", "SWPB", "CALL", "SXT", "BR")
        if ops and ops[0] == (K_IDX, 0, 0) and mn in src_first:
            return SIG_ZERO_PC
        return None
