"""C16, the "into an INCLUDE file" clause (added after seeded change C16-i was missed): moving a run of source lines into an INCLUDE file
(or a parameterless macro) must not change the code in situations where the INCLUDE line itself would act as a statement.

(1) generated source TREES on the four targets whose instruction words must start on an even address and get a pad byte in front otherwise
    (68000 PADDING ON, MSP430, TMS9900, AVR with a byte-organised code segment): byte data of odd and even length, instruction words, jumps and
    16-bit data objects that refer to the text's labels (forward and backward), reserved bytes / reserved words (DS.B / DS.W / BSS / RES: the pad
    byte in front of DS.W is only reserved), labels on lines of their own (also directly in front of a statement with a label of its own: only the most recent label is moved), labels on the statement, on the
    INCLUDE line, on the macro call, blank / comment-only lines, statements that place nothing (`lab EQU *`, PADDING ON, SAVE / RESTORE and
    IF 1 / ENDIF opened in one file and closed in another), include files and parameterless macros nested up to depth 3, empty include files,
    macro definitions at the top of the text or directly in front of the call (also inside include files), INCLUDE lines spelled with label,
    comment, letter case, continuation line.  Every tree is assembled as it is AND as the flat text "as if inserted with an editor";
      (C) both images against Spec/InclPad.image of the flat text (the PADDING paragraph of the manual as a layout function),
      (B) both against Model/InclPad (asmlabel.c LabelReset/LabelHandle/LabelModify, InsertPadding, Produce_Code's ResetLastLabel),
      (A) the driver evaluates the instances of C16_include_immaterial (tree = flat on the model) and C16_padding_labels (flat model = SPEC).
(2) `cut_into_includes`: used by the corpus sweep of c16.py instead of "the whole text in one include file": the rewritten golden source is cut
    at random statement boundaries into include files (nested up to 3; preferably directly behind a label-only line, in front of a parallel
    `||` instruction, behind SAVE / ON-OFF statements), oracle = the recorded .ori.
"""
import os
import shutil

from .. import common

TARGETS = {
    "m68k": dict(head=["\tcpu\t68000", "\tpadding\ton", "\torg\t4096"], org=4096, byte="dc.b", insn="nop", jump="jmp\t%s.w", word="dc.w\t%s", pc="*", res="ds.b\t%d", resw="ds.w\t1"),
    "msp": dict(head=["\tcpu\tmsp430", "\tpadding\ton", "\torg\t4096"], org=4096, byte="byte", insn="nop", jump="br\t#%s", word="word\t%s", pc="$", res="bss\t%d", resw=None),
    "tms": dict(head=["\tcpu\ttms9900", "\tpadding\ton", "\torg\t4096"], org=4096, byte="byte", insn="rtwp", jump="b\t@%s", word="word\t%s", pc="$", res="bss\t%d", resw=None),
    "avr": dict(head=["\tcpu\tatmega16:codesegsize=0", "\tpadding\ton", "\torg\t512"], org=512, byte="db", insn="nop", jump="lds\tr16,%s", word=None, pc="*", res=None, resw=None)      # AVR RES is itself word-aligned: not used,
}

BLANKS = ["", "\t", "   ", "; c16 comment", " \t; 'x", "\t;;"]


class Gen:
    """one source tree; nodes: dict(k='line', tok=..., ...) | dict(k='incl'|'mac', lab=.., body=[..])"""

    def __init__(self, rng, tgt, allow_dbl):
        self.rng = rng
        self.tgt = tgt
        self.t = TARGETS[tgt]
        self.allow_dbl = allow_dbl
        self.nlab = 0
        self.prev_label_only = False
        self.budget = rng.randrange(8, 26)
        self.use_if = rng.random() < 0.35          # IF 1 / ENDIF across file boundaries: then no macro nodes
        self.if_depth = 0
        self.save_depth = 0
        self.refs = []
        self.stats = dict(label_then_wrapper=0, label_on_wrapper=0, wrapper_starts_aligned=0, if_across=0, save_across=0, macros=0, includes=0, depth=0, reservations=0)

    def newlab(self):
        self.nlab += 1
        return self.nlab - 1

    def own_label(self, p):
        if self.rng.random() < p and (self.allow_dbl or not self.prev_label_only):
            return self.newlab()
        return None

    def line(self, depth, in_mac):
        rng = self.rng
        r = rng.random()
        if r < 0.24:
            n = rng.choice([1, 1, 1, 2, 3])
            lab = self.own_label(0.2)
            self.prev_label_only = False
            if self.t["res"] and rng.random() < 0.2:
                # reserved space instead of data: the location counter moves, nothing is written (DontPrint)
                self.stats["reservations"] += 1
                if self.t["resw"] and rng.random() < 0.4:
                    return dict(k="line", kind="s", lab=lab)
                return dict(k="line", kind="r", lab=lab, n=n)
            return dict(k="line", kind="b", lab=lab, vals=[rng.randrange(256) for _ in range(n)])
        if r < 0.44:
            self.prev_label_only = True
            return dict(k="line", kind="l", lab=self.newlab())
        if r < 0.58:
            lab = self.own_label(0.25)
            self.prev_label_only = False
            return dict(k="line", kind="n", lab=lab)
        if r < 0.78:
            lab = self.own_label(0.25)
            self.prev_label_only = False
            kind = "w" if (self.t["word"] and rng.random() < 0.5) else "j"
            d = dict(k="line", kind=kind, lab=lab, target=None)
            self.refs.append(d)
            return d
        if r < 0.88:
            return dict(k="line", kind="e", text=rng.choice(BLANKS))
        # a statement that places nothing
        self.prev_label_only = False
        c = rng.random()
        if c < 0.3:
            return dict(k="line", kind="o", lab=self.newlab(), text=None)
        if c < 0.5 and self.use_if and not in_mac:
            if self.if_depth and rng.random() < 0.5:
                self.if_depth -= 1
                return dict(k="line", kind="o", lab=None, text="\tendif", ifd=-1, depth=depth)
            self.if_depth += 1
            return dict(k="line", kind="o", lab=None, text="\tif\t1", ifd=1, depth=depth)
        if c < 0.8:
            if self.save_depth and rng.random() < 0.5:
                self.save_depth -= 1
                return dict(k="line", kind="o", lab=None, text="\trestore", svd=-1, depth=depth)
            self.save_depth += 1
            return dict(k="line", kind="o", lab=None, text="\tsave", svd=1, depth=depth)
        return dict(k="line", kind="o", lab=None, text="\tpadding\ton")

    def body(self, depth, in_mac, n):
        rng = self.rng
        out = []
        while n > 0 and self.budget > 0:
            n -= 1
            self.budget -= 1
            if depth < 3 and rng.random() < (0.22 if depth == 0 else 0.15):
                # plant: odd address + label on a line of its own directly in front of the INCLUDE / macro call
                if rng.random() < 0.6:
                    self.prev_label_only = False
                    out.append(dict(k="line", kind="b", lab=None, vals=[rng.randrange(256)]))
                    if rng.random() < 0.7:
                        out.append(dict(k="line", kind="l", lab=self.newlab()))
                        self.prev_label_only = True
                        self.stats["label_then_wrapper"] += 1
                        if rng.random() < 0.3:
                            out.append(dict(k="line", kind="e", text=rng.choice(BLANKS)))
                mac = (not self.use_if) and rng.random() < 0.3
                lab = None
                if rng.random() < 0.3 and (self.allow_dbl or not self.prev_label_only):
                    lab = self.newlab()
                    self.prev_label_only = True
                    self.stats["label_on_wrapper"] += 1
                node = dict(k="mac" if mac else "incl", lab=lab, body=[])
                self.stats["macros" if mac else "includes"] += 1
                self.stats["depth"] = max(self.stats["depth"], depth + 1)
                k = rng.choice([0, 1, 2, 3, 4, 6])
                if k and rng.random() < 0.6:
                    # the file starts with the word-aligned statement the label is meant to name
                    while rng.random() < 0.25:
                        node["body"].append(dict(k="line", kind="e", text=rng.choice(BLANKS)))
                    kind = rng.choice(["n", "j", "w"] if self.t["word"] else ["n", "j"])
                    d = dict(k="line", kind=kind, lab=self.own_label(0.15), target=None)
                    self.prev_label_only = False
                    if kind != "n":
                        self.refs.append(d)
                    node["body"].append(d)
                    self.stats["wrapper_starts_aligned"] += 1
                    k -= 1
                node["body"] += self.body(depth + 1, in_mac or mac, k)
                out.append(node)
            else:
                out.append(self.line(depth, in_mac))
        return out

    def tree(self):
        rng = self.rng
        top = [dict(k="line", kind="b", lab=None, vals=[rng.randrange(256) for _ in range(rng.choice([1, 2]))])]
        top += self.body(0, False, 1000)
        # close what is still open (statements of the main file)
        while self.if_depth:
            self.if_depth -= 1
            top.append(dict(k="line", kind="o", lab=None, text="\tendif", ifd=-1, depth=0))
        while self.save_depth:
            self.save_depth -= 1
            top.append(dict(k="line", kind="o", lab=None, text="\trestore", svd=-1, depth=0))
        if self.nlab == 0:
            top.append(dict(k="line", kind="l", lab=self.newlab()))
        # the text ends with a byte, so that reserved space is never at the end of the image
        top.append(dict(k="line", kind="b", lab=None, vals=[rng.randrange(1, 256)]))
        for d in self.refs:
            d["target"] = rng.randrange(self.nlab)
        # IF / SAVE that are closed at another depth than they were opened
        for key, stat in (("ifd", "if_across"), ("svd", "save_across")):
            stack = []
            for ln in flat_lines(top):
                if ln.get(key) == 1:
                    stack.append(ln["depth"])
                elif ln.get(key) == -1 and stack:
                    if stack.pop() != ln["depth"]:
                        self.stats[stat] += 1
        return top


def flat_lines(nodes):
    for nd in nodes:
        if nd["k"] == "line":
            yield nd
        else:
            if nd["lab"] is not None:
                yield dict(k="line", kind="l", lab=nd["lab"])
            for x in flat_lines(nd["body"]):
                yield x


def labtok(l):
    return "-" if l is None else str(l)


def tokens(nodes):
    out = []
    for nd in nodes:
        if nd["k"] == "line":
            kd = nd["kind"]
            if kd == "e":
                out.append("e")
            elif kd == "l":
                out.append("l:%d" % nd["lab"])
            elif kd == "b":
                out.append("b:%s:%s" % (labtok(nd["lab"]), bytes(nd["vals"]).hex()))
            elif kd == "n":
                out.append("n:%s" % labtok(nd["lab"]))
            elif kd == "r":
                out.append("r:%s:%d" % (labtok(nd["lab"]), nd["n"]))
            elif kd == "s":
                out.append("s:%s" % labtok(nd["lab"]))
            elif kd in ("j", "w"):
                out.append("%s:%s:%d" % (kd, labtok(nd["lab"]), nd["target"]))
            else:
                out.append("o:%s" % labtok(nd["lab"]))
        else:
            out.append("%s:%s" % ("m" if nd["k"] == "mac" else "i", labtok(nd["lab"])))
            out += tokens(nd["body"])
            out.append(")")
    return out


def parse_tokens(toks):
    """inverse of tokens(): hand-written regression programs of corpus/C16/incl_regress.txt"""
    def body(i, depth):
        out = []
        while i < len(toks):
            t = toks[i]
            if t == ")":
                return out, i + 1
            f = t.split(":")
            lab = None if len(f) < 2 or f[1] == "-" else int(f[1])
            i += 1
            if f[0] in ("i", "m"):
                b, i = body(i, depth + 1)
                out.append(dict(k="mac" if f[0] == "m" else "incl", lab=lab, body=b))
            elif f[0] == "e":
                out.append(dict(k="line", kind="e", text=""))
            elif f[0] == "b":
                out.append(dict(k="line", kind="b", lab=lab, vals=list(bytes.fromhex(f[2]))))
            elif f[0] in ("j", "w"):
                out.append(dict(k="line", kind=f[0], lab=lab, target=int(f[2])))
            elif f[0] == "r":
                out.append(dict(k="line", kind="r", lab=lab, n=int(f[2])))
            elif f[0] == "o":
                out.append(dict(k="line", kind="o", lab=lab, text="\tpadding\ton"))
            else:
                out.append(dict(k="line", kind=f[0], lab=lab))
        return out, i
    return body(0, 0)[0]


def corpus_programs():
    f = os.path.join(common.VERIF, "corpus", "C16", "incl_regress.txt")
    out = []
    if os.path.exists(f):
        for l in open(f):
            l = l.strip()
            if l and not l.startswith("#"):
                w = l.split()
                out.append((w[0], parse_tokens(w[1:])))
    return out


def labname(l):
    return "L%d%s" % (l, ["", "x", "_q"][l % 3])


def render_line(rng, t, nd):
    kd = nd["kind"]
    if kd == "e":
        return nd["text"]
    if kd == "l":
        return labname(nd["lab"]) + rng.choice([":", "", ":\t", " ", ":\t; on its own"])
    lab = ""
    if nd.get("lab") is not None:
        lab = labname(nd["lab"]) + rng.choice([":", ""])
    if kd == "b":
        return "%s\t%s\t%s" % (lab, t["byte"], ",".join(str(v) for v in nd["vals"]))
    if kd == "n":
        return "%s\t%s" % (lab, t["insn"])
    if kd == "r":
        return "%s\t%s" % (lab, t["res"] % nd["n"])
    if kd == "s":
        return "%s\t%s" % (lab, t["resw"])
    if kd == "j":
        return "%s\t%s" % (lab, t["jump"] % labname(nd["target"]))
    if kd == "w":
        return "%s\t%s" % (lab, t["word"] % labname(nd["target"]))
    if nd.get("lab") is not None:
        return "%s\tequ\t%s" % (labname(nd["lab"]), t["pc"])
    return nd["text"]


def render_tree(rng, tgt, nodes, flat=False):
    """files of the tree spelling (or the flat spelling: wrappers dissolved, their labels on lines of their own)"""
    t = TARGETS[tgt]
    files = {}
    counter = [0]
    top_defs = []

    def emit(nodes, out):
        for nd in nodes:
            if nd["k"] == "line":
                out.append(render_line(rng, t, nd))
                continue
            if flat:
                if nd["lab"] is not None:
                    out.append(labname(nd["lab"]) + rng.choice([":", ""]))
                emit(nd["body"], out)
                continue
            counter[0] += 1
            k = counter[0]
            lab = "" if nd["lab"] is None else labname(nd["lab"]) + rng.choice([":", ""])
            body = []
            emit(nd["body"], body)
            if nd["k"] == "incl":
                fn = "c16i%d.inc" % k
                files[fn] = "".join(l + "\n" for l in body)
                sp = rng.random()
                if sp < 0.5:
                    out.append('%s\tinclude\t"%s"' % (lab, fn))
                elif sp < 0.65:
                    out.append('%s\tINCLUDE %s\t; the file' % (lab, fn))
                elif sp < 0.8:
                    out.append('%s\tInclude\t\\' % lab)
                    out.append('\t"%s"' % fn)
                else:
                    out.append('%s  include "%s"   ' % (lab, fn))
            else:
                mn = "c16m%d" % k
                df = ["%s\tmacro\t{GLOBALSYMBOLS}" % mn] + body + ["\tendm"]
                if rng.random() < 0.5:
                    top_defs.extend(df)
                else:
                    out.extend(df)          # directly in front of the call, behind a possibly pending label
                out.append("%s\t%s" % (lab, rng.choice([mn, mn.upper()])))

    main = []
    emit(nodes, main)
    files["w.asm"] = "".join(l + "\n" for l in t["head"] + top_defs + main)
    return files


def run_part(c16, args, bdir, wd, drv_ok):
    spec_fail, corr_fail, problems, samples = [], [], [], []
    dist = dict(programs=0, runs=0, by_target={}, dbl_programs=0, label_then_wrapper=0, label_on_wrapper=0,
                wrapper_starts_aligned=0, if_across=0, save_across=0, macros=0, includes=0, reservations=0, max_depth=0, plain_differs=0)
    distinct = set()
    evaluations = 0
    d = os.path.join(wd, "c16incl")

    def image(files):
        shutil.rmtree(d, ignore_errors=True)
        os.makedirs(d)
        for fn, t in files.items():
            open(os.path.join(d, fn), "wb").write(t.encode("latin-1"))
        return c16.build_image(bdir, d, "w", "", [d])

    nprog = 100 if args.tier == "quick" else 2500
    progs = []
    for tgt, tree in corpus_programs():
        g = Gen(common.rng_for(args.seed, "C16/incl-corpus"), tgt, True)
        progs.append((tgt, g, tree))
    dist["corpus_programs"] = len(progs)
    for k in range(nprog):
        rng = common.rng_for(args.seed, "C16/incl/%d" % k)
        tgt = ["m68k", "msp", "tms", "avr"][k % 4]
        g = Gen(rng, tgt, allow_dbl=(rng.random() < 0.5))
        tree = g.tree()
        progs.append((tgt, g, tree))
    reqs = ["%s %d %s" % (tgt, TARGETS[tgt]["org"], " ".join(tokens(tree))) for tgt, g, tree in progs]
    ans = common.driver("c16incl", reqs) if drv_ok else [None] * len(progs)
    for k, ((tgt, g, tree), a) in enumerate(zip(progs, ans)):
        rng = common.rng_for(args.seed, "C16/incl-render/%d" % k)
        dist["programs"] += 1
        dist["by_target"][tgt] = dist["by_target"].get(tgt, 0) + 1
        for key in ("label_then_wrapper", "label_on_wrapper", "wrapper_starts_aligned", "if_across", "save_across", "macros", "includes", "reservations"):
            dist[key] += g.stats[key]
        dist["max_depth"] = max(dist["max_depth"], g.stats["depth"])
        kv = dict(x.split("=", 1) for x in a.split()) if a and "=" in a else None
        if a is not None and kv is None:
            problems.append("c16incl: driver rejected a generated request: %s -> %s" % (reqs[k][:200], a))
        spec = model = None
        dbl = False
        if kv:
            un = lambda h: None if h == "undef" else (b"" if h == "-" else bytes.fromhex(h))
            spec, model = un(kv["spec"]), un(kv["model"])
            dbl = kv["dbl"] == "1"
            if kv["thm"] != "1":
                problems.append("c16incl: model over the tree differs from model over the flat text (instance of C16_include_immaterial false): %s -> %s" % (reqs[k], a))
            if kv["eq"] != "1":
                problems.append("c16incl: flat model differs from the SPEC layout (instance of C16_padding_labels false): %s -> %s" % (reqs[k], a))
        dist["dbl_programs"] += 1 if dbl else 0
        variants = [("flat", render_tree(rng, tgt, tree, flat=True)), ("tree", render_tree(rng, tgt, tree))]
        imgs = {}
        for tag, files in variants:
            img, diag = image(files)
            imgs[tag] = img
            evaluations += 1
            dist["runs"] += 1
            distinct.add(hash(tuple(sorted(files.items()))))
            got = "no image" if img is None else img.hex()
            if spec is not None and img != spec:
                f = dict(tag="incl/%d/%s" % (k, tag), test="generated", flags="", whole="to-include" if tag == "tree" else "plain",
                         why="%s spelling of a generated %s text (labels in front of padded objects%s): image differs from the layout of the flat text "
                             "(Spec/InclPad: PADDING paragraph of the manual): expected %s got %s %s"
                             % ("INCLUDE/macro" if tag == "tree" else "flat", tgt, ", lines moved into INCLUDE files / parameterless macros" if tag == "tree" else "",
                                spec.hex(), got, diag[:300]),
                         expect=spec.hex(), program=reqs[k], files=files, incdir=".")
                if tag == "flat":
                    dist["plain_differs"] += 1
                spec_fail.append(f)
            if model is not None and img != model:
                corr_fail.append(dict(tag="incl/%d/%s" % (k, tag), why="Model/InclPad.lean and the real assembler disagree", program=reqs[k],
                                      model=model.hex(), real=got, diag=diag[:200], files=files))
        if spec is None and imgs["flat"] != imgs["tree"]:
            spec_fail.append(dict(tag="incl/%d/tree-vs-flat" % k, test="generated", flags="", whole="to-include",
                                  why="INCLUDE/macro spelling and flat spelling of a generated text give different images",
                                  plain=variants[0][1]["w.asm"].split("\n")[:-1], files=variants[1][1], incdir="."))
        if k < 2:
            samples.append(dict(kind="include-tree", target=tgt, program=reqs[k], files=variants[1][1], image=(imgs["tree"] or b"").hex(), driver=a))
    return dict(spec_fail=spec_fail, corr_fail=corr_fail, problems=problems, dist=dist, samples=samples, evaluations=evaluations, distinct=distinct)


# ------------------------------------------------------------------------------------------------
# golden sources cut into include files

IF_OPEN = {"IF", "IFDEF", "IFNDEF", "IFUSED", "IFNUSED", "IFEXIST", "IFNEXIST", "IFB", "IFNB", "IFSIZE", "IFNSIZE", "SWITCH", "SELECT"}
IF_MID = {"ELSE", "ELSEIF", "CASE", "ELSECASE"}
IF_CLOSE = {"ENDIF", "ENDCASE", "ENDSELECT"}
AFTER_INTERESTING = {"SAVE", "RESTORE", "PADDING", "BIGENDIAN", "PACKING", "SUPMODE", "SEGMENT", "PHASE", "DEPHASE", "LISTING", "ASSUME", "DDIR"}


def cut_into_includes(c16, rng, text, eol, stats):
    """text -> files {name: text}; the main file's text is returned under key None.  Cuts only at statement boundaries outside macro / repetition
    bodies, never behind a continuation line; a run that goes into a file is balanced in its conditional-assembly structure (an INCLUDE line in a
    skipped region is not executed, so IF/ELSE/ENDIF lines of its file would not be seen)."""
    pl = c16.split_lines(text)
    lines = [l for l, _ in pl]
    n = len(lines)
    frozen, noinsert, _names = c16.classify(lines)
    ops = [c16.op_upper(l) for l in lines]
    legal = [not noinsert[i] for i in range(n)] + [True]
    # the text behind an END statement is not read: keep END and what follows in the main file
    for i, (opu, a) in enumerate(ops):
        if opu == "END":
            for j in range(i, n + 1):
                legal[j] = False
            break
    # conditional depth in front of every line; mids[i] = line i is ELSE-like
    depth = [0] * (n + 1)
    dcur = 0
    for i, (opu, a) in enumerate(ops):
        depth[i] = dcur
        if opu in IF_OPEN:
            dcur += 1
        elif opu in IF_CLOSE:
            dcur -= 1
    depth[n] = dcur
    interesting = []
    why_of = {}
    for i in range(1, n):
        if not legal[i]:
            continue
        opu, a = ops[i - 1]
        prev_label_only = a["op"] is None and a["label"] is not None and a["label"][1] > a["label"][0]
        nxt = ops[i][0]
        why = ("behind_label_only_line" if prev_label_only else "in_front_of_parallel_instruction" if lines[i].lstrip(" \t").startswith("||")
               else "next_to_state_statement" if (opu in AFTER_INTERESTING or nxt in AFTER_INTERESTING) else None)
        if why:
            interesting.append(i)
            why_of[i] = why
    files = {}
    counter = [0]

    def balanced(a, b):
        d0 = depth[a]
        if depth[b] != d0:
            return False
        for i in range(a, b):
            opu = ops[i][0]
            if depth[i] < d0 or (depth[i] == d0 and (opu in IF_MID or opu in IF_CLOSE)):
                return False
        return True

    def pick(lo, hi):
        """a legal, balanced run [a, b) inside [lo, hi)"""
        for _ in range(12):
            cands = [i for i in interesting if lo <= i < hi]
            if cands and rng.random() < 0.5:
                a = rng.choice(cands)
            else:
                a = rng.randrange(lo, hi)
            span = rng.choice([1, 2, 3, 5, 10, 40, 200, 1000])
            b = min(hi, a + span)
            while a < hi and not legal[a]:
                a += 1
            while b <= hi and b < n + 1 and not legal[b]:
                b += 1
            if a < b <= hi and legal[a] and legal[b] and balanced(a, b):
                if a in why_of:
                    stats["cut_" + why_of[a]] = stats.get("cut_" + why_of[a], 0) + 1
                return a, b
        return None

    def build(lo, hi, level):
        """text of lines [lo, hi) with up to four runs moved into include files"""
        runs = []
        if hi - lo >= 1 and level < 3:
            for _ in range(rng.choice([1, 1, 2, 3, 4]) if level == 0 else rng.choice([0, 1, 2])):
                r = pick(lo, hi)
                if r and all(r[1] <= x[0] or x[1] <= r[0] for x in runs):
                    runs.append(r)
        runs.sort()
        out = []
        pos = lo
        for a, b in runs:
            out += [lines[i] + (pl[i][1] or eol) for i in range(pos, a)]
            counter[0] += 1
            fn = "c16cut%d.inc" % counter[0]
            files[fn] = build(a, b, level + 1)
            stats["cut_files"] = stats.get("cut_files", 0) + 1
            stats["cut_max_level"] = max(stats.get("cut_max_level", 0), level + 1)
            sp = rng.random()
            if sp < 0.6:
                out.append('\tinclude\t"%s"' % fn + eol)
            elif sp < 0.8:
                out.append('\tINCLUDE "%s"\t; c16 cut' % fn + eol)
            else:
                out.append('\tinclude\t\\' + eol + '\t"%s"' % fn + eol)
            pos = b
        out += [lines[i] + (pl[i][1] or eol) for i in range(pos, hi)]
        return "".join(out)

    if n == 0:
        return None
    main = build(0, n, 0)
    if not files:
        return None
    files[None] = main
    return files
