"""C02, part "channels and passes" (Model/ErrChan.lean, Spec/Report.lean, Props/C02_Chan.lean, driver mode c02x).

Input classes this part generates (all absent from the base stream of c02.py, which sends every diagnostic of a
single-pass Z80 source to `-E !2`):

* listing to the console (`-l`) / to a file (`-L`, `-olist`) x `LISTING OFF|ON|NOSKIPPED|PURECODE` regions and
  `SAVE`/`RESTORE` of the listing state x erroneous lines, numbered warnings, `ERROR`/`WARNING`/`FATAL`, macro-internal
  diagnostics and diagnostics raised in include files, inside and outside the unlisted regions x error channel on stderr / stdout (`-E !1`) / a named file /
  `<source>.log` (bare `-E`) x `-q`, `-Werror`, `-w`, `-maxerrors`, `-x`, `-x -x`, `-n`, `-gnuerrors`, `-t`, 1..3 files per run;
* multi-pass programs (6502: relative branches around the +127/-128 limits over code whose size depends on forward
  referenced zero-page symbols; 8048: conditional jumps around 256-byte page boundaries) in which jump errors
  1370/1910 are raised only in an intermediate pass, in every pass, or never, plus undefined symbols (error only in
  pass 2), planted diagnostics and listing regions, with and without `-Y`, several files per run;
* the filters of `WrXErrorPos` in front of the counting: `EXPECT n,...` / `ENDEXPECT` blocks around branches whose jump
  error is transient / permanent / absent (backward and forward, all four targets), around planted numbered diagnostics
  (matching, non-matching, several, doubled numbers, 2130 itself), nested / lone / unclosed blocks, crossed with `-w`
  (expected warnings), `-Y` and moving labels behind the block, `-Werror`, `-maxerrors`, listing regions.

For every run: the observation (exit status, code files, messages per stream and - where `PASS n` markers share the
stream - per pass, console summary, listing-file summary and messages) is judged by Spec/Report.lean (driver, `rs=`)
and compared field by field with Model/ErrChan.lean (`m=`)."""
import os
import re
from collections import Counter

from .. import common

PASS_CAP = 30
JMP_TEXT = ("jump distance too big", "jump target not on same page")   # doc/error-messages.md 1370, 1910
JMP_NUMS = ("1370", "1910")

# ----------------------------------------------------------------------------------------------
# rendering of the model's statement language

CPU = {
    "6502": dict(
        head="\tcpu 6502\n",
        org="\torg %d\n",
        macros="merr\tmacro\n\tbar\n\tendm\nmwarn\tmacro\n\trmb 0\n\tendm\n",
        Dw=["\tdfs 0", "\trmb 0", "\tmwarn"],
        De=[("\tfoo%d", 1200), ("\tlda #300+%d", 1320), ("\tbyt 300+%d", 1320), ('\terror "boom%d"', None), ("\tmerr", 1110), ("\tlda 65536+%d", 1320)],
        nop="\tnop", res="\tdfs %d", load="\tlda s%d", br="\tbne s%d"),
    "6811": dict(          # the manual's own example of a transient branch error (beq over `ldd Var`)
        head="\tcpu 6811\n",
        org="\torg %d\n",
        macros="merr\tmacro\n\tbar\n\tendm\nmwarn\tmacro\n\trmb 0\n\tendm\n",
        Dw=["\trmb 0", "\tmwarn"],
        De=[("\tfoo%d", 1200), ("\tldaa #300+%d", 1320), ("\tfcb 300+%d", 1320), ('\terror "boom%d"', None), ("\tmerr", 1200)],
        nop="\tnop", res="\trmb %d", load="\tldd s%d", br="\tbeq s%d"),
    "z80": dict(
        head="\tcpu z80\n",
        org="\torg %d\n",
        macros="merr\tmacro\n\tbar\n\tendm\nmwarn\tmacro\n\tds 0\n\tendm\n",
        Dw=["\tds 0", "\tmwarn"],
        De=[("\tfoo%d", 1200), ("\tdb 300+%d", 1320), ("\tld a,300+%d", 1320), ('\terror "boom%d"', None), ("\tmerr", 1200)],
        nop="\tnop", res="\tds %d", load=None, br="\tjr s%d"),
    "8048": dict(
        head="\tcpu 8048\n",
        org="\torg %d\n",
        macros="merr\tmacro\n\tbar\n\tendm\nmwarn\tmacro\n\tds 0\n\tendm\n",
        Dw=["\tds 0", "\tmwarn"],
        De=[("\tfoo%d", 1200), ("\tdb 300+%d", 1320), ('\terror "boom%d"', None), ("\tmerr", 1200), ("\tjmp 1000h", 1320)],
        nop="\tnop", res="\tds %d", load=None, br="\tjz s%d"),
}
LISTING_WORD = {0: "off", 1: "on", 2: "noskipped", 3: "purecode"}


WARN_NUM = 290            # doc/error-messages.md: "no memory reserved" - what every Dw line of the tables raises
JMP_NUM = {"6502": 1370, "6811": 1370, "z80": 1370, "8048": 1910}


def render(cpu, org, toks, rng, base=None):
    """-> (source text, resolved tokens): `Dw` / `De` become `N<number>` of the line that was chosen (`De` stays for the
    unnumbered ERROR pseudo-op), `N<number>` picks a line of that number; with `base` some diagnostics are raised
    inside include files <base>_e.inc / <base>_w.inc (written by observe), whose name then leads the message"""
    c = CPU[cpu]
    out = [c["head"], c["macros"], c["org"] % org]
    res = []
    k = 0
    for t in toks:
        k += 1
        h = t[0]
        r = t
        if t in ("Dw", "De") and base and rng.random() < 0.12:
            out.append('\tinclude "%s_%s.inc"\n' % (base, t[1]))
            r = "N%d" % (WARN_NUM if t == "Dw" else 1200)
        elif t == "Dw" or t == "N%d" % WARN_NUM:
            out.append(rng.choice(c["Dw"]) + "\n")
            r = "N%d" % WARN_NUM
        elif t == "Du":
            out.append('\twarning "hm%d"\n' % k)
        elif t == "De" or h == "N":
            pool = c["De"] if t == "De" else [e for e in c["De"] if e[1] == int(t[1:])]
            x, num = rng.choice(pool)
            out.append((x % (k % 50) if "%d" in x else x) + "\n")
            r = "De" if num is None else "N%d" % num
        elif t == "Df":
            out.append('\tfatal "stop"\n')
        elif h == "X":
            out.append("\texpect %s\n" % ",".join(t[1:].split("+")))
        elif t == "Y":
            out.append("\tendexpect\n")
        elif h == "S":
            out.append("\tlisting %s\n" % LISTING_WORD[int(t[1:])])
        elif t == "V":
            out.append("\tsave\n")
        elif t == "W":
            out.append("\trestore\n")
        elif h == "L":
            out.append("s%s:\n" % t[1:])
        elif h == "Q":
            n, v = t[1:].split("=")
            out.append("s%s\tequ %s\n" % (n, v))
        elif h == "F":
            n = int(t[1:])
            if n <= 3 and rng.random() < 0.7:
                out.append((c["nop"] + "\n") * n)
            else:
                out.append(c["res"] % n + "\n")
        elif h == "A":
            out.append(c["load"] % int(t[1:]) + "\n")
        elif h in "RPJ":
            out.append(c["br"] % int(t[1:]) + "\n")
        else:
            raise ValueError(t)
        res.append(r)
    return "".join(out), res


# ----------------------------------------------------------------------------------------------
# generators (token lists of Driver/C02Chan.lean)

def sprinkle(rng, toks, n_diag, n_regions, fatal=False, saves=True):
    """insert planted diagnostics and LISTING regions at random positions"""
    toks = list(toks)
    for _ in range(n_diag):
        toks.insert(rng.randrange(len(toks) + 1), rng.choice(["Dw", "Dw", "Du", "De", "De", "De"]))
    for _ in range(n_regions):
        a = rng.randrange(len(toks) + 1)
        b = rng.randrange(a, len(toks) + 1)
        kind = rng.random()
        if kind < 0.55:
            toks.insert(b, "S%d" % rng.choice([1, 1, 1, 2, 3]))
            toks.insert(a, "S0")
        elif kind < 0.75 and saves:
            toks.insert(b, "W")
            toks.insert(a, "S0")
            toks.insert(a, "V")
        elif kind < 0.85:
            toks.insert(a, "S0")                       # never switched on again
        elif kind < 0.93:
            toks.insert(a, "S%d" % rng.choice([2, 3]))
        elif saves:
            toks.insert(a, "W")                        # RESTORE without SAVE: an error of its own
    if fatal:
        toks.insert(rng.randrange(len(toks) + 1), "Df")
    return toks


def gen_flat(rng, cpu):
    """single-pass source: diagnostics and listing regions between fixed-size code"""
    toks = []
    for _ in range(rng.randrange(1, 6)):
        toks.append("F%d" % rng.choice([1, 1, 2, 3, 7]))
    nd = rng.choice([0, 1, 1, 2, 3, 5, 9])
    return sprinkle(rng, toks, nd, rng.choice([0, 1, 1, 2, 3]), fatal=rng.random() < 0.06)


def gen_shrink(rng):
    """6502: forward branch over n loads of a zero-page symbol defined behind them (3n bytes in pass 1, 2n later)"""
    n = rng.choice([20, 41, 42, 43, 44, 50, 62, 63, 64, 65, 70])
    extra = rng.choice([0, 0, 1, 2, 3])
    zp = rng.choice([32, 32, 255, 256, 300])
    body = ["A2"] * n
    if rng.random() < 0.3:                                  # a second label in between moves too
        body.insert(rng.randrange(len(body)), "L3")
    toks = ["F2", "R1"] + body + ["F%d" % extra] * (extra > 0) + ["L1", "F1"]
    if rng.random() < 0.3:
        toks += ["R3"] if "L3" in body else ["R1"]          # backward branch behind the target
    toks += ["Q2=%d" % zp]
    if rng.random() < 0.2:                                  # the symbol known beforehand: nothing moves
        toks.remove("Q2=%d" % zp)
        toks.insert(0, "Q2=%d" % zp)
    return toks


def gen_backward(rng):
    """6502: backward branch over k bytes (limit: k + 2 <= 128), optionally followed by moving code"""
    k = rng.choice([100, 125, 126, 127, 128, 129, 200])
    toks = ["L1", "F%d" % k, "R1"]
    if rng.random() < 0.6:
        toks += ["A2"] * rng.randrange(1, 4) + ["L3", "F1", "Q2=%d" % rng.choice([16, 400])]
    return toks


def gen_page(rng):
    """8048: conditional jumps near a 256-byte page boundary; a failing jump lays down no code, so labels move"""
    org = rng.choice([200, 230, 240, 250, 252, 253, 254, 255, 256, 480, 500])
    toks = []
    nlab = rng.randrange(1, 4)
    labs = list(range(1, nlab + 1))
    items = ["L%d" % i for i in labs]
    for _ in range(rng.randrange(1, 5)):
        items.append("P%d" % rng.choice(labs))
    for _ in range(rng.randrange(1, 5)):
        items.append("F%d" % rng.choice([1, 2, 3, 5, 10, 20, 28, 200]))
    rng.shuffle(items)
    toks = items
    return org, toks


def gen_random(rng, cpu):
    """labels, EQUs, branches, loads and fills of sizes around the limits, in random order; optionally one undefined symbol"""
    nlab = rng.randrange(1, 5)
    has_load = CPU[cpu]["load"] is not None
    nequ = rng.randrange(0, 3) if has_load else 0
    labs = list(range(1, nlab + 1))
    equs = list(range(10, 10 + nequ))
    items = ["L%d" % i for i in labs] + ["Q%d=%d" % (i, rng.choice([5, 200, 255, 256, 4096])) for i in equs]
    syms = labs + equs
    undefined = rng.random() < 0.08
    for _ in range(rng.randrange(1, 6)):
        tgt = 99 if undefined and rng.random() < 0.3 else rng.choice(labs)
        items.append(("P%d" if cpu == "8048" else "R%d") % tgt)
    if has_load:
        for _ in range(rng.randrange(0, 8)):
            items.append("A%d" % rng.choice(syms))
        if equs and rng.random() < 0.5:
            items += ["A%d" % equs[0]] * rng.choice([10, 30, 45, 60])
    sizes = [1, 2, 3, 20, 100, 250, 252, 253, 254, 255] if cpu == "8048" else [1, 2, 3, 20, 60, 100, 124, 125, 126, 127, 128, 129, 130]
    for _ in range(rng.randrange(1, 6)):
        items.append("F%d" % rng.choice(sizes))
    rng.shuffle(items)
    return items


def expect_list(rng, cpu, inside):
    """numbers for one EXPECT: drawn from what the block raises / may raise and from numbers it does not raise"""
    pool = []
    for t in inside:
        if t[0] in "RPJ":
            pool += [JMP_NUM[cpu]] * 3
        elif t[0] == "N":
            pool += [int(t[1:])] * 2
        elif t == "Dw":
            pool += [WARN_NUM] * 2
        elif t == "De":
            pool += [1200, 1320]
        elif t[0] == "A":
            pool.append(1010)
    pool += [1370, 1910, 1200, 1320, WARN_NUM, 1010, 2130, 80, 170]       # never 1450 (Model/ErrChan.lean: `.restore`)
    k = rng.choice([1, 1, 1, 2, 2, 3])
    return [rng.choice(pool) for _ in range(k)]


def wrap_expect(rng, toks, cpu, unclosed_ok):
    """EXPECT / ENDEXPECT blocks around random stretches of the program - preferably stretches that hold a branch or a
    planted diagnostic -, sometimes nested, lone or left open"""
    toks = list(toks)
    for _ in range(rng.choice([1, 1, 2, 3])):
        hot = [i for i, t in enumerate(toks) if t[0] in "RPJ" or t in ("Dw", "De") or t[0] == "N"]
        if hot and rng.random() < 0.85:
            a = rng.choice(hot)
            a = max(0, a - rng.choice([0, 0, 0, 1, 2]))
        else:
            a = rng.randrange(len(toks) + 1)
        b = min(len(toks), a + rng.choice([1, 1, 1, 2, 3, 6]))
        if any(t[0] == "X" or t == "Y" for t in toks[a:b]):
            if rng.random() < 0.8:
                continue                                  # else: nested EXPECT (error 2140) / early ENDEXPECT
        nums = expect_list(rng, cpu, toks[a:b])
        r = rng.random()
        if r < 0.88:
            toks.insert(b, "Y")
            toks.insert(a, "X" + "+".join(map(str, nums)))
        elif r < 0.93:
            toks.insert(a, "Y")                           # ENDEXPECT without EXPECT (error 2160)
        elif unclosed_ok:
            toks.insert(a, "X" + "+".join(map(str, nums)))  # never closed (error 2150 at the end of the pass)
    return toks


def gen_expect_jump(rng):
    """the filter x -Y x moving-label class: a branch whose jump error is (or is not) announced by EXPECT, in front of
    code that moves between the passes.  -> (cpu, org, toks)"""
    cpu = rng.choice(["6502", "6502", "6811", "6811", "8048", "z80"])
    jn = JMP_NUM[cpu]
    exp = lambda: "X" + "+".join(str(x) for x in rng.choice([[jn], [jn], [jn], [jn, jn], [jn, WARN_NUM], [3280 - jn], [1320], [jn, 1200]]))
    if cpu in ("6502", "6811"):
        org = 0x1000 if cpu == "6502" else 0x8000
        mover = ["A2"] * rng.randrange(1, 4) + ["L3", "F1"]
        zp = "Q2=%d" % rng.choice([16, 16, 32, 255, 400])
        far = lambda: rng.choice([100, 125, 126, 127, 128, 129, 160, 160, 210, 210])
        shape = rng.random()
        if shape < 0.55:          # backward branch (error in every pass when too far), label moves behind it
            br = ["R1"] if rng.random() < 0.8 else ["R1", "R1"]
            toks = ["L1", "F%d" % far(), exp()] + br + ["Y"] + mover + [zp]
        elif shape < 0.7:         # forward branch over shrinking code (error only in pass 2: the expectation fails in pass 1)
            n = rng.choice([41, 42, 43, 44, 50, 62, 63, 64, 65])
            toks = ["F2", exp(), "R1", "Y"] + ["A2"] * n + ["L1", "F1"] + (mover if rng.random() < 0.5 else []) + [zp]
        elif shape < 0.85:        # two blocks, the second one behind the first moving label
            toks = ["L1", "F%d" % far(), exp(), "R1", "Y"] + mover + ["F%d" % rng.choice([1, 130]), exp(), "R3", "Y", "A2", "L4", zp]
        else:                     # the moving label inside the block, behind the branch
            toks = ["L1", "F%d" % far(), exp(), "R1"] + mover + ["Y", "F1", zp]
        if rng.random() < 0.2:    # expectation outside the block that raises the error
            i = toks.index("Y")
            br = toks.pop(i - 1)                      # ENDEXPECT now sits at i - 1
            toks.insert(i, br)
    elif cpu == "8048":           # a failing page jump lays down no code: everything behind it moves
        org = rng.choice([200, 240, 250, 253, 254])
        if rng.random() < 0.5:    # forward: no error in pass 1, the expectation fails there
            toks = [exp(), "P1", "Y", "F%d" % rng.choice([1, 2, 3, 5]), "L2", "F%d" % rng.choice([1, 10, 20, 28]), "L1", "F1"]
            if rng.random() < 0.5:
                toks += [exp(), "P2", "Y", "L3"]
        else:                     # backward across the page boundary: swallowed in every pass; a second, forward jump behind it
            toks = ["L1", "F%d" % rng.choice([1, 3, 10, 60]), exp(), "P1", "Y", "F%d" % rng.choice([1, 2, 5]), "P2", "F%d" % rng.choice([1, 20, 250]), "L2", "F1"]
    else:                         # Z80: nothing moves, but the error comes back in every pass
        org = 0x1000
        toks = ["L1", "F%d" % rng.choice([100, 126, 127, 200]), exp(), "J1", "Y", "F1"]
    return cpu, org, toks


def gen_program(rng, profile, unclosed_ok=False):
    """returns (cpu, org, tokens, family)"""
    if profile == "multi" and rng.random() < 0.2:
        cpu, org, toks = gen_expect_jump(rng)
        fam = "expect-jump"
        if rng.random() < 0.3:
            toks = sprinkle(rng, toks, rng.choice([1, 1, 2]), rng.choice([0, 0, 1]), saves=False)
    else:
        cpu, org, toks, fam = gen_program0(rng, profile)
        if rng.random() < (0.3 if profile == "flat" else 0.25):
            toks = wrap_expect(rng, toks, cpu, unclosed_ok)
            fam += "+expect"
    if cpu == "z80":            # Z80 JR checks the distance even for a questionable target: its own branch kind
        toks = ["J" + t[1:] if t[0] == "R" else t for t in toks]
    return cpu, org, toks, fam


def gen_program0(rng, profile):
    if profile == "flat":
        cpu = rng.choice(["6502", "8048", "6811", "z80"])
        return cpu, 0x100 if cpu == "8048" else rng.choice([0x100, 0x1000]), gen_flat(rng, cpu), "flat"
    r = rng.random()
    if r < 0.30:
        toks, cpu, org, fam = gen_shrink(rng), rng.choice(["6502", "6502", "6811"]), 0x1000, "shrink"
    elif r < 0.40:
        toks, cpu, org, fam = gen_backward(rng), rng.choice(["6502", "6811", "z80"]), 0x1000, "backward"
        if cpu == "z80":
            toks = [t for t in toks if t[0] != "A"]
    elif r < 0.60:
        (org, toks), cpu, fam = gen_page(rng), "8048", "page"
    else:
        cpu = rng.choice(["6502", "6502", "8048", "6811", "z80"])
        org = rng.choice([0, 100, 250]) if cpu == "8048" else 0x1000
        toks, fam = gen_random(rng, cpu), "random-" + cpu
    if rng.random() < 0.5:
        toks = sprinkle(rng, toks, rng.choice([0, 1, 1, 2, 4]), rng.choice([0, 0, 1, 2]), fatal=rng.random() < 0.03, saves=rng.random() < 0.5)
    return cpu, org, toks, fam


def gen_options(rng, nfiles):
    """returns dict(opts=[...], lm, chan, quiet, werror, suppw, maxerr, y, gnu, numeric)"""
    o = dict(opts=[])
    o["lm"] = rng.choice([0, 1, 1, 2, 2])
    if o["lm"] == 1:
        o["opts"].append("-l")
    elif o["lm"] == 2:
        o["opts"].append("-L")
    o["olist"] = o["lm"] == 2 and rng.random() < 0.25
    o["chan"] = rng.choice(["stderr", "stderr2", "stdout", "stdout", "file", "log"])
    o["quiet"] = rng.random() < 0.3
    o["werror"] = rng.random() < 0.3
    o["suppw"] = rng.random() < 0.15
    o["maxerr"] = rng.choice([1, 2, 3, 5]) if rng.random() < 0.12 else 0
    o["y"] = rng.random() < 0.45
    o["gnu"] = rng.random() < 0.12
    o["numeric"] = rng.random() < 0.35
    if o["werror"]:
        o["opts"].append("-Werror")
    if o["suppw"]:
        o["opts"].append("-w")
    if o["maxerr"]:
        o["opts"] += ["-maxerrors", str(o["maxerr"])]
    if o["y"]:
        o["opts"].append("-Y")
    if o["gnu"]:
        o["opts"].append("-gnuerrors")
    if o["numeric"]:
        o["opts"].append("-n")
    x = rng.random()
    if x < 0.25:
        o["opts"].append("-x")
    elif x < 0.35:
        o["opts"] += ["-x", "-x"]
    o["msgpass"] = rng.choice([1, 1, 2, 3]) if rng.random() < 0.2 else 0
    if o["msgpass"]:
        o["opts"] += ["-r", str(o["msgpass"])]
    if o["lm"] and rng.random() < 0.2:
        o["opts"] += ["-t", str(rng.choice([2, 6, 255, 1]))]
    if o["lm"] and rng.random() < 0.15:
        o["opts"].append(rng.choice(["-u", "-C", "-s"]))
    return o


# ----------------------------------------------------------------------------------------------
# observation of a real run

def msg_regex(name, gnu, internal=False):
    """`internal`: also messages that carry no source position (`INTERNAL`, raised at the end of a pass) - they can only
    be attributed in a run with one source"""
    n = re.escape(name[:-4].encode()) + rb"(?:\.asm|_[ew]\.inc)"
    if gnu:
        pos = rb"(?:" + n + rb":\d+(?::\d+)?|INTERNAL)" if internal else n + rb":\d+(?::\d+)?"
        return re.compile(rb"^" + pos + rb"(: warning)?( #\d+)?: ([^\n]*)$", re.M)
    pos = rb"(?:" + n + rb"\(\d+\)[^\n]*?|INTERNAL)" if internal else n + rb"\(\d+\)[^\n]*?"
    return re.compile(rb"^> > > " + pos + rb": (error|warning)( #\d+)?: ([^\n]*)$", re.M)


def classify(mm, gnu, numeric):
    """(is_warning, is_jump) of a regex match"""
    warn = mm.group(1) is not None if gnu else mm.group(1) == b"warning"
    text = mm.group(3)
    num = re.match(rb" #(\d+)", mm.group(2)) if mm.group(2) else None
    # the message itself, not a quotation of it (2130 "expected error did not occur" names the expected message)
    jump = any(text.startswith(t.encode()) for t in JMP_TEXT) or (num is not None and num.group(1).decode() in JMP_NUMS)
    return warn, jump


def count_msgs(data, name, o):
    e = w = j = 0
    for mm in msg_regex(name, o["gnu"], o.get("internal", False)).finditer(data):
        warn, jump = classify(mm, o["gnu"], o["numeric"])
        if warn:
            w += 1
        else:
            e += 1
            j += jump
    return e, w, j


SUM_ERR = re.compile(rb"^\s*(\d+) errors?\s*$", re.M)
SUM_WARN = re.compile(rb"^\s*(\d+) warnings?\s*$", re.M)
SUM_PASS = re.compile(rb"^\s*(\d+) pass(?:es)?\s*$", re.M)


def observe(bdir, wd, idx, files, o):
    """files: [(cpu, org, toks, fam, text)] -> observation dict (see Spec/Report.lean)"""
    names = []
    for j, f in enumerate(files):
        n = "x%d_%d.asm" % (idx, j)
        open(os.path.join(wd, n), "w").write(f[4])
        if "_e.inc" in f[4]:
            open(os.path.join(wd, n[:-4] + "_e.inc"), "w").write("\tfoo\n")
        if "_w.inc" in f[4]:
            open(os.path.join(wd, n[:-4] + "_w.inc"), "w").write(CPU[f[0]]["Dw"][0] + "\n")
        names.append(n)
    args = []
    errfile = None
    if o["chan"] == "stdout":
        args += ["-E", "!1"]
    elif o["chan"] == "stderr2":
        args += ["-E", "!2"]
    elif o["chan"] == "file":
        errfile = "x%d.err" % idx
        args += ["-E", errfile]
    elif o["chan"] == "log":
        args += ["-E", "-i", "."]          # bare -E (=> <source>.log) must be followed by another option
    args += list(o["opts"])
    lstnames = [n[:-4] + ".lst" for n in names]
    if o["olist"]:
        lstnames = ["x%d_%d.lis" % (idx, j) for j in range(len(names))]
        for ln in lstnames:
            args += ["-olist", ln]
    if o["quiet"]:
        args.append("-q")
    rc, so, se = common.run_tool(bdir, "asl", args + names, wd, timeout=120, env={"ASL_VERIF_MAX_PASSES": str(PASS_CAP)})
    obs = dict(status=rc, files=[], args=args + names)
    chan_data = {"stdout": b"", "stderr": se, "stderr2": se}.get(o["chan"])
    if o["chan"] == "file":
        p = os.path.join(wd, errfile)
        chan_data = open(p, "rb").read() if os.path.exists(p) else b""
    # console: split stdout into per-file sections and passes
    sections = {}
    if not o["quiet"]:
        parts = re.split(rb"^Assembling ([^\n]+)\n", so, flags=re.M)
        for k in range(1, len(parts) - 1, 2):
            sections[parts[k].decode(errors="replace").strip()] = parts[k + 1]
    for j, n in enumerate(names):
        fo = dict(name=n)
        pfile = os.path.join(wd, n[:-4] + ".p")
        fo["code"] = os.path.exists(pfile)
        if o["chan"] == "log":
            p = os.path.join(wd, n[:-4] + ".log")
            cd = open(p, "rb").read() if os.path.exists(p) else b""
        else:
            cd = chan_data
        sep = count_msgs(cd, n, o) if o["chan"] != "stdout" else (0, 0, 0)      # separate error channel
        fo["chan_sep"] = sep
        processed = True
        if o["quiet"]:
            con = count_msgs(so, n, o)
            fo["passes"] = [tuple(a + b for a, b in zip(con, sep))]
            fo["merged"] = True
            fo["con_total"] = con
            fo["summary"] = None
            fo["npasses"] = None
            processed = None                                                     # unknown
        else:
            sec = sections.get(n)
            if sec is None:
                processed = False
                fo["passes"], fo["merged"], fo["summary"], fo["npasses"], fo["con_total"] = [], False, None, None, (0, 0, 0)
            else:
                chunks = re.split(rb"^PASS \d+\s*$", sec, flags=re.M)
                per = [count_msgs(ch, n, o) for ch in chunks[1:]]
                head = count_msgs(chunks[0], n, o)
                fo["con_total"] = tuple(sum(x) for x in zip(head, *per)) if per else head
                se_ = SUM_ERR.findall(sec)
                sw_ = SUM_WARN.findall(sec)
                sp_ = SUM_PASS.findall(sec)
                fo["summary"] = (int(se_[-1]), int(sw_[-1])) if se_ and sw_ else None
                fo["npasses"] = len(per)
                fo["npasses_printed"] = int(sp_[-1]) if sp_ else None
                if sum(sep) == 0 or len(per) <= 1:
                    if len(per) == 1:
                        per = [tuple(a + b for a, b in zip(per[0], sep))]
                    fo["passes"], fo["merged"] = per, False
                else:
                    fo["passes"] = [tuple(a + b for a, b in zip(fo["con_total"], sep))]
                    fo["merged"] = True
        fo["processed"] = processed
        # listing file
        fo["lstsum"] = fo["lstmsgs"] = None
        lp = os.path.join(wd, lstnames[j])
        fo["lst_exists"] = os.path.exists(lp)
        if o["lm"] == 2 and os.path.exists(lp):
            ld = open(lp, "rb").read()
            le, lw = SUM_ERR.findall(ld), SUM_WARN.findall(ld)
            fo["lstsum"] = (int(le[-1]), int(lw[-1])) if le and lw else None
            fo["lstmsgs"] = count_msgs(ld, n, o)[:2]
        obs["files"].append(fo)
    for n, ln in zip(names, lstnames):
        for x in (n, n[:-4] + ".p", n[:-4] + ".log", ln, n[:-4] + ".lst", n[:-4] + "_e.inc", n[:-4] + "_w.inc"):
            p = os.path.join(wd, x)
            if os.path.exists(p):
                os.unlink(p)
    if errfile and os.path.exists(os.path.join(wd, errfile)):
        os.unlink(os.path.join(wd, errfile))
    obs["stdout_tail"] = so[-400:].decode(errors="replace")
    obs["stderr_tail"] = se[-400:].decode(errors="replace")
    return obs


def pair(x):
    return "-" if x is None else "%d.%d" % (x[0], x[1])


def obs_field(obs):
    """the observation as the driver's <obs> field: only the files that were assembled"""
    fs = []
    for fo in obs["files"]:
        if fo["processed"] is False:
            continue
        if fo["processed"] is None and obs["status"] == 3 and not fo["code"] and sum(fo["passes"][0]) == 0 and fs:
            # quiet run ended by a fatal error: files behind the failing one were never started (no trace of them)
            continue
        ps = "/".join("%d.%d.%d" % p for p in fo["passes"]) or "-"
        fs.append("%d:%s:%s:%s:%d:%s" % (fo["code"], pair(fo["summary"]), pair(fo["lstsum"]), pair(fo["lstmsgs"]), fo["merged"], ps))
    return ";".join([str(obs["status"])] + fs)


# ----------------------------------------------------------------------------------------------

def sig_of(o, files, mfiles, rs, ms):
    """signature of a spec failure for known_findings.json (about the input class): -Y, a source behind the first one
    in whose pass the model - which transcribes the never-reset C global JmpErrors - takes more errors off the counter
    than that pass raised jump errors (impossible for a pass that starts with JmpErrors = 0: C02_chan_pass_counts), and
    the real run violates nothing but clauses the model predicts (it may violate fewer: merged passes tell less)"""
    if not (o["y"] and len(files) > 1):
        return None
    stale = any(p["forgotten"] > p["jmp"] for mf in mfiles[1:] for p in mf["passes"])
    if stale and ms not in (None, "ok", "-") and set(rs.split("+")) <= set(ms.split("+")):
        return "jmperrors-stale-across-files-under-Y"
    return None


def parse_model(ans):
    """-> (status or None, [file dict], ms, rs)"""
    kv = dict(x.split("=", 1) for x in ans.split() if "=" in x)
    if "m" not in kv or kv["m"] == "nofuel":
        return None, [], kv.get("ms"), kv.get("rs")
    parts = kv["m"].split(";")
    st = int(parts[0])
    fs = []
    for p in parts[1:]:
        code, sm, ls, lm, fat, dbl, ps = p.split(":")
        d = dict(code=code == "1", sumErr=int(sm.split(".")[0]), sumWarn=int(sm.split(".")[1]), lstSummary=ls == "1",
                 lst=tuple(int(x) for x in lm.split(".")), fatal=fat == "1", dbl=dbl == "1", passes=[])
        for q in ps.split("/"):
            v = [int(x) for x in q.split(".")]
            d["passes"].append(dict(con=(v[0], v[1]), chan=(v[2], v[3]), jmp=v[4], forgotten=v[5], filtered=v[6]))
        fs.append(d)
    return st, fs, kv.get("ms"), kv.get("rs")


def compare(o, obs, st, mfiles):
    """correspondence real run <-> model; returns list of mismatch strings"""
    mism = []
    if obs["status"] != st:
        mism.append("status %s vs model %s" % (obs["status"], st))
    real = [f for f in obs["files"] if f["processed"] is not False]
    for k, mf in enumerate(mfiles):
        if k >= len(real):
            mism.append("model assembles %d files, real run shows %d" % (len(mfiles), len(real)))
            break
        f = real[k]
        if f["code"] != mf["code"]:
            mism.append("file %d code file %s vs model %s" % (k, f["code"], mf["code"]))
        m_con = tuple(sum(p["con"][i] for p in mf["passes"]) for i in (0, 1))
        m_chan = tuple(sum(p["chan"][i] for p in mf["passes"]) for i in (0, 1))
        m_jmp = sum(p["jmp"] for p in mf["passes"])
        if o["chan"] == "stdout":
            r_all = f["con_total"]
            if (r_all[0], r_all[1]) != (m_con[0] + m_chan[0], m_con[1] + m_chan[1]):
                mism.append("file %d console+channel messages %s vs model %s+%s" % (k, r_all[:2], m_con, m_chan))
        else:
            if f["con_total"][:2] != m_con:
                mism.append("file %d console listing messages %s vs model %s" % (k, f["con_total"][:2], m_con))
            if f["chan_sep"][:2] != m_chan:
                mism.append("file %d error channel messages %s vs model %s" % (k, f["chan_sep"][:2], m_chan))
        if f["con_total"][2] + f["chan_sep"][2] != m_jmp:
            mism.append("file %d jump messages %d vs model %d" % (k, f["con_total"][2] + f["chan_sep"][2], m_jmp))
        if not o["quiet"] and not mf["fatal"]:
            if f["summary"] != (mf["sumErr"], mf["sumWarn"]):
                mism.append("file %d summary %s vs model %s" % (k, f["summary"], (mf["sumErr"], mf["sumWarn"])))
            if f["npasses"] != len(mf["passes"]) or f.get("npasses_printed") != len(mf["passes"]):
                mism.append("file %d passes %s (printed %s) vs model %d" % (k, f["npasses"], f.get("npasses_printed"), len(mf["passes"])))
            if not f["merged"] and len(f["passes"]) == len(mf["passes"]):
                for pi, (rp, mp) in enumerate(zip(f["passes"], mf["passes"])):
                    me = (mp["con"][0] + mp["chan"][0], mp["con"][1] + mp["chan"][1], mp["jmp"])
                    if tuple(rp) != me:
                        mism.append("file %d pass %d messages %s vs model %s" % (k, pi + 1, tuple(rp), me))
        if o["lm"] == 2:
            if not mf["fatal"]:
                want = (mf["sumErr"], mf["sumWarn"]) if mf["lstSummary"] else None
                if f["lstsum"] != want:
                    mism.append("file %d listing-file summary %s vs model %s" % (k, f["lstsum"], want))
            if f["lstmsgs"] != mf["lst"]:
                mism.append("file %d listing-file messages %s vs model %s" % (k, f["lstmsgs"], mf["lst"]))
    if len(real) > len(mfiles) and not o["quiet"]:
        mism.append("real run shows %d assembled files, model %d" % (len(real), len(mfiles)))
    return mism


FIXED = [
    # (name, options-overrides, [(cpu, org, tokens)])  hand-written shapes, run first in every tier
    ("console-listing-warning-in-unlisted-region", dict(lm=1), [("6502", 4096, ["F2", "S0", "Du", "F2", "S1", "F1"])]),
    ("console-listing-error-in-unlisted-region", dict(lm=1), [("6502", 4096, ["F2", "S0", "De", "S1", "F1", "De"])]),
    ("console-listing-werror-warning-in-unlisted-region", dict(lm=1, werror=True), [("6502", 4096, ["F2", "S0", "Dw", "S1", "F1"])]),
    ("file-listing-error-in-unlisted-region", dict(lm=2), [("8048", 256, ["F2", "S0", "De", "Dw", "S1", "F1", "De"])]),
    ("transient-branch-error", dict(), [("6502", 4096, ["F2", "R1"] + ["A2"] * 50 + ["L1", "F1", "Q2=32"])]),
    ("transient-branch-error-Y", dict(y=True), [("6502", 4096, ["F2", "R1"] + ["A2"] * 50 + ["L1", "F1", "Q2=32"])]),
    ("permanent-forward-branch-error", dict(), [("6502", 4096, ["F2", "R1", "F150", "L1", "F1"])]),
    ("permanent-forward-branch-error-Y", dict(y=True), [("6502", 4096, ["F2", "R1", "F150", "L1", "F1"])]),
    ("page-error-forward", dict(), [("8048", 240, ["P1", "F1", "L2", "F21", "L1", "F1"])]),
    ("page-error-forward-Y", dict(y=True), [("8048", 240, ["P1", "F1", "L2", "F21", "L1", "F1"])]),
    ("undefined-symbol-error-in-pass-2", dict(), [("6502", 4096, ["F1", "A7", "R8", "F1"])]),
    ("manual-example-6811-transient", dict(), [("6811", 32768, ["R1"] + ["A2"] * 60 + ["L1", "F1", "Q2=16"])]),
    ("manual-example-6811-transient-Y", dict(y=True), [("6811", 32768, ["R1"] + ["A2"] * 60 + ["L1", "F1", "Q2=16"])]),
    ("repass-warnings-r-werror", dict(werror=True, msgpass=1), [("6502", 4096, ["F1", "A2", "L1", "F1", "Q2=32"])]),
    ("repass-warnings-r2", dict(msgpass=2), [("6502", 4096, ["F1", "A2", "L1", "F1", "Q2=32"])]),
    ("two-files-jump-error-then-moving-label-Y", dict(y=True), [("6502", 4096, ["L3", "F160", "R3"]), ("6502", 4096, ["A2", "A2", "L1", "F1", "Q2=32"])]),
    # EXPECT in front of the counting: an announced jump error is no "questionable" error that -Y could forget later
    ("expected-backward-branch-error-then-moving-label-Y", dict(y=True), [("6811", 32768, ["L1", "F210", "X1370", "R1", "Y", "A2", "L3", "F1", "Q2=16"])]),
    ("expected-backward-branch-error-then-moving-label", dict(), [("6811", 32768, ["L1", "F210", "X1370", "R1", "Y", "A2", "L3", "F1", "Q2=16"])]),
    ("expected-transient-branch-error-Y", dict(y=True), [("6502", 4096, ["F2", "X1370", "R1", "Y"] + ["A2"] * 50 + ["L1", "F1", "Q2=32"])]),
    ("expected-page-error-Y", dict(y=True), [("8048", 240, ["X1910", "P1", "Y", "F1", "L2", "F21", "L1", "F1"])]),
    ("expected-error-did-not-occur", dict(), [("z80", 4096, ["L1", "F100", "X1370+290", "J1", "N290", "Y", "F1"])]),
    ("expected-warning-under-w", dict(suppw=True), [("6502", 4096, ["F1", "X290", "N290", "Y", "N290", "F1"])]),
    ("two-files-jump-error-then-moving-label", dict(), [("6502", 4096, ["L3", "F160", "R3"]), ("6502", 4096, ["A2", "A2", "L1", "F1", "Q2=32"])]),
]


def base_options():
    return dict(opts=[], lm=0, olist=False, chan="stderr", quiet=False, werror=False, suppw=False, maxerr=0, y=False, gnu=False, numeric=False, msgpass=0)


def probe_carry(bdir, wd):
    """self-calibration of the model flag `carryJmp` (never consulted by the SPEC): does a counted jump error of one
    source still sit in JmpErrors when the next source of the run is assembled?  Witness of the known finding."""
    rng0 = common.rng_for(0, "C02X-probe")
    a = render("6502", 4096, ["L3", "F160", "R3"], rng0)[0]
    b = render("6502", 4096, ["A2", "A2", "L1", "F1", "Q2=32"], rng0)[0]
    open(os.path.join(wd, "pa.asm"), "w").write(a)
    open(os.path.join(wd, "pb.asm"), "w").write(b)
    rc, so, se = common.run_tool(bdir, "asl", ["-Y", "pa.asm", "pb.asm"], wd, timeout=60, env={"ASL_VERIF_MAX_PASSES": str(PASS_CAP)})
    sec = so.split(b"Assembling pb.asm")[-1]
    e = SUM_ERR.findall(sec)
    for x in ("pa.asm", "pb.asm", "pa.p", "pb.p"):
        if os.path.exists(os.path.join(wd, x)):
            os.unlink(os.path.join(wd, x))
    return bool(e) and int(e[-1]) != 0


def run_part(args, bdir, wd):
    """returns dict(spec_fail, corr_fail, evaluations, distinct, dist, samples, problems)"""
    rng = common.rng_for(args.seed, "C02X")
    carry = probe_carry(bdir, wd)
    n_flat, n_multi = {"quick": (170, 230), "thorough": (5000, 7000)}[args.tier]
    spec_fail, corr_fail, samples, problems = [], [], [], []
    dist = Counter()
    dist["probe:JmpErrors-survives-to-the-next-source-file"] = int(carry)
    cases = []
    for name, ov, fl in FIXED:
        for chan in ("stderr", "stdout"):
            o = base_options()
            o.update(ov)
            o["chan"] = chan
            if o["lm"] == 1:
                o["opts"].append("-l")
            elif o["lm"] == 2:
                o["opts"].append("-L")
            if o["werror"]:
                o["opts"].append("-Werror")
            if o["suppw"]:
                o["opts"].append("-w")
            if o["y"]:
                o["opts"].append("-Y")
            if o["msgpass"]:
                o["opts"] += ["-r", str(o["msgpass"])]
            files = []
            for cpu, org, toks in fl:                                                          # no includes: base=None
                text, rtoks = render(cpu, org, toks, rng)
                files.append((cpu, org, rtoks, "fixed", text))
            o["internal"] = len(files) == 1
            cases.append(("fixed:%s:%s" % (name, chan), o, files))
    for i in range(n_flat + n_multi):
        profile = "flat" if i < n_flat else "multi"
        nf = rng.choice([1, 1, 1, 2, 3])
        files = []
        for j in range(nf):
            cpu, org, toks, fam = gen_program(rng, profile, unclosed_ok=nf == 1)
            text, rtoks = render(cpu, org, toks, rng, "x%d_%d" % (len(cases), j))
            files.append((cpu, org, rtoks, fam, text))
        o = gen_options(rng, nf)
        o["internal"] = nf == 1
        if not o["y"] and any(f[3] == "expect-jump" for f in files) and rng.random() < 0.5:
            o["y"] = True                                  # the filters matter to -Y: more of it where jump errors are announced
            o["opts"].append("-Y")
        if profile == "flat" and o["lm"] == 0 and rng.random() < 0.7:
            o["lm"] = 1
            o["opts"].append("-l")
        cases.append(("%s-%d" % (profile, i), o, files))
    reqs, obss = [], []
    for idx, (tag, o, files) in enumerate(cases):
        obs = observe(bdir, wd, idx, files, o)
        obss.append(obs)
        reqs.append("%d %d %d %d %d %d %d %d %d %s %s" % (
            o["werror"], o["suppw"], o["maxerr"], o["y"], o["lm"], o["quiet"], PASS_CAP, o["msgpass"], carry,
            ";".join("%d:%s" % (f[1], ",".join(f[2])) for f in files), obs_field(obs)))
    try:
        answers = common.driver("c02x", reqs, timeout=1800)
    except RuntimeError as ex:
        problems.append(str(ex))
        answers = []
    if answers and len(answers) != len(reqs):
        problems.append("driver c02x answered %d of %d requests" % (len(answers), len(reqs)))
        answers = []
    distinct = set()
    for (tag, o, files), obs, rq, ans in zip(cases, obss, reqs, answers):
        st, mfiles, ms, rs = parse_model(ans)
        fams = sorted(set(f[3] for f in files))
        desc = dict(tag=tag, options=obs["args"], families=fams, sources=[f[4] for f in files], model_request=rq, model=ans,
                    observed={k: v for k, v in obs.items() if k != "args"})
        dist["cases"] += 1
        dist["listing:%s" % ["none", "console(-l)", "file(-L)"][o["lm"]]] += 1
        dist["channel:%s" % o["chan"]] += 1
        for f in fams:
            dist["family:" + f] += 1
        dist["status:%s" % obs["status"]] += 1
        for k in ("quiet", "werror", "suppw", "y", "gnu", "numeric"):
            dist["option:" + k] += bool(o[k])
        dist["option:maxerrors"] += bool(o["maxerr"])
        dist["option:r(repass warnings)"] += bool(o["msgpass"])
        if obs["status"] in (97, "timeout") or st is None:
            dist["discarded:pass-cap"] += 1
            if not (obs["status"] in (97, "timeout") and st is None):
                corr_fail.append(dict(desc, why="pass cap: real status %s, model %s" % (obs["status"], "no end within %d passes" % PASS_CAP if st is None else "ends")))
            continue
        if rs is None or rs.startswith("bad") or ans.startswith("bad"):
            problems.append("driver rejected a c02x request: %r / %s" % (ans, rq[:300]))
            continue
        if any(mf["dbl"] for mf in mfiles):
            problems.append("generator produced a double definition: " + rq[:200])
            continue
        npass = max([len(mf["passes"]) for mf in mfiles] or [1])
        dist["passes:%d" % npass] += 1
        in_off = sum(1 for f in files if "S0" in f[2] and any(t[0] in "DN" for t in f[2]))
        dist["files-with-diagnostics-and-LISTING-OFF"] += in_off
        dist["files-with-diagnostics-in-include-files"] += sum(1 for f in files if ".inc" in f[4])
        j_early = sum(p["jmp"] for mf in mfiles for p in mf["passes"][:-1])
        j_last = sum(mf["passes"][-1]["jmp"] for mf in mfiles if mf["passes"])
        dist["runs-with-jump-error-in-intermediate-pass"] += j_early > 0
        dist["runs-with-jump-error-in-last-pass"] += j_last > 0
        dist["runs-with-forgotten-errors(-Y)"] += any(p["forgotten"] for mf in mfiles for p in mf["passes"])
        n_filt = sum(p["filtered"] for mf in mfiles for p in mf["passes"])
        has_x = any(t[0] == "X" for f in files for t in f[2])
        dist["runs-with-EXPECT-blocks"] += has_x
        dist["runs-with-filtered-messages(EXPECT/-w)"] += n_filt > 0
        dist["runs-with-EXPECT-filtered-messages-in-several-passes"] += has_x and sum(1 for mf in mfiles for p in mf["passes"] if p["filtered"]) > 1
        dist["runs-with-EXPECT-filtered-messages-and-Y-and-several-passes"] += bool(has_x and n_filt and o["y"] and npass > 1)
        dist["runs-with-EXPECT-and-jump-message-emitted-anyway"] += bool(has_x and (j_early or j_last))
        if any(t[0] in "DSRPANXY" for f in files for t in f[2]):
            distinct.add((tuple(obs["args"][:-len(files)]), rq.split(" ")[9]))
        if len(samples) < 6 and (j_early > 0 or (in_off and o["lm"] == 1)) and tag.split("-")[0] in ("flat", "multi"):
            samples.append(dict(tag=tag, options=obs["args"], model=ans, observation=obs_field(obs), spec=rs))
        if rs != "ok":
            dist["spec-failures"] += 1
            spec_fail.append(dict(desc, sig=sig_of(o, files, mfiles, rs, ms), why="Spec.Report violated on the real run: " + rs.replace("+", "; ")))
            continue
        mism = compare(o, obs, st, mfiles)
        if ms != "ok":
            mism.append("the model's own observation violates Spec.Report: %s" % ms)
        if mism:
            corr_fail.append(dict(desc, why="; ".join(mism), correspondence="asl status / code files / messages per stream and pass / summaries == Model.ErrChan.invoke"))
    return dict(spec_fail=spec_fail, corr_fail=corr_fail, evaluations=len(cases), distinct=distinct, dist=dict(dist), samples=samples, problems=problems)
