"""C11, long delivered lines: generator of construct programs whose EXPANDED lines are longer than every physical source line.

The assembler keeps the current line in a buffer that starts with room for 1024 bytes and only grows (in steps of 128)
when a longer line shows up: either a physical source line (ReadLnCont) or a substitution result (asmsub.c ReplaceToken,
used when a body line is stored - CompressLine - and when it is delivered - ExpandLine).  The property (a construct
program assembles like its hand expansion) must not depend on how long the delivered line is, nor on which lines were
seen before.  The programs made here are ordinary construct trees (same node format as c11.Gen) and go through the same
pipeline as the construct stream: SPEC expansion (`c11exp`), tag machine model (`c11tag`), real asl with -P, real asl on
the hand expansion.

Classes:
 * one program per target length L (own assembler run, so no run influences the buffer of another): L sweeps the zone
   around the initial buffer size and, after a physical line of P >= 1023 characters ("history"), the zone around the
   next size; the critical line is delivered by MACRO (positional / keyword / default / ALLARGS), IRP, IRPN, and by
   REPT / IRP / IRPC inside a macro whose parameters are used in the inner body and header; the iteration variable or
   parameter is used several times per line, so every physical line stays far below 1000 characters;
 * stored lines that GROW when the body is stored: one-letter parameter names (the token has two bytes) used many times
   in a physical line just below the zone;
 * ascending sweeps inside ONE run (every delivered line one character longer than the one before, 300 lines and more):
   every buffer size on the way is hit exactly;
 * random lengths / random histories (thorough tier).
"""


def sumtext(rng, n):
    """numeric expression text of exactly n >= 1 characters with a value below 256 (terms 0/1, operators + and |)"""
    if n <= 0:
        raise ValueError(n)
    if n % 2:
        s, k = rng.choice("123456789"), (n - 1) // 2
    else:
        s, k = "1" + rng.choice("012345"), (n - 2) // 2
    out = [s]
    for _ in range(k):
        out.append(rng.choice("++|") + rng.choice("01"))
    return "".join(out)


ZONE1 = list(range(1016, 1033))
ZONE2 = list(range(1144, 1161))

KINDS = ["macro-pos", "macro-key", "macro-default", "macro-allargs", "irp", "irpn", "rept-in-macro", "irp-in-macro", "irpc-in-macro",
         "macro-in-macro"]


class LongGen:
    """builds one construct tree whose critical expanded line has exactly L characters"""

    def __init__(self, rng, cs):
        self.rng = rng
        self.cs = cs
        self.macros = []
        self.nid = 100

    def fresh(self):
        self.nid += 1
        return self.nid

    def name(self, stem):
        # letters and digits only; upper case so that both case modes treat the text alike
        return "%s%d" % (stem, self.fresh())


def plan_lengths(rng, L, fixed):
    """L = fixed(m) + m * a + q : number of uses m of the main name, its argument length a (<= 480, so that the value of
    the sum text stays a byte and the call line stays short) and the length q (1..250) of the pad literal; `fixed` is a
    function of m (commas)"""
    m_min = 2
    while L - fixed(m_min) - 250 > 480 * m_min:
        m_min += 1
    m = m_min + rng.choice([0, 0, 1, 1, 2, 3])
    room = L - fixed(m)
    lo = max(1, -(-(room - 250) // m))          # q <= 250
    hi = min(480, (room - 1) // m)              # q >= 1
    if lo > hi:
        return None
    a = rng.randrange(lo, hi + 1)
    return m, a, room - m * a


class Unsolvable(Exception):
    pass


def gen_long(rng, cs, L, kind, history=None, tail_first=False):
    """returns (top nodes, macros) or None - `history`: length of a physical comment line in front (or None)"""
    try:
        return gen_long2(rng, cs, L, kind, history, tail_first)
    except Unsolvable:
        return None


def gen_long2(rng, cs, L, kind, history, tail_first):
    g = LongGen(rng, cs)
    top = []
    if history:
        top.append(("L", ";" + "".join(rng.choice("abcdefgh XYZ0123456789+-") for _ in range(history - 2)) + "."))
    top.append(("L", " db %d" % rng.randrange(256)))
    tail = str(rng.randrange(100, 256))             # the last characters of the line decide a byte of the code

    def crit_line(main, others, L):
        """' db ' + items ; others = [(text or name, expanded length)] ; the main name stands m times, a pad literal closes the
        gap, the 3-digit tail literal stands last; returns (line, main argument length)"""
        pl = plan_lengths(rng, L, lambda m: 4 + (m + len(others) + 1) + sum(l for _, l in others) + len(tail))
        if pl is None:
            raise Unsolvable()
        m, a, q = pl
        items = [main] * m + [t for t, _ in others] + [sumtext(rng, q)]
        rng.shuffle(items)
        return " db " + ",".join(items + [tail]), a

    if kind in ("macro-pos", "macro-key", "macro-default", "macro-allargs"):
        cid = g.fresh()
        pa, pb = "PA%d" % cid, "PB%d" % cid
        if kind == "macro-allargs":
            # ALLARGS = "<a>,<b>" used m times; b is short
            blen = rng.randrange(1, 4)
            # one use of ALLARGS expands to a + 1 + blen characters: treat ALLARGS as the main name with argument length a'
            line, a2 = crit_line("ALLARGS", [], L)
            a = a2 - 1 - blen
            if a < 1:
                return None
            call = [(None, sumtext(rng, a)), (None, sumtext(rng, blen))]
            params, defaults = [pa, pb], ["0", "0"]
        else:
            blen = rng.randrange(1, 40)
            line, a = crit_line(pa, [(pb, blen)], L)
            params, defaults = [pa, pb], ["0", "0"]
            if kind == "macro-pos":
                call = [(None, sumtext(rng, a)), (None, sumtext(rng, blen))]
            elif kind == "macro-key":
                call = [(pb, sumtext(rng, blen)), (pa, sumtext(rng, a))]
            else:
                defaults = [sumtext(rng, a), "0"]
                call = [(None, ""), (None, sumtext(rng, blen))]
        body = [("L", " db %d" % rng.randrange(256)), ("L", line), ("L", " db %d" % rng.randrange(256))]
        g.macros.append(("LM%d" % cid, params, defaults, body, False))
        top.append(("M", cid, "LM%d" % cid, params, defaults, [], body, call, False))
    elif kind == "irp":
        cid = g.fresh()
        v = "V%d" % cid
        line, a = crit_line(v, [], L)
        args = [sumtext(rng, rng.randrange(1, 30)) for _ in range(rng.randrange(0, 3))] + [sumtext(rng, a)]
        if tail_first:
            args.reverse()
        top.append(("I", cid, v, args, [], [("L", line)], False))
    elif kind == "irpn":
        cid = g.fresh()
        v, w = "V%d" % cid, "W%d" % cid
        blen = rng.randrange(1, 40)
        line, a = crit_line(v, [(w, blen)], L)
        args = [sumtext(rng, a), sumtext(rng, blen)]
        if rng.random() < 0.5:
            args = [sumtext(rng, rng.randrange(1, 30)), sumtext(rng, blen)] + args
        top.append(("N", cid, [v, w], args, [], [("L", line)], False))
    elif kind in ("rept-in-macro", "irp-in-macro", "irpc-in-macro", "macro-in-macro"):
        cid, iid = g.fresh(), g.fresh()
        pa, pb = "PA%d" % cid, "PB%d" % cid
        blen = rng.randrange(1, 40)
        if kind == "rept-in-macro":
            line, a = crit_line(pa, [(pb, blen)], L)
            inner = ("R", iid, rng.choice([1, 2, 3]), [], [("L", line)], False)
        elif kind == "irp-in-macro":
            # the iteration variable gets the macro's parameter through the IRP header
            v = "V%d" % iid
            line, a = crit_line(v, [(pb, blen)], L)
            inner = ("I", iid, v, [pa], [], [("L", line)], False)
        elif kind == "irpc-in-macro":
            c = "C%d" % iid
            line, a = crit_line(pa, [(pb, blen), ("'%s'" % c, 3)], L)
            inner = ("C", iid, c, rng.choice(["0", "07", "123"]), [], [("L", line)], False)
        else:
            # the inner macro gets the outer macro's parameter as its argument
            qa = "QA%d" % iid
            line, a = crit_line(qa, [], L)
            ibody = [("L", line)]
            g.macros.append(("LM%d" % iid, [qa], ["0"], ibody, False))
            inner = ("M", iid, "LM%d" % iid, [qa], ["0"], [], ibody, [(None, pa)], False)
        body = [("L", " db %d" % rng.randrange(256)), inner, ("L", " db %s&255" % pb)]
        params, defaults = [pa, pb], ["0", "0"]
        call = [(None, sumtext(rng, a)), (None, sumtext(rng, blen))]
        g.macros.append(("LM%d" % cid, params, defaults, body, False))
        top.append(("M", cid, "LM%d" % cid, params, defaults, [], body, call, False))
    else:
        raise ValueError(kind)
    top.append(("L", " db 254"))
    return top, g.macros


def gen_grow_on_store(rng, cs, L):
    """a physical body line of about L - k characters in which a ONE-LETTER parameter name stands k times: the stored
    line (two-byte tokens) has L characters, the delivered line is short again (one-character arguments)"""
    g = LongGen(rng, cs)
    cid = g.fresh()
    k = rng.randrange(max(1, L - 1012), 45)      # the physical line stays below the initial buffer size
    nm = rng.choice("EFGHJKQRTUVWXYZ")       # not A/B/C/D/H/L... register names do not matter inside `db`, but keep clear of them
    phys = L - k
    # ' db ' + items: k single-letter items, the rest literal numbers; joined by commas
    items = [nm] * k
    fixed = 4 + k + k          # ' db ' + letters + their commas (one pad item at the end carries no comma)
    q = phys - fixed
    if q < 1:
        return None
    tail = sumtext(rng, q)
    rng.shuffle(items)
    line = " db " + ",".join(items + [tail])
    assert len(line) == phys, (len(line), phys)
    kind = rng.choice(["macro", "irp", "irpc"])
    top = [("L", " db %d" % rng.randrange(256))]
    if kind == "macro":
        body = [("L", line)]
        g.macros.append(("LM%d" % cid, [nm], ["0"], body, False))
        top.append(("M", cid, "LM%d" % cid, [nm], ["0"], [], body, [(None, str(rng.randrange(10)))], False))
    elif kind == "irp":
        top.append(("I", cid, nm, [str(rng.randrange(10)) for _ in range(rng.randrange(1, 3))], [], [("L", line)], False))
    else:
        top.append(("C", cid, nm, rng.choice(["7", "19"]), [], [("L", line)], False))
    top.append(("L", " db 254"))
    return top, g.macros


def gen_ascending(rng, cs, lo, hi, kind):
    """one run, every delivered line one character longer than the one before"""
    g = LongGen(rng, cs)
    cid = g.fresh()
    m = rng.choice([3, 4, 5])                   # hi <= 1440: every argument stays below 480 characters (its value a byte)
    top = [("L", " db %d" % rng.randrange(256))]
    tail = str(rng.randrange(100, 256))
    if kind == "irp":
        # line = ' db ' + v*m + ',' + tail ; length = 4 + m*a + m + len(tail) -> steps of m; the pad variable w closes the gaps: IRPN v,w
        v, w = "V%d" % cid, "W%d" % cid
        line = " db " + ",".join([v] * m + [w, tail])
        fixed = 4 + m + 1 + len(tail)
        args = []
        for L in range(lo, hi + 1):
            room = L - fixed
            a = (room - 1) // m - rng.randrange(0, 3)
            q = room - m * a
            args += [sumtext(rng, a), sumtext(rng, q)]
        # the header line of an IRPN with all these arguments would itself be long: one IRPN per 1..2 lengths
        for j in range(0, len(args), 2):
            iid = g.fresh()
            top.append(("N", iid, [v, w], args[j:j + 2], [], [("L", line)], False))
    else:
        pa, pb = "PA%d" % cid, "PB%d" % cid
        line = " db " + ",".join([pa] * m + [pb, tail])
        fixed = 4 + m + 1 + len(tail)
        body = [("L", line)]
        params, defaults = [pa, pb], ["0", "0"]
        g.macros.append(("LM%d" % cid, params, defaults, body, False))
        for L in range(lo, hi + 1):
            room = L - fixed
            a = (room - 1) // m - rng.randrange(0, 3)
            q = room - m * a
            call = [(None, sumtext(rng, a)), (None, sumtext(rng, q))]
            top.append(("M", g.fresh(), "LM%d" % cid, params, defaults, [], body, call, False))
    top.append(("L", " db 254"))
    return top, g.macros
