"""C13, macro-local label spaces (Model/SymLoc.lean, Spec/LocScope.lean, Props/C13_Loc.lean, driver mode `c13l`).

Programs with MACRO / REPT / IRP / IRPN / IRPC / WHILE constructs (0..4 iterations, nested to depth 3, macros calling macros,
with and without {GLOBALSYMBOLS}) whose bodies define labels with names that also exist globally, in enclosing sections and in the
enclosing bodies; references stand inside the bodies (before and after the body's own definition), in nested constructs, behind
the construct (on its own level, behind the enclosing one, at the end of the program) and carry the section qualifiers `name[]`,
`name[PARENTn]`, `name[section]`; labels are defined behind constructs and reached through `name[]`.
Temporary symbols inside the bodies (`LGen.tmp_block`, `tmp_shape`): composed names `.name` (and `$$name`, `-` `+` `/`) defined and
referenced in bodies in other spellings, behind labels written in lower / mixed / upper case that stand outside the construct or in
the body itself, with the same composed name defined outside, the written-out composed name (`Start.lp`) referenced behind the
construct, with and without -U.  The counter assignments of a WHILE loop are statements of the program (they define a symbol, i.e.
they are what `.name` is composed with).  (C) for composed names: `Spec/LocTmp.compose` (loops written out, `.name` replaced by
`<most recently defined symbol>.name` in assembly order) in front of `LocScope.expand`; `$$name` / nameless symbols in bodies are
compared with the model only.  (A) `Props/C13_TmpLoc.lean`: the key FindLocNode looks up = the key EnterLocSymbol stored (compose,
then fold), spelling of the last label / of the temporary name immaterial without -U.

(B) real asl vs `SymLoc.assembleL` (handle stack PushLocHandle / PopLocHandle / GetLocHandle per iteration, FindLocNode before
FindNode, EnterLocSymbol, pass loop), (C) `LocScope.expand` (every expansion / iteration has a label space of its own: the body's
labels renamed per iteration) + `Scope.judge` on the real image.  Values are read back as data words through the Lean `pfile`
reader, diagnostics by number from the -E file.

(A) `Props/C13_Loc.lean` proves the agreement of the two for all programs (`C13_loc_refines`: every pass with a settled local table,
i.e. every pass after the first; `C13_loc_refines_first_pass`: the first pass when no reference precedes the label of its own body).
The driver evaluates both sides of these theorems on every generated program (`hyp= settled2= ref1= ref2= nofwd=`): a difference
where the theorems' hypotheses hold is reported as a proof problem (the executable definitions are not the ones proved about),
`distribution.local_label_spaces.refinement` counts on how many programs the hypotheses hold.
"""
import os
from concurrent.futures import ThreadPoolExecutor

from .. import common
from . import c13 as base

SIG_LOCFWD = "forward-ref-in-macro-body-binds-outer-symbol-when-no-second-pass"

NAMES = ["mark", "lp", "Skip", "x_1", "done"]
SECS = ["Alpha", "Beta", "Proc", "Io"]
KINDS = ["m", "r", "i", "n", "c", "w"]
KIND_NAME = dict(m="MACRO", r="REPT", i="IRP", n="IRPN", c="IRPC", w="WHILE")


# ----------------------------------------------------------------------------------------------
# trees:  ("op", stmt) | ("con", kind, glob, n, body) | ("call", k)       macros: list of (glob, body)

def tokens(items, macros, wc=None):
    """driver tokens; the counter of a WHILE loop (`wcN := 0` in front of it, `wcN := wcN+1` as the last body line) is part of the
    program: an assignment is a definition of a non-temporary symbol (it opens a range of temporary symbols).  Its value is never
    referenced, the token carries 0."""
    out = []
    wc = wc if wc is not None else [0]
    for it in items:
        if it[0] == "op":
            out.append(base.tok(it[1]))
        elif it[0] == "call":
            g, body = macros[it[1]]
            out.append("{:m:%d:1" % (1 if g else 0))
            out += tokens(body, macros, [1000 * (it[1] + 1)])
            out.append("}")
        else:
            _, kind, glob, n, body = it
            w = None
            if kind == "w":
                wc[0] += 1
                w = base.tok(("D", "wc%d" % wc[0], 0, True, "asg"))
                out.append(w)
            out.append("{:%s:%d:%d" % (kind, 1 if glob else 0, n))
            out += tokens(body, macros, wc)
            if w:
                out.append(w)
            out.append("}")
    return out


class Render:
    def __init__(self, c):
        self.c = c
        self.wc = 0
        self.np = 0

    def items(self, items, lines):
        c = self.c
        for it in items:
            if it[0] == "op":
                lines.append(base.render(it[1], c))
            elif it[0] == "call":
                lines.append("\tmc%d" % it[1])
            else:
                _, kind, glob, n, body = it
                g = "{GLOBALSYMBOLS}," if glob else ""
                # loop parameters: unique per construct (an enclosing loop substitutes its parameter in nested header lines too)
                self.np += 1
                pa, pb = "zp%da" % self.np, "zp%db" % self.np
                if kind == "r":
                    lines.append("\trept\t%s%d" % (g, n))
                elif kind == "i":
                    lines.append("\tirp\t%s,%s%s" % (pa, g, ",".join("a%d" % i for i in range(n))))
                elif kind == "n":
                    lines.append("\tirpn\t2,%s,%s,%s%s" % (pa, pb, g, ",".join("a%d" % i for i in range(2 * n))))
                elif kind == "c":
                    lines.append("\tirpc\t%s,%s\"%s\"" % (pa, g, "uvwxyz"[:n]))
                elif kind == "w":
                    self.wc += 1
                    w = "wc%d" % self.wc
                    lines.append("%s\t:=\t0" % w)
                    lines.append("\twhile\t%s%s<%d" % (g, w, n))
                self.items(body, lines)
                if kind == "w":
                    lines.append("%s\t:=\t%s+1" % (w, w))
                lines.append("\tendm")


def source(prog, c):
    items, macros = prog
    r = Render(c)
    lines = ["\tcpu\t%s" % c["cpu"], "\torg\t0"]
    for k, (g, body) in enumerate(macros):
        lines.append("mc%d\tmacro%s" % (k, "\t{GLOBALSYMBOLS}" if g else ""))
        r.wc = 1000 * (k + 1)          # WHILE counters: numbered per macro text (as `tokens` does at every call)
        r.items(body, lines)
        lines.append("\tendm")
    r.wc = 0
    r.items(items, lines)
    return "\n".join(lines) + "\n"


# ----------------------------------------------------------------------------------------------
# generator

class LGen:
    def __init__(self, rng, cs):
        self.rng = rng
        self.cs = cs
        self.val = 0x2000
        self.macros = []
        self.inject = rng.random() < 0.12           # deliberately doubtful material (double labels, undefined references)
        self.glob_names = set()
        self.secdefs = {}
        self.in_macro = False
        self.fresh = 0
        # temporary symbols (.name, $$name, - + /) inside the bodies, behind labels written in lower / mixed / upper case
        self.tmp = rng.random() < 0.4
        # mostly composed names alone (the spec of the label spaces judges those); otherwise all forms (model = real only)
        self.tmpkinds = ["dot"] if rng.random() < 0.65 else ["dot", "dot", "dot", "dol", "nameless"]
        self.topn = 0
        self.stats = dict(tmp_programs=1 if self.tmp else 0, tmp_dot=0, tmp_dollar=0, tmp_nameless=0, tmp_opener_inside=0, tmp_global_same=0,
                          constructs=0, nested=0, calls=0, glob=0, body_labels=0, body_refs=0, after_refs=0, qual_refs=0,
                          sections=0, labels_after=0, kinds={}, iters={})

    def f(self, n):
        return n if self.cs else n.upper()

    def spell(self, n):
        if self.cs or self.rng.random() < 0.6:
            return n
        return self.rng.choice([n.upper(), n.lower(), n.swapcase()])

    def nextval(self):
        self.val += self.rng.choice([1, 3, 16])
        return self.val

    def label(self, n):
        r = self.rng.random()
        n = self.spell(n)
        if r < 0.45:
            return ("op", ("L", n, "c"))
        if r < 0.7:
            return ("op", ("L", n, "p"))
        if r < 0.85:
            return ("op", ("T", n))
        return None            # caller makes a W with a reference

    def qual_to(self, path, k):
        """a qualifier that names the ancestor-or-self `path[:k]` of `path`"""
        rng = self.rng
        d = len(path) - k
        forms = ["PARENT%d" % d] if not self.in_macro else []
        if k == 0:
            forms += ["", ""]
        else:
            nm = path[k - 1]
            if [i for i in range(len(path)) if self.f(path[i]) == self.f(nm)][-1] == k - 1:
                forms += [nm, nm]
        if d == 1:
            forms.append("PARENT")
        q = rng.choice(forms)
        return self.spell(q) if not q.startswith("PARENT") else rng.choice([q, q.lower()])

    def defs_at(self, path):
        return sorted(self.glob_names) if not path else sorted(self.secdefs.get(path, ()))

    def ref(self, names, path, qualp=0.2):
        """a reference: unqualified to one of `names`, or qualified to a symbol of an enclosing section / the global level"""
        rng = self.rng
        if rng.random() < qualp:
            k = rng.randrange(len(path) + 1)
            cands = self.defs_at(path[:k])
            if self.inject and rng.random() < 0.2:
                cands = cands + names
            if cands:
                self.stats["qual_refs"] += 1
                return "%s[%s]" % (self.spell(rng.choice(cands)), self.qual_to(path, k))
        return self.spell(rng.choice(names))

    def visible_syms(self, path):
        out = set(self.glob_names)
        for k in range(1, len(path) + 1):
            out |= set(self.secdefs.get(path[:k], ()))
        return sorted(out)

    def casing(self, n):
        """a spelling of a fresh name with lower-case letters, mixed case, or capitals only (the *written* form is what a composed
        temporary name is built from)"""
        r = self.rng.random()
        return n.lower() if r < 0.35 else n.capitalize() if r < 0.6 else n.swapcase() if r < 0.7 else n.upper()

    def tmp_def(self, t, refs):
        r = self.rng.random()
        if r < 0.4:
            return ("op", ("L", t, "c"))
        if r < 0.6:
            return ("op", ("L", t, "p"))
        if r < 0.8:
            return ("op", ("T", t))
        return ("op", ("W", t, self.rng.choice(refs)))

    def tmp_block(self, inside):
        """statements with temporary symbols: [a label that opens the range] [reference] definition reference(s)"""
        rng = self.rng
        kind = rng.choice(self.tmpkinds)
        out = []
        if kind == "nameless":
            self.stats["tmp_nameless"] += 1
            nb = 0
            pend = 0
            for _ in range(rng.choice([2, 3, 4])):
                r = rng.random()
                if r < 0.3:
                    out.append(("op", ("L", rng.choice("-/"), "c")))
                    nb += 1
                    pend = max(0, pend - 1)
                elif r < 0.45:
                    out.append(("op", ("L", "+", "c")))
                    pend = max(0, pend - 1)
                elif r < 0.75 and nb:
                    out.append(("op", ("U", "-" * rng.randint(1, min(3, nb)))))
                else:
                    k = rng.randint(1, 2)
                    out.append(("op", ("U", "+" * k)))
                    pend = max(pend, k)
            for _ in range(pend):
                out.append(("op", ("L", rng.choice("+/"), "c")))
            return out
        if kind == "dot":
            t = rng.choice([".lp", ".lp", ".L1"])
            self.stats["tmp_dot"] += 1
        else:
            t = rng.choice(["$$lp", "$$Go"])
            self.stats["tmp_dollar"] += 1
        if rng.random() < (0.5 if inside else 0.8):
            self.topn += 1
            out.append(("op", ("L", self.casing("tp%dx" % self.topn), rng.choice("cp"))))
            if inside:
                self.stats["tmp_opener_inside"] += 1
        if rng.random() < 0.2:
            out.append(("op", ("U", self.spell(t))))
        out.append(self.tmp_def(t, [t, self.spell(t)]))
        for _ in range(rng.choice([1, 1, 2])):
            out.append(("op", ("U", self.spell(t))))
        return out

    def body(self, depth, path, outer_labels, in_macro, n_iter, glob, callable_macros):
        """one body text; returns (items, labels it defines in its own space)"""
        rng = self.rng
        own = []
        if glob and not self.inject:
            # labels of a GLOBALSYMBOLS body belong to the enclosing space: fresh names, and only when the body runs once
            if n_iter == 1:
                self.fresh += 1
                own = ["gl%d" % self.fresh]
        else:
            k = rng.choice([0, 1, 1, 2, 2])
            own = rng.sample(NAMES, k)
        items = []
        visible = list(own) + list(outer_labels) + self.visible_syms(path)
        if not visible or (self.inject and rng.random() < 0.3):
            visible = visible + [rng.choice(NAMES)]
        # references before the definitions (forward inside the body), definitions, references after them
        for n in own:
            pre = []
            if rng.random() < 0.25:
                pre.append(("op", ("U", self.ref([n], path, 0.1))))
            lab = self.label(n)
            if lab is None:
                lab = ("op", ("W", self.spell(n), self.ref(visible, path)))
            items += pre + [lab]
            self.stats["body_labels"] += 1
            if self.inject and rng.random() < 0.15:
                items.append(("op", ("L", n, "c")))          # the same label twice in one space
        nrefs = rng.choice([1, 1, 2, 2, 3])
        for _ in range(nrefs):
            items.insert(rng.randrange(len(items) + 1), ("op", ("U", self.ref(visible, path))))
            self.stats["body_refs"] += 1
        if rng.random() < 0.15:
            # SET is always global, also in a body (`name` chosen so that it never collides with a label)
            v = "gv%d" % rng.randrange(3)
            items.insert(rng.randrange(len(items) + 1), ("op", ("D", v, self.nextval(), True, rng.choice(["asg", "eval"]))))
            self.glob_names.add(v)
        # nested constructs and macro calls
        if depth < 3:
            for _ in range(rng.choice([0, 0, 0, 1, 1, 2] if depth < 2 else [0, 0, 0, 1])):
                sub = self.construct(depth + 1, path, list(own) + list(outer_labels), callable_macros)
                pos = rng.randrange(len(items) + 1)
                items[pos:pos] = sub
                self.stats["nested"] += 1
        if not items:
            items.append(("op", ("U", self.ref(visible, path))))
        if self.tmp and not (glob and n_iter != 1):
            for _ in range(rng.choice([0, 1, 1, 2])):
                pos = rng.randrange(len(items) + 1)
                items[pos:pos] = self.tmp_block(True)
        return items, own

    def construct(self, depth, path, outer_labels, callable_macros):
        """a construct plus the statements behind it that look at its labels; returns a list of items"""
        rng = self.rng
        kinds = [k for k in KINDS if k != "m" or callable_macros]
        kind = rng.choice(kinds)
        self.stats["constructs"] += 1
        self.stats["kinds"][kind] = self.stats["kinds"].get(kind, 0) + 1
        if kind == "m":
            k = rng.choice(callable_macros)
            self.stats["calls"] += 1
            it = ("call", k)
            own = self.macro_labels[k]
            n = 1
        else:
            n = rng.choice([1, 2, 2, 3, 3, 4]) if rng.random() < 0.93 else 0
            if kind in ("i", "n") and n == 0:
                n = 1
            glob = rng.random() < 0.2
            if glob:
                self.stats["glob"] += 1
            body, own = self.body(depth, path, outer_labels, False, n, glob, callable_macros)
            it = ("con", kind, glob, n, body)
        self.stats["iters"][n] = self.stats["iters"].get(n, 0) + 1
        out = [it]
        # behind the construct: references to the names its body used as labels, and to anything else visible
        pool = list(own) + list(outer_labels) + self.visible_syms(path)
        if pool:
            for _ in range(rng.choice([0, 1, 1, 2])):
                vis = self.visible_syms(path) + list(outer_labels)
                own_vis = [x for x in own if x in vis]
                # mostly names that still mean something behind the construct; sometimes one that only the body knew (must be refused)
                names = own_vis if (own_vis and rng.random() < 0.7) else (own if (own and rng.random() < 0.08) else (vis or pool))
                out.append(("op", ("U", self.ref(names, path))))
                self.stats["after_refs"] += 1
        return out

    def toplevel(self, path, depth, callable_macros):
        rng = self.rng
        items = []
        n_el = rng.choice([1, 2, 2, 3]) if depth else rng.choice([2, 3, 3, 4])
        for _ in range(n_el):
            r = rng.random()
            if r < 0.5:
                if self.tmp and rng.random() < 0.6:
                    # the same temporary names outside: the composed name exists globally / in the section
                    blk = self.tmp_block(False)
                    items += blk
                    self.stats["tmp_global_same"] += 1
                items += self.construct(1, path, [], callable_macros)
                if rng.random() < 0.35:
                    # a label behind the construct and a reference that names its section
                    n = "aft%d" % len(items)
                    items.append(("op", ("L", n, rng.choice("pc"))))
                    items.append(("op", ("U", "%s[%s]" % (n, self.qual_to(path, len(path))))))
                    self.stats["labels_after"] += 1
            elif r < 0.7 and depth < 2:
                sn = rng.choice(SECS)
                if self.f(sn) in [self.f(x) for x in path] or any(it[0] == "op" and it[1][0] == "S" and self.f(it[1][1]) == self.f(sn) for it in items):
                    continue
                self.stats["sections"] += 1
                items.append(("op", ("S", sn)))
                # the section's own symbols with the names the bodies use
                mine = rng.sample(NAMES, rng.choice([0, 1, 2]))
                self.secdefs[path + (sn,)] = set(mine)
                for n in mine:
                    items.append(("op", ("D", n, self.nextval(), False, "equ")))
                items += self.toplevel(path + (sn,), depth + 1, callable_macros)
                items.append(("op", ("E", None if rng.random() < 0.5 else sn)))
            else:
                vis = self.visible_syms(path) or NAMES[:1]
                items.append(("op", ("U", self.ref(vis, path))))
        return items

    def program(self):
        rng = self.rng
        # global symbols with the names the bodies use as labels: constants defined up front, labels, or defined at the very end
        late = []
        head = []
        for n in NAMES:
            r = rng.random()
            if r < 0.5:
                head.append(("op", ("D", n, self.nextval(), False, rng.choice(["equ", "eq"]))))
                self.glob_names.add(n)
            elif r < 0.65:
                head.append(("op", ("L", n, "c")))
                self.glob_names.add(n)
            elif r < 0.8:
                late.append(("op", ("D", n, self.nextval(), False, "equ")))
                self.glob_names.add(n)
        # the variables the bodies assign with SET exist from the start (a body may run zero times, a macro may never be called)
        for i in range(3):
            head.append(("op", ("D", "gv%d" % i, self.nextval(), True, rng.choice(["asg", "eval"]))))
            self.glob_names.add("gv%d" % i)
        # macros: a macro may call the ones defined before it
        self.macro_labels = []
        for k in range(rng.choice([0, 1, 2, 2, 3])):
            glob = rng.random() < 0.2
            self.in_macro = True
            body, own = self.body(2, (), [], True, 1, glob, list(range(k)))
            self.in_macro = False
            self.macros.append((glob, body))
            self.macro_labels.append(own)
        if rng.random() < 0.6:
            # a forward reference to a global constant defined at the very end: asks for a second pass
            head.append(("op", ("U", "zlate")))
            late.append(("op", ("D", "zlate", self.nextval(), False, "equ")))
        items = head + self.toplevel((), 0, list(range(len(self.macros))))
        # the end of the program: every name once more, from the global level
        for n in NAMES:
            if n in self.glob_names or rng.random() < 0.01:
                items.append(("op", ("U", self.spell(n) + rng.choice(["", "", "[]"]))))
        items += late
        return items, self.macros


def shape(kind, n, glob, where, fwd, cs_spelling):
    """systematic: a global `mark` and `lp`, a construct whose body defines `mark` and `lp`, references inside, behind the construct,
    a label behind the construct reached with `name[]`; `where`: top | sec (inside a section that has its own `mark`) | in-<kind>
    (nested in another loop of two iterations that has a `mark` of its own).  With GLOBALSYMBOLS the body's labels are those of the
    enclosing space (the global `mark` / `lp` are then left out; the labels exist only when the body runs once)"""
    m = "Mark" if cs_spelling else "mark"
    nested = where.startswith("in-")
    labels = not (glob and n > 1)
    body = []
    if fwd:
        body.append(("op", ("U", "lp")))
    if labels:
        body += [("op", ("L", "mark", "c")), ("op", ("U", m)), ("op", ("T", "lp")), ("op", ("W", "x_1", "lp"))]
    body += [("op", ("U", "mark[]")), ("op", ("U", "mark"))]
    macros = []
    if kind == "m":
        macros.append((glob, body))
        con = [("call", 0)] * (1 if glob else max(1, min(n, 2)))
    else:
        con = [("con", kind, glob, n, body)]
    after = [("op", ("U", "mark")), ("op", ("U", "lp")), ("op", ("L", "aft", "c")), ("op", ("U", "aft[]")), ("op", ("U", "aft"))]
    # the global symbols of the same names (left out where the GLOBALSYMBOLS body itself defines them globally)
    globs_in_body = glob and labels and not nested
    head = [] if globs_in_body else [("op", ("D", "mark", 0x1111, False, "equ")), ("op", ("D", "lp", 0x2222, False, "equ"))]
    if globs_in_body and where == "sec":
        head = [("op", ("D", "mark", 0x1111, False, "equ"))]
    if where == "top":
        items = head + con + after
    elif where == "sec":
        sec_own = [] if globs_in_body else [("op", ("D", "mark", 0x3333, False, "equ"))]
        items = head + [("op", ("S", "Proc"))] + sec_own + con + \
            [("op", ("U", "mark")), ("op", ("U", "mark[PARENT0]")), ("op", ("U", "lp")), ("op", ("L", "aft", "c")), ("op", ("U", "aft[Proc]")),
             ("op", ("E", None))] + [("op", ("U", "mark"))] + ([] if globs_in_body else [("op", ("U", "lp"))])
    else:
        okind = where[3:]
        outer_own = [] if (glob and labels) else [("op", ("L", "mark", "c"))]
        outer_body = outer_own + [("op", ("U", "mark"))] + con + [("op", ("U", "mark")), ("op", ("U", "lp"))]
        items = head + [("con", okind, False, 2, outer_body)] + after
    return items, macros


def tmp_shape(rng, kind, n, glob, lastcase, inside, global_same, fwd, cs):
    """systematic: a label `Start` written in lower / mixed / upper case, optionally a composed temporary `.lp` of its range outside;
    a construct whose body optionally opens a range of its own (`Inner`, same spellings), defines `.lp` and refers to it in other
    spellings; behind the construct the composed names written in full"""
    sp = dict(lower=str.lower, mixed=str.capitalize, upper=str.upper)[lastcase]
    alt = (lambda x: x) if cs else (lambda x: rng.choice([x, x.upper(), x.lower(), x.swapcase()]))
    start, inner = sp("start"), sp("inner")
    t = rng.choice([".lp", ".Lp"])
    head = [("op", ("D", "mark", 0x1111, False, "equ")), ("op", ("L", start, "c"))]
    if global_same:
        head += [("op", ("L", t, "c")), ("op", ("U", alt(t)))]
    body = []
    if inside:
        body.append(("op", ("L", inner, rng.choice("cp"))))
    if fwd:
        body.append(("op", ("U", alt(t))))
    body += [("op", ("L", t, rng.choice("cp"))), ("op", ("U", alt(t))), ("op", ("U", "mark"))]
    if rng.random() < 0.5:
        body.append(("op", ("W", "x_1", alt(t))))
    macros = []
    if kind == "m":
        macros.append((glob, body))
        con = [("call", 0)] * n
    else:
        con = [("con", kind, glob, n, body)]
    after = [("op", ("L", sp("after"), "c"))]
    if global_same:
        after.append(("op", ("U", alt(start + t))))
    if rng.random() < 0.5:
        after += [("op", ("L", t, "c")), ("op", ("U", alt(t)))]
    return head + con + after, macros


def gen_cases(rng, n_rand):
    cases = []
    for kind in KINDS:
        for lastcase in ("lower", "mixed", "upper"):
            for inside in (False, True):
                for global_same in (False, True):
                    n = rng.choice([1, 2, 2, 3])
                    glob = rng.random() < 0.1
                    if glob:
                        n = 1
                    fwd = rng.random() < 0.2
                    cs = rng.random() < 0.25
                    prog = tmp_shape(rng, kind, n, glob, lastcase, inside, global_same, fwd, cs)
                    cases.append(dict(tag="loc:tmp:%s:n%d:g%d:%s:i%d:s%d:f%d:u%d" % (kind, n, glob, lastcase, inside, global_same, fwd, cs), cs=cs,
                                      cpu=rng.choice(list(base.CPUS)), prog=prog, stats=None))
    for kind in KINDS:
        for n in (1, 2, 3, 4):
            for glob in (False, True):
                wheres = ["top", "sec"] + ["in-" + k for k in ("r", "i", "c", "w")]
                for where in wheres:
                    if kind == "m" and n > 2:
                        continue
                    if where.startswith("in-") and n > 2 and rng.random() < 0.5:
                        continue
                    fwd = rng.random() < 0.2
                    prog = shape(kind, n, glob, where, fwd, rng.random() < 0.3)
                    cases.append(dict(tag="loc:shape:%s:n%d:g%d:%s:f%d" % (kind, n, glob, where, fwd), cs=False, cpu=rng.choice(list(base.CPUS)),
                                      prog=prog, stats=None))
    for i in range(n_rand):
        cs = rng.random() < 0.3
        g = LGen(rng, cs)
        prog = g.program()
        toks = tokens(prog[0], prog[1])
        if len(toks) > 700:
            continue
        cases.append(dict(tag="loc:rand:%d" % i, cs=cs, cpu=rng.choice(list(base.CPUS)), prog=prog, stats=g.stats))
    return cases


# ----------------------------------------------------------------------------------------------
# running

def run_real(bdir, wd, idx, case):
    c = base.CPUS[case["cpu"]]
    src = source(case["prog"], c)
    name = "l%d" % idx
    f = os.path.join(wd, name + ".asm")
    open(f, "w", encoding="latin-1").write(src)
    flags = ["-q", "-n", "-E", name + ".err"] + (["-U"] if case["cs"] else []) + [name + ".asm", "-o", name + ".p"]
    rc, so, se = common.run_tool(bdir, "asl", flags, wd, timeout=60, env={"ASL_VERIF_MAX_PASSES": str(base.MAX_PASSES)})
    errs = []
    ef = os.path.join(wd, name + ".err")
    if os.path.exists(ef):
        for line in open(ef, errors="replace"):
            m = base.ERR_RE.match(line)
            if m:
                errs.append(int(m.group(4)))
            elif line.startswith("> > >") and "#" in line:
                errs.append(0)
    pf = os.path.join(wd, name + ".p")
    pb = open(pf, "rb").read() if os.path.exists(pf) else None
    for x in (ef, pf, f):
        if os.path.exists(x):
            os.unlink(x)
    st = "timeout" if rc == "timeout" else ("sig" if (rc < 0 or rc >= 128) else str(rc))
    return st, errs, pb, src


def request(case, obs):
    c = base.CPUS[case["cpu"]]
    return "%d %02x %s %s" % (1 if case["cs"] else 0, c["nop"], obs, " ".join(tokens(case["prog"][0], case["prog"][1])))


def classify(k, case, obs, src):
    d0 = dict(tag=case["tag"], mode="c13l", request=request(case, obs), source=src, flags="-U" if case["cs"] else "",
              driver={a: b for a, b in k.items() if a not in ("exp",)})
    if k.get("spec") == "bad":
        why = k.get("why")
        sig = None
        if k.get("model") == "eq" and why == "bytes":
            if k.get("onlyshadow") == "1":
                sig = base.SIG_SHADOW
            elif k.get("onlyfwd") == "1" and k.get("mpasses") == "1":
                sig = SIG_LOCFWD
        d = dict(d0, why="labels of a macro / loop body are local to the expansion (Spec/LocScope.expand + Scope.judge); on the real asl: " + str(why))
        if sig:
            d["sig"] = sig
        return "spec", d
    if k.get("model") != "eq":
        return "corr", dict(d0, why="real asl differs from Model/SymLoc (spec held or does not judge)")
    return None, None


def run(bdir, rng, thorough, spec_fail, corr_fail, proof_problems, dist):
    cases = gen_cases(rng, 6000 if thorough else 500)
    with common.Workdir("c13l") as wd:
        def one(ic):
            return run_real(bdir, wd, ic[0], ic[1])
        with ThreadPoolExecutor(max_workers=4) as ex:
            reals = list(ex.map(one, enumerate(cases)))
    imgs = base.images([r[2] for r in reals])
    reqs, obss = [], []
    for c, (st, errs, pb, src), img in zip(cases, reals, imgs):
        obs = "%s;%s;%s" % (st, (img.hex() if img else "-") or "-", ",".join(str(e) for e in errs) or "-")
        obss.append(obs)
        reqs.append(request(c, obs))
    answers = common.driver("c13l", reqs, timeout=1800)
    d = dict(programs=len(cases), verdict={}, passes={}, not_accepted={}, references_checked=0, forward_local_refs=0, label_spaces=0, generator={},
             refinement=dict(hypotheses_hold=0, second_pass_is_expansion=0, first_pass_is_expansion=0, first_pass_without_forward_refs=0,
                             first_pass_differs_only_with_forward_refs=0))
    agg = d["generator"]
    samples = []
    for c, (st, errs, pb, src), obs, ans in zip(cases, reals, obss, answers):
        k = base.kv(ans)
        if not k:
            proof_problems.append("driver rejected a c13l request: %s (%s)" % (c["tag"], ans[:80]))
            continue
        d["verdict"][k.get("verdict")] = d["verdict"].get(k.get("verdict"), 0) + 1
        d["passes"][k.get("mpasses")] = d["passes"].get(k.get("mpasses"), 0) + 1
        if k.get("verdict") != "accept":
            w = k.get("verdict") + ":" + k.get("vwhy", "-")
            d["not_accepted"][w] = d["not_accepted"].get(w, 0) + 1
        d["label_spaces"] += int(k.get("spaces", "0"))
        # the two sides of C13_loc_refines / C13_loc_refines_first_pass evaluated on this program (the theorems say: never differ)
        rf = d["refinement"]
        if k.get("hyp") == "1":
            rf["hypotheses_hold"] += 1
            if k.get("settled2") == "1" and k.get("ref2") == "1":
                rf["second_pass_is_expansion"] += 1
            else:
                proof_problems.append("C13_loc_refines contradicted by evaluation (settled2=%s ref2=%s): %s" % (k.get("settled2"), k.get("ref2"), c["tag"]))
            if k.get("ref1") == "1":
                rf["first_pass_is_expansion"] += 1
            if k.get("nofwd") == "1":
                rf["first_pass_without_forward_refs"] += 1
                if k.get("ref1") != "1":
                    proof_problems.append("C13_loc_refines_first_pass contradicted by evaluation: %s" % c["tag"])
            elif k.get("ref1") != "1":
                rf["first_pass_differs_only_with_forward_refs"] += 1
        d["forward_local_refs"] += int(k.get("locfwd", "0"))
        if k.get("verdict") == "accept" and k.get("spec") == "ok":
            d["references_checked"] += int(k.get("swords", "0"))
        if c["stats"]:
            for a, b in c["stats"].items():
                if isinstance(b, dict):
                    t = agg.setdefault(a, {})
                    for x, y in b.items():
                        t[str(x)] = t.get(str(x), 0) + y
                else:
                    agg[a] = agg.get(a, 0) + b
        kind, f = classify(k, c, obs, src)
        if kind == "spec":
            spec_fail.append(f)
        elif kind == "corr":
            corr_fail.append(f)
        elif len(samples) < 2 and c["tag"].startswith("loc:rand") and int(k.get("swords", "0")) >= 10 and k.get("spec") == "ok":
            samples.append(dict(tag=c["tag"], flags="-U" if c["cs"] else "", source=src[:1200], observed=obs[:200], verdict=ans[:260]))
    dist["local_label_spaces"] = d
    return len(cases), samples
