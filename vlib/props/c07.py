"""C07 - PBIND conserves records and PLIST reports them truthfully.

The harness writes the input code files itself (independent of asl): mixed families / segments /
granularities, short ($01..$7f) and long ($81) headers, entry records, zero-length records, lengths up
to 65535, 1..4 files, with and without -f/+f lists, quiet and non-quiet runs (the latter matters: pbind's
WriteRecordHeader consults a stale errno only in quiet mode).

(B) real pbind / plist vs the Lean model (Model/PBind.lean, Model/PList.lean) - target bytes, exit status,
    printed byte counts, stdout bytes.
    Filter options: every pbind run hands its -f/+f options (environment variable BINDCMD first, then the command
    line) to the Lean model of CMD_FilterList's ARRAY (Model/FilterList.lean, generated capacity) and to the documented
    SET (Spec/FilterSet.lean); Props/C07_Filter.lean proves array = set within the capacity.  Filter probes: a code file
    with one one-byte record per header id 1..255 run through pbind / p2bin / p2hex under generated option sequences
    (duplicates, removals of absent / first / last entries, up to the capacity, via *CMD variables) - the ids the real
    tool selects vs the model's array (B) and vs the documented set (C).
(C) the Lean SPEC on the real output: parseFile(target) = filtered concatenation of parseFile(inputs);
    every plist line read back by words = the record's family/segment/start/length/last address; totals.
"""
import json
import os
import re
import shutil
import struct

from .. import common
from ..common import log

PROP = "C07"

# granularity the harness *intends* (only used to decide which records it may write in short form and to
# make most lengths whole granules; the files' meaning is defined by the bytes, not by this table)
NAT_GRAN = {0x09: 4, 0x76: 4, 0x7d: 4, 0x36: 2, 0x70: 2, 0x71: 2, 0x72: 2, 0x74: 2, 0x75: 2, 0x77: 2, 0x12: 2, 0x6d: 2,
            0x3b: 2, 0x1a: 2, 0x1b: 2, 0x1c: 2, 0x1d: 2}
FAMS_COMMON = [0x01, 0x11, 0x31, 0x51, 0x42, 0x61, 0x70, 0x76, 0x3b, 0x09, 0x12, 0x7d, 0x41, 0x68, 0x4a, 0x56, 0x02, 0x7f]
FAMS_UNKNOWN = [0x0b, 0x10, 0x20, 0x80, 0x81, 0x85, 0xc3, 0xff, 0x7f + 1]
LEN_SMALL = [0, 0, 1, 2, 3, 4, 5, 7, 8, 16, 31, 32, 100, 255, 256, 257, 511, 512, 513]
LEN_BIG = [8191, 8192, 8193, 16383, 16384, 16385, 24576, 32767, 32768, 40000, 65532, 65533, 65534, 65535]
ADDR_POOL = [0, 1, 0xff, 0x100, 0x7fff, 0x8000, 0xffff, 0x10000, 0xffffff, 0x7fffffff, 0x80000000, 0xfffffffe, 0xffffffff]
CREATORS = [b"AS 1.42/x86_64-unknown-linux", b"BIND/C 1.42", b"x", b"creator with  blanks ", b"\x01\xfe\xff\x80 bin"]
ENOENT = 2


def ser_item(it):
    if it[0] == "E":
        return b"\x80" + struct.pack("<I", it[1])
    if it[0] == "D":
        _, cpu, seg, gran, start, data, short = it
        body = struct.pack("<IH", start, len(data)) + data
        if short:
            return bytes([cpu]) + body
        return bytes([0x81, cpu, seg, gran]) + body
    if it[0] == "R":      # $82..$84: header like $81; skipped by pbind, listed by plist
        _, kind, cpu, seg, gran, start, data = it
        return bytes([kind, cpu, seg, gran]) + struct.pack("<IH", start, len(data)) + data
    if it[0] == "I":      # $85 relocation info
        _, nrel, nexp, strings = it
        return b"\x85" + struct.pack("<III", nrel, nexp, len(strings)) + bytes(16 * nrel) + bytes(16 * nexp) + strings
    if it[0] == "U":      # unknown kind > $85: SkipRecord default (addr, len, payload)
        _, kind, start, data = it
        return bytes([kind]) + struct.pack("<IH", start, len(data)) + data
    raise AssertionError(it)


def ser_file(items, creator):
    return b"\x89\x14" + b"".join(ser_item(i) for i in items) + b"\x00" + creator


def gen_record(rng, big_ok, stats):
    r = rng.random()
    cpu = rng.choice(FAMS_COMMON) if r < 0.8 else (rng.randrange(1, 0x80) if r < 0.93 else rng.choice(FAMS_UNKNOWN))
    nat = NAT_GRAN.get(cpu, 1)
    r = rng.random()
    seg = 1 if r < 0.6 else (rng.choice([2, 3, 4]) if r < 0.85 else rng.randrange(0, 11))
    if cpu in (0x3b, 0x1a, 0x1b, 0x1c, 0x1d) and seg != 1:
        nat = 1
    r = rng.random()
    gran = nat if r < 0.8 else rng.choice([1, 2, 4, 8, 3])
    if big_ok and rng.random() < 0.3:
        n = rng.choice(LEN_BIG) if rng.random() < 0.7 else rng.randrange(8000, 65536)
    else:
        n = rng.choice(LEN_SMALL) if rng.random() < 0.6 else rng.randrange(0, 600)
    if rng.random() < 0.85:
        n -= n % gran
    start = rng.choice(ADDR_POOL) if rng.random() < 0.4 else rng.randrange(0, 1 << rng.choice([8, 16, 24, 32]))
    k = rng.random()
    if k < 0.5:
        data = bytes(rng.getrandbits(8) for _ in range(min(n, 64))) * (n // 64 + 1)
        data = data[:n]
    elif k < 0.8:
        data = bytes([rng.choice([0x00, 0x80, 0x81, 0x89, 0x14, 0xff])]) * n   # header look-alikes
    else:
        data = bytes((i * 7 + 3) & 0xff for i in range(n))
    can_short = seg == 1 and cpu < 0x80 and gran == NAT_GRAN.get(cpu, 1)
    short = can_short and rng.random() < 0.5
    stats["records"] += 1
    stats["short_in" if short else "long_in"] += 1
    if can_short and not short:
        stats["long_but_short_eligible_in"] += 1
    if n == 0:
        stats["zero_len"] += 1
    if n >= 8192:
        stats["len_ge_8192"] += 1
    if n == 65535:
        stats["len_65535"] += 1
    stats["max_len"] = max(stats["max_len"], n)
    stats["fams"].add(cpu)
    stats["segs"].add(seg)
    stats["grans"].add(gran)
    return ("D", cpu, seg, gran, start, data, short)


def gen_file(rng, big_ok, stats, reloc=False):
    nrec = rng.choice([0, 1, 1, 2, 3, 4, 6, 9])
    items = [gen_record(rng, big_ok and i < 3, stats) for i in range(nrec)]
    for _ in range(rng.choice([0, 0, 1, 1, 2])):
        items.insert(rng.randrange(len(items) + 1), ("E", rng.choice(ADDR_POOL) if rng.random() < 0.5 else rng.randrange(1 << 32)))
        stats["entries"] += 1
    if reloc:
        for _ in range(rng.choice([1, 2])):
            k = rng.random()
            d = bytes(rng.getrandbits(8) for _ in range(rng.randrange(0, 40)))
            if k < 0.4:
                it = ("R", rng.choice([0x82, 0x83, 0x84]), rng.choice(FAMS_COMMON), rng.randrange(1, 5), 1, rng.randrange(1 << 16), d)
            elif k < 0.7:
                it = ("I", rng.randrange(0, 3), rng.randrange(0, 3), d)
            else:
                it = ("U", rng.choice([0x86, 0x90, 0xfe, 0xff]), rng.randrange(1 << 16), d)
            items.insert(rng.randrange(len(items) + 1), it)
            stats["reloc_items"] += 1
    r = rng.random()
    if r < 0.04:
        creator = b""
    elif r < 0.8:
        creator = rng.choice(CREATORS)
    else:
        creator = bytes(rng.choice([x for x in range(256) if x != 10]) for _ in range(rng.randrange(1, 30)))
    return items, creator


def fmt_val(rng, v):
    return rng.choice(["%d", "$%x", "0x%x", "%xh" if ("%x" % v)[0].isdigit() else "0%xh", "%d"]) % v


def gen_filter(rng, fams_present, stats):
    """returns (argv options, model ops string, spec set string)"""
    if rng.random() < 0.45:
        stats["flt_none"] += 1
        return [], "-", "-"
    ops = []
    argv = []
    cur = []          # set semantics (order irrelevant): what the options denote
    nops = rng.choice([1, 1, 1, 2, 3])
    pool = list(fams_present) or [0x51]
    for _ in range(nops):
        neg = bool(cur) and rng.random() < 0.35
        vals = []
        for _ in range(rng.choice([1, 1, 2, 3, 5])):
            r = rng.random()
            if neg and r < 0.7:
                vals.append(rng.choice(cur))
            elif r < 0.7:
                vals.append(rng.choice(pool))
            else:
                vals.append(rng.randrange(1, 256))
        argv.append(("+f" if neg else "-f"))
        argv.append(",".join(fmt_val(rng, v) for v in vals))
        ops.append(("n:" if neg else "f:") + ",".join(str(v) for v in vals))
        for v in vals:
            if neg:
                if v in cur:
                    cur.remove(v)
            elif v not in cur:
                cur.append(v)
    stats["flt_with_negation" if any(o.startswith("n:") for o in ops) else "flt_plain"] += 1
    if not cur:
        stats["flt_emptied"] += 1
    return argv, ";".join(ops), (",".join(str(v) for v in sorted(cur)) if cur else "-")


def split_env(rng, argv, stats):
    """moves the first k options into the tool's *CMD environment variable (processed before the command line)"""
    if not argv or rng.random() >= 0.3:
        return "", argv
    k = rng.randrange(1, len(argv) // 2 + 1)
    stats["flt_via_env"] = stats.get("flt_via_env", 0) + 1
    return " ".join(argv[:2 * k]), argv[2 * k:]


# ---- filter probes: which header ids does the real tool select under an option sequence?
PROBE_IDS = list(range(1, 256))


def probe_file(fill):
    """one one-byte data record per header id, at address = id, long headers, granularity 1"""
    items = b"".join(bytes([0x81, i, 1, 1]) + struct.pack("<IH", i, 1) + bytes([fill]) for i in PROBE_IDS)
    return b"\x89\x14" + items + b"\x00" + b"AS probe"


def gen_probe(rng, idx, cap, stats):
    """returns dict(kind, ops=[(neg, [vals])])"""
    kind = ["random", "random", "random", "small-pool", "near-cap", "full-cap", "last-entry"][idx % 7]
    if idx == 0:
        kind = "overflow"          # cap + 2 distinct ids: known finding filter-list-overflow while FilterBytes[] is unchecked
    elif idx == 1:
        kind = "narrowed"          # an id above 255: known finding filter-id-narrowed
    ops = []
    if kind == "overflow":
        ops = [(False, list(range(1, cap + 3)))]
    elif kind == "narrowed":
        ops = [(False, [256 + 0x51])]
    elif kind in ("random", "small-pool"):
        pool = rng.sample(PROBE_IDS, rng.choice([2, 3, 5])) if kind == "small-pool" else PROBE_IDS
        have = []
        for _ in range(rng.choice([1, 2, 3, 4, 6])):
            neg = rng.random() < 0.4
            vals = []
            for _ in range(rng.choice([1, 1, 2, 3, 5, 8])):
                r = rng.random()
                if have and r < (0.7 if neg else 0.2):
                    vals.append(rng.choice([have[0], have[-1], rng.choice(have)]))
                else:
                    vals.append(rng.choice(pool))
            ops.append((neg, vals))
            for v in vals:
                if neg and v in have:
                    have[have.index(v)] = have[-1]
                    have.pop()
                elif not neg and v not in have:
                    have.append(v)
    elif kind in ("near-cap", "full-cap"):
        n = cap if kind == "full-cap" else rng.randrange(max(1, cap - 3), cap + 1)
        ids = rng.sample(PROBE_IDS, min(n, len(PROBE_IDS)))
        cut = rng.randrange(1, len(ids)) if len(ids) > 1 else 1
        ops = [(False, ids[:cut]), (False, ids[cut:] + [ids[0]])]          # a duplicate at the full array
        gone = [ids[-1], ids[0]] + rng.sample(ids, min(3, len(ids)))
        ops.append((True, gone + [rng.choice(PROBE_IDS)]))
        fresh = [x for x in PROBE_IDS if x not in ids]
        k = len(set(gone)) if kind == "full-cap" else min(len(set(gone)), 2)
        ops.append((False, rng.sample(fresh, min(k, len(fresh)))))      # refill, stays within the capacity (full-cap: up to it again)
    elif kind == "last-entry":
        ids = rng.sample(PROBE_IDS, rng.choice([1, 2, 3, 4]))
        ops = [(False, ids), (True, [ids[-1]])]
        if rng.random() < 0.5:
            ops.append((True, [ids[0]] if rng.random() < 0.5 else list(ids)))     # possibly empties the list: no filter
        if rng.random() < 0.5:
            ops.append((False, [rng.choice(PROBE_IDS)]))
    stats["probe_kinds"][kind] = stats["probe_kinds"].get(kind, 0) + 1
    return dict(kind=kind, ops=ops)


def exec_probe(bdir, wd, tool, envs, argv2):
    """the real tool on the probe file; returns (status, selected ids or None, output tail)"""
    d = os.path.join(wd, "probe")
    shutil.rmtree(d, ignore_errors=True)
    os.makedirs(d)
    open(os.path.join(d, "all.p"), "wb").write(probe_file(0x00 if tool != "pbind" else 0x5a))
    var = {"pbind": "BINDCMD", "p2bin": "P2BINCMD", "p2hex": "P2HEXCMD"}[tool]
    if tool == "pbind":
        args = ["all.p", "out.p"] + argv2
    elif tool == "p2bin":
        args = ["all.p", "out.bin", "-q", "-r", "0-255", "-l", "255"] + argv2
    else:
        args = ["all.p", "out.hex", "-q", "-F", "Moto", "-r", "0-255"] + argv2
    rc, so, se = common.run_tool(bdir, tool, args, d, timeout=30, env={var: envs})
    sel = None
    if rc == 0:
        try:
            if tool == "pbind":
                sel = [it.cpu for it in _probe_items(open(os.path.join(d, "out.p"), "rb").read())]
            elif tool == "p2bin":
                img = open(os.path.join(d, "out.bin"), "rb").read()
                sel = [i for i, x in enumerate(img) if x == 0 and i > 0]
            else:
                sel = []
                for ln in open(os.path.join(d, "out.hex")).read().split():
                    if ln.startswith("S1") and len(ln) >= 10:
                        a = int(ln[4:8], 16)
                        sel += list(range(a, a + int(ln[2:4], 16) - 3))
        except (OSError, ValueError, IndexError):
            sel = None
    return rc, sel, (so + se)[-300:]


def run_probe(bdir, wd, rng, idx, probe, stats):
    """runs the real tool; returns (status, selected ids or None, tool, env string, argv)"""
    tool = ["pbind", "p2bin", "p2hex"][idx % 3]
    argv = []
    for neg, vals in probe["ops"]:
        argv += ["+f" if neg else "-f", ",".join((fmt_val(rng, v) if idx % 2 else str(v)) for v in vals)]
    envs, argv2 = split_env(rng, argv, stats)
    # DecodeLine keeps the environment string in a String: stay well below STRINGSIZE
    if len(envs) > 200:
        envs, argv2 = "", argv
    rc, sel, tail = exec_probe(bdir, wd, tool, envs, argv2)
    stats["probe_tools"][tool] = stats["probe_tools"].get(tool, 0) + 1
    return rc, sel, tool, envs, argv2, tail


class _It:
    def __init__(self, cpu):
        self.cpu = cpu


def _probe_items(fb):
    """records of a pbind target made from the probe file (short or long headers, one byte each)"""
    pos, out = 2, []
    while fb[pos] != 0:
        if fb[pos] == 0x81:
            out.append(_It(fb[pos + 1]))
            pos += 4 + 6 + (fb[pos + 8] | fb[pos + 9] << 8)
        elif fb[pos] < 0x80:
            out.append(_It(fb[pos]))
            pos += 1 + 6 + (fb[pos + 5] | fb[pos + 6] << 8)
        else:
            raise ValueError("unexpected header %02x" % fb[pos])
    return out


def ops_str(ops):
    return ";".join(("n:" if neg else "f:") + ",".join(str(v) for v in vals) for neg, vals in ops) or "-"


def new_stats():
    return dict(records=0, short_in=0, long_in=0, long_but_short_eligible_in=0, zero_len=0, len_ge_8192=0, len_65535=0, max_len=0, entries=0,
                reloc_items=0, fams=set(), segs=set(), grans=set(), flt_none=0, flt_plain=0, flt_with_negation=0, flt_emptied=0,
                files_per_case={}, env={}, empty_creator_files=0, flt_via_env=0, probe_kinds={}, probe_tools={})


def gen_case(rng, idx, stats, tier):
    big_ok = (idx % 7 == 3)
    reloc = (idx % 23 == 11)
    nfiles = rng.choice([1, 1, 2, 2, 3, 4])
    files = []
    for _ in range(nfiles):
        items, creator = gen_file(rng, big_ok, stats, reloc)
        if creator == b"":
            stats["empty_creator_files"] += 1
        files.append((items, creator))
    fams = sorted({it[1] for items, _ in files for it in items if it[0] == "D"})
    argv, ops, sset = gen_filter(rng, fams, stats)
    fenv, argv = split_env(rng, argv, stats)
    env = rng.choice(["nonquiet", "nonquiet", "quiet-clean", "quiet-stale"])
    stats["env"][env] = stats["env"].get(env, 0) + 1
    stats["files_per_case"][nfiles] = stats["files_per_case"].get(nfiles, 0) + 1
    return dict(tag="gen:%d" % idx, files=[ser_file(i, c) for i, c in files], fargv=argv, fenv=fenv, ops=ops, sset=sset, env=env,
                reloc=reloc, has_relocinfo=any(it[0] == "I" for items, _ in files for it in items),
                desc=[[(it[0],) + tuple(x if not isinstance(x, bytes) else len(x) for x in it[1:]) for it in items] for items, _ in files])


SUM_RE = re.compile(rb"==>>\S+  \((-?\d+) Bytes?\)")


def run_pbind(bdir, wd, msgdir, case):
    """runs the real pbind; returns (status, target bytes, sums or None, errno0 for the model, quiet)"""
    d = os.path.join(wd, "case")
    shutil.rmtree(d, ignore_errors=True)
    os.makedirs(d)
    names = []
    for i, fb in enumerate(case["files"]):
        nm = "in%d.p" % i
        open(os.path.join(d, nm), "wb").write(fb)
        names.append(nm)
    quiet = case["env"] != "nonquiet"
    if case["env"] == "quiet-clean":
        # the message files are found in the current directory at the first attempt -> errno stays 0
        cwd = msgdir
        args = [os.path.join(d, n) for n in names] + [os.path.join(d, "out.p")]
        errno0 = 0
    else:
        cwd = d
        args = names + ["out.p"]
        errno0 = ENOENT          # opencatalog() tries the current directory first: fopen fails with ENOENT
    # options may stand anywhere on the command line
    args = args + case["fargv"] + (["-q"] if quiet else [])
    rc, so, se = common.run_tool(bdir, "pbind", args, cwd, timeout=60, env={"BINDCMD": case.get("fenv", "")})
    tp = os.path.join(d, "out.p")
    target = open(tp, "rb").read() if os.path.exists(tp) else None
    sums = None
    if not quiet:
        sums = [int(x) for x in SUM_RE.findall(so)]
    return rc, target, sums, errno0, quiet, so, se, d, names


def pbind_request(case, rc, target, sums, errno0, quiet):
    return "%d %d %s %s %s %s %s %s" % (
        1 if quiet else 0, errno0, case["ops"], case["sset"], rc if isinstance(rc, int) and rc >= 0 else 998,
        common.hexs(target) if target else "-", (",".join(map(str, sums)) if sums else "-") if sums is not None else "-",
        " ".join(common.hexs(f) for f in case["files"]))


def kv(ans):
    return dict(x.split("=", 1) for x in ans.split() if "=" in x)


def classify_pbind(case, a, quiet, errno0):
    """signature of a spec failure of pbind"""
    why = a.get("why", "")
    if why == "status-2" and quiet and errno0 != 0:
        return "pbind-quiet-stale-errno"
    if why == "status-3":
        # the format error of a file whose last data record is followed only by $00 (empty creator)
        for fb in case["files"]:
            if fb.endswith(b"\x00") and len(fb) > 3 and _last_is_data_then_end(fb):
                return "pbind-empty-creator-rejected"
    return None


def _last_is_data_then_end(fb):
    """True if the file (written by this harness) ends `<data record payload> 00` with empty creator"""
    pos = 2
    last_kind = None
    n = len(fb)
    while pos < n:
        h = fb[pos]
        if h == 0:
            return pos == n - 1 and last_kind == "D"
        if h == 0x80:
            pos += 5
            last_kind = "E"
        elif h == 0x81:
            ln = fb[pos + 8] | fb[pos + 9] << 8
            pos += 10 + ln
            last_kind = "D"
        elif h < 0x80:
            ln = fb[pos + 5] | fb[pos + 6] << 8
            pos += 7 + ln
            last_kind = "D"
        else:
            return False
    return False


def run(args):
    res = common.Result(PROP, args.tier, args.seed, "proof")
    bdir, audit, proof_problems = common.standard_setup(res, PROP, ["FileFormat", "Tools"])
    if bdir is None:
        return res.finish()
    drv_ok = not any(p.startswith("driver does not build") for p in proof_problems)
    rng = common.rng_for(args.seed, PROP)
    n_cases = {"quick": 1200, "thorough": 12000}[args.tier]
    stats = new_stats()
    spec_fail, corr_fail, samples, late_fail = [], [], [], []
    preq, pmeta, lreq, lmeta = [], [], [], []
    distinct = set()
    counts = dict(pbind_runs=0, plist_runs=0, pbind_status={}, plist_status={}, items_in=0, items_out=0, short_headers_out=0,
                  plist_record_lines_checked=0, plist_total_lines_checked=0, plist_on_pbind_output=0, plist_multi_file=0,
                  spec_na=0, model_stuck=0, plist_timeouts=0, probe_runs=0, probe_status={}, probe_refused=0, probe_ids_compared=0,
                  model_outside_capacity=0, filter_cnt_max=0, inputs_with_skipped_records_spec_checked=0)
    with common.Workdir("c07") as wd:
        msgdir = os.path.join(wd, "msgcwd")
        os.makedirs(msgdir)
        for f in os.listdir(bdir):
            if f.endswith(".msg"):
                shutil.copy(os.path.join(bdir, f), msgdir)
        cases = []
        cdir = os.path.join(common.VERIF, "corpus", PROP)
        if os.path.isdir(cdir):
            for f in sorted(os.listdir(cdir)):
                if f.endswith(".json"):
                    c = json.load(open(os.path.join(cdir, f)))
                    c["files"] = [bytes.fromhex(x) for x in c["files"]]
                    c["tag"] = "corpus:" + f
                    c.setdefault("reloc", False)
                    c.setdefault("has_relocinfo", False)
                    c.setdefault("plist", True)
                    cases.append(c)
        ncorpus = len(cases)
        for i in range(n_cases):
            cases.append(gen_case(rng, i, stats, args.tier))
        for ci, case in enumerate(cases):
            rc, target, sums, errno0, quiet, so, se, d, names = run_pbind(bdir, wd, msgdir, case)
            counts["pbind_runs"] += 1
            counts["pbind_status"][str(rc)] = counts["pbind_status"].get(str(rc), 0) + 1
            if not isinstance(rc, int) or rc < 0:
                spec_fail.append(dict(tag=case["tag"], tool="pbind", why="pbind crashed or hung: status %s" % rc, case=_case_json(case)))
                continue
            preq.append(pbind_request(case, rc, target, sums, errno0, quiet))
            pmeta.append((case, quiet, errno0, rc))
            distinct.add((tuple(case["files"]), case["ops"], case["env"]))
            # plist: on the inputs (1..3 of them) and on pbind's target
            if case.get("plist", True) and not case["has_relocinfo"]:
                sets = []
                k = 1 if ci % 3 else min(len(names), 3)
                sets.append(names[:k])
                if rc == 0 and target is not None and ci % 2 == 0 and counts["plist_timeouts"] < 3:
                    sets.append(["out.p"])
                for ns in sets:
                    prc, pso, pse = common.run_tool(bdir, "plist", ["-q"] + ns, d, timeout=10)
                    counts["plist_runs"] += 1
                    if prc == "timeout":
                        counts["plist_timeouts"] += 1
                    counts["plist_status"][str(prc)] = counts["plist_status"].get(str(prc), 0) + 1
                    if ns == ["out.p"]:
                        counts["plist_on_pbind_output"] += 1
                    if len(ns) > 1:
                        counts["plist_multi_file"] += 1
                    fbs = [open(os.path.join(d, n), "rb").read() for n in ns]
                    if not isinstance(prc, int) or prc < 0:
                        # a hang on pbind's own output is reported after pbind's spec failures (plist loops on a
                        # file that ends without the $00 record - C03's 'plist-eof-loop')
                        late_fail.append(dict(tag=case["tag"], tool="plist", why="plist crashed or hung: status %s" % prc,
                                              sig=("plist-eof-loop" if prc == "timeout" else None),
                                              files=[common.hexs(x)[:4000] for x in fbs], names=ns))
                        continue
                    lreq.append("%d %s %s" % (prc, common.hexs(pso) if pso else "-",
                                              " ".join("%s %s" % (common.hexs(n.encode()), common.hexs(fb)) for n, fb in zip(ns, fbs))))
                    lmeta.append((case["tag"], ns, fbs, prc, pso))
        # filter probes
        cap = _filter_capacity()
        n_probes = {"quick": 90, "thorough": 1500}[args.tier]
        prng = common.rng_for(args.seed, PROP + "/probe")
        freq, fmeta = [], []
        for pi in range(n_probes):
            probe = gen_probe(prng, pi, cap, stats)
            rc, sel, tool, envs, argv2, tail = run_probe(bdir, wd, prng, pi, probe, stats)
            counts["probe_runs"] += 1
            counts["probe_status"][str(rc)] = counts["probe_status"].get(str(rc), 0) + 1
            meta = dict(tag="probe:%d" % pi, tool="filter-probe", real_tool=tool, kind=probe["kind"], ops=ops_str(probe["ops"]), envs=envs,
                        var={"pbind": "BINDCMD", "p2bin": "P2BINCMD", "p2hex": "P2HEXCMD"}[tool],
                        args={"pbind": ["all.p", "out.p"], "p2bin": ["all.p", "out.bin", "-q", "-r", "0-255", "-l", "255"],
                              "p2hex": ["all.p", "out.hex", "-q", "-F", "Moto", "-r", "0-255"]}[tool] + argv2)
            over = len({v & 0xff for neg, vals in probe["ops"] if not neg for v in vals}) > cap
            if not isinstance(rc, int) or rc < 0 or (rc == 0 and sel is None):
                spec_fail.append(dict(meta, sig=("filter-list-overflow" if over else None), selected=[],
                                      why="%s crashed, hung or wrote no readable output under these -f/+f options: status %s %s" % (tool, rc, tail.decode("latin-1"))))
                continue
            if rc != 0:
                # a clean refusal keeps the property when the option list is one the manual does not promise to accept: a list beyond
                # the capacity, or an id that is no header id at all (header ids are bytes: 0..255) - the repaired CMD_FilterList
                # rejects both as invalid arguments; anything else is reported
                out_of_range = any(v < 0 or v > 255 for neg, vals in probe["ops"] for v in vals)
                if (over or out_of_range) and rc == 1:
                    counts["probe_refused"] += 1
                else:
                    spec_fail.append(dict(meta, sig=None, selected=[], why="%s exit status %s under valid -f/+f options: %s" % (tool, rc, tail.decode("latin-1"))))
                continue
            meta["selected"] = sel
            freq.append("%s %s" % (meta["ops"], ",".join(map(str, sel)) or "-"))
            fmeta.append(meta)
            distinct.add((tool, meta["ops"], envs))
        fans = common.driver("c07-filter", freq, timeout=3600) if drv_ok and freq else []
        pans = common.driver("c07-pbind", preq, timeout=3600) if drv_ok and preq else []
        lans = common.driver("c07-plist", lreq, timeout=3600) if drv_ok and lreq else []

    for (case, quiet, errno0, rc), ans in zip(pmeta, pans):
        a = kv(ans)
        if "model" not in a:
            proof_problems.append("driver c07-pbind rejected a request (%s): %s" % (case["tag"], ans[:100]))
            continue
        counts["items_in"] += int(a.get("nin", 0))
        counts["items_out"] += int(a.get("nout", 0))
        counts["short_headers_out"] += int(a.get("short", 0))
        counts["inputs_with_skipped_records_spec_checked"] += int(a.get("skipfiles", 0)) if a.get("spec") == "ok" else 0
        if len(samples) < 3 and a.get("spec") == "ok" and int(a.get("nout", 0)) >= 2:
            samples.append(dict(tool="pbind", tag=case["tag"], env=case["env"], filter=case["fargv"], records=case.get("desc"), verdict={k: v for k, v in a.items() if k != "mtarget"}))
        if a["spec"] == "na":
            counts["spec_na"] += 1
            k = "spec_na_pbind_" + ("reloc" if case.get("reloc") else "plain")
            counts[k] = counts.get(k, 0) + 1
            if case.get("reloc") and len(samples) < 8:
                samples.append(dict(tool="pbind-spec-na", tag=case["tag"], records=case.get("desc")))
        if a["spec"] == "bad":
            spec_fail.append(dict(tag=case["tag"], tool="pbind", sig=classify_pbind(case, a, quiet, errno0),
                                  why="spec on real pbind output: " + a.get("why", "?"), case=_case_json(case), pbind_status=rc))
        counts["filter_cnt_max"] = max(counts["filter_cnt_max"], int(a.get("cnt", 0)))
        if a.get("sset") == "ne":
            corr_fail.append(dict(tag=case["tag"], tool="pbind", why="the set the harness computed for these options differs from the Lean SPEC set (keepByOptions)", case=_case_json(case)))
        if a["model"] == "outside":
            counts["model_outside_capacity"] += 1
        elif a["model"] == "stuck":
            counts["model_stuck"] += 1
            corr_fail.append(dict(tag=case["tag"], tool="pbind", why="model has no outcome for this input (outside the model)", case=_case_json(case)))
        elif a["model"] != "eq" or a["sums"] == "ne":
            corr_fail.append(dict(tag=case["tag"], tool="pbind", why="real pbind differs from the model: model=%s sums=%s mstatus=%s real status=%s" % (a["model"], a["sums"], a.get("mstatus"), rc),
                                  case=_case_json(case), model_target=a.get("mtarget", "")[:2000]))
    for meta, ans in zip(fmeta, fans):
        a = kv(ans)
        if "model" not in a:
            proof_problems.append("driver c07-filter rejected a request (%s): %s" % (meta["tag"], ans[:100]))
            continue
        counts["probe_ids_compared"] += 255
        counts["filter_cnt_max"] = max(counts["filter_cnt_max"], int(a.get("cnt", 0)))
        if len(samples) < 6 and meta["kind"] in ("near-cap", "small-pool") and not any(s_.get("tool") == "filter-probe" for s_ in samples):
            samples.append(dict(meta, selected=meta["selected"][:12], verdict=a))
        if a["spec"] == "bad":
            sig = None
            if a.get("arr") == "overflow":
                sig = "filter-list-overflow"
            elif any(v > 255 for o in meta["ops"].split(";") if o != "-" for v in map(int, o[2:].split(","))):
                sig = "filter-id-narrowed"
            spec_fail.append(dict(meta, sig=sig, why="%s selects other header ids than the documented set of its -f/+f options (first difference: %s)" % (meta["real_tool"], a.get("why"))))
        if a["model"] == "outside":
            counts["model_outside_capacity"] += 1
        elif a["model"] != "eq":
            corr_fail.append(dict(meta, why="the ids %s selects differ from FilterOK over the model's array" % meta["real_tool"]))
    for (tag, ns, fbs, prc, pso), ans in zip(lmeta, lans):
        a = kv(ans)
        if "model" not in a:
            proof_problems.append("driver c07-plist rejected a request (%s): %s" % (tag, ans[:100]))
            continue
        counts["plist_record_lines_checked"] += int(a.get("lines", 0))
        counts["plist_total_lines_checked"] += int(a.get("totals", 0))
        if len(samples) < 5 and int(a.get("lines", 0)) >= 2 and not any(s.get("tool") == "plist" for s in samples):
            samples.append(dict(tool="plist", tag=tag, files=ns, stdout=pso.decode("latin-1")[:700], verdict={k: v for k, v in a.items() if k != "mstdout"}))
        if a["spec"] == "na":
            counts["spec_na"] += 1
        if a["spec"] == "bad":
            sig = "plist-total-no-number" if a.get("why") == "total-line-no-number" else None
            spec_fail.append(dict(tag=tag, tool="plist", sig=sig, why="spec on real plist output: " + a.get("why", "?"), names=ns,
                                  files=[common.hexs(x) for x in fbs], stdout=pso.decode("latin-1")[:1500], plist_status=prc))
        if a["model"] != "eq":
            if a["model"] == "stuck":
                counts["model_stuck"] += 1
            corr_fail.append(dict(tag=tag, tool="plist", why="real plist differs from the model (%s), real status=%s" % (a["model"], prc), names=ns,
                                  files=[common.hexs(x) for x in fbs], stdout=pso.decode("latin-1")[:1500], model_stdout=a.get("mstdout", "")[:2000]))

    spec_fail += late_fail
    res.coverage = common.proof_coverage(audit, PROP, [
        "translate/tables.py: Granularity table, fileformat.h constants, FileID, BufferSize, Creator, SegNames, FindFamilyById table, plist messages (compiled dumpers), "
        "WriteRecordHeader ChkIO-on-success flags (behaviour probe), plist totals format literal (clang AST), capacity of FilterBytes[] (clang AST)",
        "correspondence: real pbind/plist vs Model.PBind/Model.PList on harness-written code files (differential test)",
        "correspondence: ids selected by real pbind/p2bin/p2hex under -f/+f sequences vs Model.FilterList (differential test); ConstLongInt's number syntax and cmdarg.c's option splitting are not modelled (the harness hands the values to the model)"])
    dist = {k: (sorted(v) if isinstance(v, set) else v) for k, v in stats.items()}
    dist.update(counts)
    dist["corpus_cases"] = ncorpus
    res.coverage.update(
        evaluations=len(preq) + len(lreq) + len(freq), distinct_nontrivial=len(distinct),
        rule="one evaluation = one real pbind or plist run compared with the model and checked by the spec; distinct by (input file bytes, filter options, quiet/errno class); "
             "non-trivial = every case has at least one input file with the magic and an end record; record/length/header-form distribution below; "
             "a filter probe = one real pbind/p2bin/p2hex run on the 255-record probe file, all 255 ids compared with the array model and the documented set",
        samples=samples, distribution=dist)
    res.assumptions = ["errno at OpenTarget is ENOENT when the *.msg catalogues are not in the current directory and 0 when they are (measured with strace; opencatalog tries the cwd first)",
                       "family id 0 and segment numbers >= SegCount, granularity 0, relocation info are outside the quantifier (not generated, or compared with the model only)"]
    return common.conclude(res, proof_problems, spec_fail, corr_fail, len(preq) + len(lreq) + len(freq))


def _filter_capacity():
    """capacity of FilterBytes[] as the translator extracted it for this run (Generated/Tools.lean)"""
    m = re.search(r"def filterBytesCap : Nat := (\d+)", open(os.path.join(common.LEAN_DIR, "AslModel", "Generated", "Tools.lean")).read())
    return int(m.group(1)) if m else 100


def _case_json(case):
    return dict(files=[common.hexs(f) for f in case["files"]], fargv=case["fargv"], fenv=case.get("fenv", ""), ops=case["ops"], sset=case["sset"], env=case["env"],
                records=case.get("desc"))


def replay(args):
    d = json.load(open(args.replay))
    print(json.dumps({k: (v if len(str(v)) < 1500 else str(v)[:1500] + "...") for k, v in d.items()}, indent=1))
    bdir = common.repo_build("hooks")
    with common.Workdir("c07r") as wd:
        if d.get("tool") == "pbind" and "case" in d:
            c = d["case"]
            case = dict(files=[bytes.fromhex(x) for x in c["files"]], fargv=c["fargv"], fenv=c.get("fenv", ""), ops=c["ops"], sset=c["sset"], env=c["env"])
            msgdir = os.path.join(wd, "msgcwd")
            os.makedirs(msgdir)
            for f in os.listdir(bdir):
                if f.endswith(".msg"):
                    shutil.copy(os.path.join(bdir, f), msgdir)
            rc, target, sums, errno0, quiet, so, se, dd, names = run_pbind(bdir, wd, msgdir, case)
            print("BINDCMD='%s' pbind %s -> status %s, target %s bytes" % (case["fenv"], " ".join(names + ["out.p"] + case["fargv"] + (["-q"] if quiet else [])), rc, len(target) if target is not None else None))
            print((so + se).decode("latin-1")[-600:])
            if isinstance(rc, int) and rc >= 0:
                print(common.driver("c07-pbind", [pbind_request(case, rc, target, sums, errno0, quiet)])[0][:400])
        elif d.get("tool") == "filter-probe":
            print("probe file: one record per header id 1..255 (address = id, one byte); reproduce with:")
            print("  %s=%r %s %s" % (d["var"], d["envs"], d["real_tool"], " ".join(d["args"])))
            print("options in processing order: %s" % d["ops"])
            rc, sel, tail = exec_probe(bdir, wd, d["real_tool"], d["envs"], [x for x in d["args"] if x not in ("all.p", "out.p", "out.bin", "out.hex")][{"pbind": 0, "p2bin": 5, "p2hex": 5}[d["real_tool"]]:])
            print("status %s, header ids selected by the real tool now: %s (recorded: %s)" % (rc, sel, d.get("selected")))
            print(tail.decode("latin-1"))
            if sel is not None:
                print(common.driver("c07-filter", ["%s %s" % (d["ops"], ",".join(map(str, sel)) or "-")])[0][:400])
        elif d.get("tool") == "plist" and "files" in d:
            ns = d["names"]
            fbs = [bytes.fromhex(x) for x in d["files"]]
            for n, fb in zip(ns, fbs):
                open(os.path.join(wd, n), "wb").write(fb)
            prc, pso, pse = common.run_tool(bdir, "plist", ["-q"] + ns, wd, timeout=30)
            print("plist -q %s -> status %s" % (" ".join(ns), prc))
            print((pso + pse).decode("latin-1")[-1500:])
            if isinstance(prc, int) and prc >= 0:
                print(common.driver("c07-plist", ["%d %s %s" % (prc, common.hexs(pso) if pso else "-", " ".join("%s %s" % (common.hexs(n.encode()), common.hexs(fb)) for n, fb in zip(ns, fbs)))])[0][:400])
    return 0
