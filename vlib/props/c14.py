"""C14 - machine instructions encode as the target's instruction set defines.

Modelled targets: 4004/4040 and 8080/8085 (Intel syntax) in this file; PIC16C8x, 6502/65C02, Z80, MSP430, AVR (word- and byte-addressed
code space), 8080/8085 with Z80SYNTAX ON / EXCLUSIVE (`8080z`) as plug-ins (c14t_*.py).
Per modelled target the generator enumerates the SPEC's own
instruction-form list (asked from the Lean driver, mode `c14forms`) x registers/addressing modes x operand
values (0, field limits, limits +-1, random interior; exhaustive where the field has <= 4096 values) x
program-counter positions around page/branch limits.  One instruction per source line, each at its own `ORG`,
followed by a sentinel record, so the bytes of every statement are read back from the real code file;
rejected statements are taken from the error channel (`-n`: error numbers).  Statements with errors are
removed and the file re-assembled until it is clean (asl writes no code file when an error occurred, and
second-pass errors such as undefined register names only show once the first pass is clean).

(B) real result vs the Lean MODEL of the code generator; (C) the Lean SPEC (legal / opcode-map decoder) on the
real result: bytes => legal statement and the decoder returns exactly this instruction and length;
error => the statement is not legal.
"""
import json
import os
import re

from .. import common
from ..common import log

SIG_ISZ = "4004-isz-page-of-pc-plus-1"

ERR_RE = re.compile(r"^> > > *[^\s(]+\((\d+)\)(?::\d+)?: *(error|fatal error) #(\d+)")
WARN_RE = re.compile(r"^> > > *[^\s(]+\((\d+)\)(?::\d+)?: *warning #(\d+)")


class Case:
    __slots__ = ("tgt", "cpu", "pc", "mn", "args", "text", "real", "tag", "load", "defs")

    def __init__(self, tgt, cpu, pc, mn, args, text, tag=""):
        self.tgt, self.cpu, self.pc, self.mn, self.args, self.text, self.tag = tgt, cpu, pc, mn, list(args), text, tag
        self.real = None
        self.load = None     # load address when the statement stands in a PHASE block whose execution address is pc
        self.defs = None     # definition lines of the symbols the operand text uses (None: derived from the text, see defs_for)

    def req(self):
        return "%s %d %d %s %s | %s" % (self.tgt, self.cpu, self.pc, self.mn, " ".join(str(a) for a in self.args), self.real)

    def key(self):
        return (self.tgt, self.cpu, self.pc, self.mn, tuple(self.args))

    def as_dict(self):
        d = dict(target=self.tgt, cpu=self.cpu, pc=self.pc, mnemonic=self.mn, args=self.args, source=self.text, real=self.real)
        if self.load is not None:
            d["load"] = self.load
        ds = self.defs if self.defs is not None else defs_for(self.text)
        if ds:
            d["defs"] = ds
        return d


# ----------------------------------------------------------------------------------------------
# number spelling (Intel syntax: 4004, 8080; Motorola syntax: PIC, 6502)

# Operand values written through SYMBOLS instead of literal numbers: with probability SYM_SHARE a number speller returns the
# name of a fresh symbol; its definition (EQU / SET / label-style `=`-free forms only, possibly an alias of another fresh
# symbol) is emitted right before the statement that uses it (always defined before use: no forward references).
SYM_SHARE = 0.05
_SYMS = {}           # lower-case name -> list of definition lines (dependencies first)
_SYM_RE = re.compile(r"(?i)(?<![a-z0-9_$.])sy\d+(?![a-z0-9_$.])")


def _symbol(rng, v):
    n = "sy%d" % len(_SYMS)
    d = rng.choice(["equ", "equ", "set"])
    lines = ["%s\t%s\t%d" % (n, d, v)]
    _SYMS[n] = lines
    if rng.random() < 0.3:          # alias of the symbol
        n2 = "sy%d" % len(_SYMS)
        _SYMS[n2] = lines + ["%s\t%s\t%s" % (n2, rng.choice(["equ", "set"]), n.upper() if rng.random() < 0.5 else n)]
        n = n2
    return n.upper() if rng.random() < 0.3 else n


def defs_for(text):
    out = []
    for m in _SYM_RE.findall(text):
        for l in _SYMS.get(m.lower(), []):
            if l not in out:
                out.append(l)
    return out


def num_intel(rng, v):
    if v < 0:
        return "-" + num_intel(rng, -v)
    if rng.random() < SYM_SHARE:
        return _symbol(rng, v)
    k = rng.random()
    if k < 0.5:
        return str(v)
    if k < 0.85:
        h = "%xh" % v
        return h if h[0].isdigit() else "0" + h
    return "%so" % oct(v)[2:]


def num_moto(rng, v):
    if v < 0:
        return "-" + num_moto(rng, -v)
    if rng.random() < SYM_SHARE:
        return _symbol(rng, v)
    k = rng.random()
    if k < 0.5:
        return str(v)
    if k < 0.9:
        return "$%x" % v
    return "%%%s" % bin(v)[2:]


def forms_of(target):
    ans = common.driver("c14forms", [target])[0]
    out = []
    for t in ans.split():
        n, f, c = t.split(":")
        out.append((n, f, int(c)))
    return out


def limits(lo, hi, rng, nrand=6, wide=True):
    """0, field limits, limits +-1(2), random interior, far outside"""
    s = {0, 1, lo, lo + 1, hi - 1, hi, lo - 1, lo - 2, hi + 1, hi + 2}
    for _ in range(nrand):
        s.add(rng.randrange(lo, hi + 1))
    if wide:
        s |= {65535, 65536, -32768, -32769, 1 << 31, -(1 << 31) - 1, rng.randrange(hi + 1, 1 << 40), -rng.randrange(1, 1 << 40)}
    return sorted(s)


# ----------------------------------------------------------------------------------------------
# 4004 / 4040

class T4004:
    name = "4004"
    cpus = [("4004", 0), ("4040", 1)]
    sentinel = 0xE80
    gran = 1
    # register aliases (REG / EQU / SET, aliases of aliases) of the sixteen registers and the eight pairs, defined at the top
    REG_SHAPES = ["a_r%d", "e_r%d", "s_r%d", "re_r%d", "rer_r%d"]
    PAIR_SHAPES = ["a_p%d", "e_p%d", "re_p%d"]
    ALIAS_DEFS = ([("a_r%d" % n, "reg", "r%d" % n) for n in range(16)] + [("e_r%d" % n, "equ", "R%d" % n) for n in range(16)]
                  + [("s_r%d" % n, "set", "r%d" % n) for n in range(16)] + [("re_r%d" % n, "reg", "e_r%d" % n) for n in range(16)]
                  + [("rer_r%d" % n, "equ", "RE_R%d" % n) for n in range(16)]
                  + [("a_p%d" % p, "reg", "r%dp" % p) for p in range(8)] + [("e_p%d" % p, "equ", "R%dR%d" % (2 * p, 2 * p + 1)) for p in range(8)]
                  + [("re_p%d" % p, "reg", "e_p%d" % p) for p in range(8)])

    @classmethod
    def header(cls, cpuname):
        return ["\tcpu %s" % cpuname] + ["%s\t%s\t%s" % d for d in cls.ALIAS_DEFS]

    @staticmethod
    def org(a):
        return "\torg %d" % a

    @staticmethod
    def sent(k):
        return "\tdata %d" % (k % 100 + 1)   # never at a limit of the data range

    @staticmethod
    def sent_bytes(k):
        return bytes([k % 100 + 1])

    @classmethod
    def reg(cls, rng, r):
        if 0 <= r <= 15 and rng.random() < 0.25:
            t = rng.choice(cls.REG_SHAPES) % r
            return t.upper() if rng.random() < 0.3 else t
        if 10 <= r <= 15 and rng.random() < 0.3:
            return "R" + "ABCDEF"[r - 10]
        if r < 10 and rng.random() < 0.2:
            return "r%02d" % r
        return "R%d" % r

    @classmethod
    def pair(cls, rng, p):
        if 0 <= p <= 7 and rng.random() < 0.25:
            t = rng.choice(cls.PAIR_SHAPES) % p
            return t.upper() if rng.random() < 0.3 else t
        if rng.random() < 0.5:
            return "R%dP" % p
        return "R%dR%d" % (2 * p, 2 * p + 1)

    COND = {1: "T", 2: "C", 4: "Z", 8: "N", 9: "NT", 10: "NC", 12: "NZ", 5: "TZ", 6: "CZ", 3: "TC", 7: "TCZ", 15: "NTCZ", 13: "ZNT", 14: "NZC", 11: "CNT"}

    @classmethod
    def cases(cls, rng, tier, forms):
        N = num_intel
        out = []
        pcs_plain = [0, 0x10, 0x7fe, 0xdfe]
        # program counters around every kind of page position (incl. the last bytes of the address space)
        pcs_page = [0x000, 0x001, 0x0fb, 0x0fc, 0x0fd, 0x0fe, 0x0ff, 0x100, 0x101, 0x2fd, 0x2fe, 0x2ff, 0x300, 0xdfd, 0xdfe, 0xdff, 0xffc, 0xffd, 0xffe]
        pcs_page += [rng.randrange(0, 0xe00) for _ in range(4 if tier == "quick" else 40)]
        full_pcs = [0x0fe, 0x0ff, 0x345] if tier == "quick" else [0x0fd, 0x0fe, 0x0ff, 0x100, 0x345, 0xffd, 0xffe, rng.randrange(0, 0xe00)]

        def add(cpu, pc, mn, args, text, tag):
            out.append(Case("4004", cpu, pc, mn, args, "\t%s %s" % (mn.lower() if rng.random() < 0.5 else mn, text), tag))

        def targets(pc):
            s = set()
            for base in {pc & 0xf00, (pc + 1) & 0xf00, (pc + 2) & 0xfff & 0xf00, ((pc & 0xf00) + 0x100) & 0xf00, ((pc & 0xf00) - 0x100) & 0xf00}:
                s |= {base, base + 1, base + 2, base + 0xfd, base + 0xfe, base + 0xff}
            s |= {0, 4095, 4096, 4097, -1, pc, (pc + 2) & 0xfff, rng.randrange(0, 4096), rng.randrange(0, 4096)}
            return sorted(s)

        for (mn, form, mincpu) in forms:
            for cpu in (0, 1):
                if form == "none":
                    for pc in pcs_plain[:2]:
                        add(cpu, pc, mn, [], "", "fixed")
                    if cpu == 1:
                        add(cpu, 0x20, mn, [3], "3", "argcnt")
                    continue
                if cpu == 1 and tier == "quick" and form in ("condAddr", "regAddr", "addr12"):
                    continue  # operand handling does not depend on the CPU; the 4040 pass keeps the small forms
                if form == "reg":
                    for r in range(0, 18):
                        pre = "A," if (mn in ("ADD", "SUB", "LD", "XCH") and rng.random() < 0.5) else ""
                        add(cpu, rng.choice(pcs_plain), mn, [r], pre + cls.reg(rng, r), "reg")
                    add(cpu, 0, mn, [], "", "argcnt")
                elif form == "pair":
                    for p in range(0, 9):
                        for sp in range(2):
                            add(cpu, rng.choice(pcs_plain), mn, [p], cls.pair(rng, p), "pair")
                elif form == "data4":
                    for d in limits(0, 15, rng) + list(range(2, 14)):
                        add(cpu, rng.choice(pcs_plain), mn, [d], N(rng, d), "imm4")
                elif form == "addr12":
                    vals = list(range(0, 4096)) + limits(0, 4095, rng)
                    for a in vals:
                        add(cpu, rng.choice(pcs_plain), mn, [a], N(rng, a), "addr12")
                elif form == "pairData":
                    for p in range(0, 9):
                        ds = list(range(-131, 259)) if (p in (0, 5, 7) or tier != "quick") else limits(-128, 255, rng)
                        for d in ds + [65535, -65536, 1 << 33]:
                            add(cpu, rng.choice(pcs_plain), mn, [p, d], "%s,%s" % (cls.pair(rng, p), N(rng, d)), "fim")
                elif form == "condAddr":
                    for pc in pcs_page:
                        for a in targets(pc):
                            for c in ([rng.randrange(16), rng.randrange(16)] if tier == "quick" else range(16)):
                                ct = cls.COND[c] if (c in cls.COND and rng.random() < 0.5) else N(rng, c)
                                add(cpu, pc, mn, [c, a], "%s,%s" % (ct, N(rng, a)), "jcn")
                    for c in list(range(-2, 19)) + [255, 256, -128]:
                        pc = rng.choice(pcs_page)
                        a = ((pc + 2) & 0xf00) + rng.randrange(256)
                        add(cpu, pc, mn, [c, a], "%s,%s" % (N(rng, c), N(rng, a)), "jcn-cond")
                    for pc in full_pcs:
                        c = rng.randrange(16)
                        for a in range(4096):
                            add(cpu, pc, mn, [c, a], "%s,%s" % (N(rng, c), N(rng, a)), "jcn-all-targets")
                elif form == "regAddr":
                    for pc in pcs_page:
                        for a in targets(pc):
                            r = rng.randrange(16)
                            add(cpu, pc, mn, [r, a], "%s,%s" % (cls.reg(rng, r), N(rng, a)), "isz")
                    for r in range(0, 18):
                        pc = rng.choice([p for p in pcs_page if p & 0xff < 0xfd])
                        a = ((pc + 2) & 0xf00) + rng.randrange(256)
                        add(cpu, pc, mn, [r, a], "%s,%s" % (cls.reg(rng, r), N(rng, a)), "isz-reg")
                    for pc in full_pcs:
                        r = rng.randrange(16)
                        for a in range(4096):
                            add(cpu, pc, mn, [r, a], "%s,%s" % (cls.reg(rng, r), N(rng, a)), "isz-all-targets")
                else:
                    raise AssertionError("4004: unknown operand form %s of the spec" % form)
        return out

    @staticmethod
    def sig(case, kv):
        # ISZ in words 254/255 of a page: code4004.c checks the page of pc+1, the hardware uses pc+2
        if case.mn == "ISZ" and case.pc % 256 == 254:
            return SIG_ISZ
        return None


# ----------------------------------------------------------------------------------------------
# 8080 / 8085 (Intel syntax)

class T8080:
    name = "8080"
    cpus = [("8080", 0), ("8085", 1)]
    sentinel = 0xF000
    gran = 1
    R8 = "BCDEHLMA"
    RP = ["B", "D", "H", "SP"]

    @staticmethod
    def header(cpuname):
        return ["\tcpu %s" % cpuname]

    @staticmethod
    def org(a):
        return "\torg %d" % a

    @staticmethod
    def sent(k):
        return "\tdb %d" % (k % 100 + 1)

    @staticmethod
    def sent_bytes(k):
        return bytes([k % 100 + 1])

    @classmethod
    def r8(cls, rng, r):
        if 0 <= r <= 7:
            c = cls.R8[r]
            return c.lower() if rng.random() < 0.3 else c
        return ["X", "I", "SP", "AF"][r % 4]   # not a register name

    @classmethod
    def rp(cls, rng, r, psw=False):
        if 0 <= r <= 3:
            t = "PSW" if (psw and r == 3) else cls.RP[r]
            return t.lower() if rng.random() < 0.3 else t
        if psw and r == 4:
            return "SP"
        return ["X", "IX", "W", "AF"][r % 4]

    @classmethod
    def cases(cls, rng, tier, forms):
        N = num_intel
        out = []

        def add(cpu, mn, args, text, tag):
            out.append(Case("8080", cpu, rng.choice([0, 0x100, 0x1234, 0xefe0]), mn, args, "\t%s %s" % (mn.lower() if rng.random() < 0.5 else mn, text), tag))

        d8 = lambda: sorted(set(limits(-128, 255, rng, 10) + (list(range(-130, 258)) if tier != "quick" else [])))
        d16 = lambda: sorted(set(limits(-32768, 65535, rng, 12) + [255, 256, 257, 32767, 32768, 65534]))
        for (mn, form, mincpu) in forms:
            for cpu in (0, 1):
                if form == "none":
                    add(cpu, mn, [], "", "fixed")
                    if cpu == 0:
                        add(cpu, mn, [1], "1", "argcnt")
                elif form == "r8":
                    for r in range(0, 10):
                        add(cpu, mn, [r], cls.r8(rng, r), "r8")
                    add(cpu, mn, [], "", "argcnt")
                elif form == "mov":
                    for d in range(0, 9):
                        for s_ in range(0, 9):
                            add(cpu, mn, [d, s_], "%s,%s" % (cls.r8(rng, d), cls.r8(rng, s_)), "mov")
                elif form == "mvi":
                    for r in range(0, 9):
                        for v in (d8() if r in (0, 6, 7) else limits(-128, 255, rng, 3, wide=False)):
                            add(cpu, mn, [r, v], "%s,%s" % (cls.r8(rng, r), N(rng, v)), "mvi")
                elif form == "lxi":
                    for r in range(0, 5):
                        for v in d16():
                            add(cpu, mn, [r, v], "%s,%s" % (cls.rp(rng, r), N(rng, v)), "lxi")
                elif form == "rpBDH":
                    for r in range(0, 5):
                        add(cpu, mn, [r], cls.rp(rng, r), "ldax-stax")
                elif form == "rp":
                    psw = mn in ("PUSH", "POP")
                    for r in range(0, 6):
                        add(cpu, mn, [r], cls.rp(rng, r, psw), "rp")
                elif form == "imm8":
                    for v in d8():
                        add(cpu, mn, [v], N(rng, v), "imm8")
                    add(cpu, mn, [1, 2], "1,2", "argcnt")
                elif form == "port":
                    for v in sorted(set(limits(0, 255, rng, 10) + [-128, 127, 128])):
                        add(cpu, mn, [v], N(rng, v), "port")
                elif form == "addr16":
                    for v in d16():
                        add(cpu, mn, [v], N(rng, v), "addr16")
                    add(cpu, mn, [], "", "argcnt")
                elif form == "rst":
                    for v in limits(0, 7, rng, 4):
                        add(cpu, mn, [v], N(rng, v), "rst")
                else:
                    raise AssertionError("8080: unknown operand form %s of the spec" % form)
        if tier != "quick":
            # every 16-bit operand for a few representative instructions
            for mn, pre, extra in (("JMP", "", []), ("LXI", "H,", [2]), ("CALL", "", []), ("STA", "", []), ("CP", "", [])):
                for v in range(-32770, 65540, 1):
                    out.append(Case("8080", 0, 0x100, mn, extra + [v], "\t%s %s%d" % (mn, pre, v), "addr16-all-values"))
        return out

    @staticmethod
    def sig(case, kv):
        return None


TARGETS = {"4004": T4004, "8080": T8080}
ALL_PROPERTY_TARGETS = ["4004", "8080", "6502", "pic16c8x", "msp430", "avr", "z80"]


def load_plugins():
    """Further targets live in vlib/props/c14t_<name>.py: `T` (a class with the attributes of T4004: name, cpus, sentinel, gran,
    header, org, sent, sent_bytes, cases, sig) and `GENERATED` (tables of translate/tables.py the target's Lean files need).
    They may import Case, limits, num_intel, num_moto from this module."""
    import importlib
    import pkgutil
    from .. import props as _pkg
    for m in sorted(pkgutil.iter_modules(_pkg.__path__), key=lambda x: x.name):
        if m.name.startswith("c14t_"):
            mod = importlib.import_module("vlib.props." + m.name)
            if mod.T.name not in TARGETS:
                TARGETS[mod.T.name] = mod.T
                for g in getattr(mod, "GENERATED", []):
                    if g not in GENERATED:
                        GENERATED.append(g)


# ----------------------------------------------------------------------------------------------
# running the real assembler

def run_asl(bdir, wd, name, lines):
    f = os.path.join(wd, name + ".asm")
    with open(f, "w") as fh:
        fh.write("\n".join(lines) + "\n")
    pf = os.path.join(wd, name + ".p")
    if os.path.exists(pf):
        os.unlink(pf)
    rc, so, se = common.run_tool(bdir, "asl", ["-q", "-n", "-i", os.path.join(common.REPO, "include"), f, "-o", pf], wd, timeout=600)
    errs, warns = {}, {}
    for line in (so + se).decode(errors="replace").split("\n"):
        m = ERR_RE.match(line)
        if m:
            errs.setdefault(int(m.group(1)), int(m.group(3)))
            continue
        m = WARN_RE.match(line)
        if m:
            warns.setdefault(int(m.group(1)), int(m.group(2)))
    data = open(pf, "rb").read() if os.path.exists(pf) else None
    return rc, errs, warns, data, (so + se).decode(errors="replace")


def observe(T, bdir, wd, cpuname, cases, stats):
    """fills case.real for every case: hex bytes | E<n> | none.  Returns a list of harness problems."""
    problems = []
    live = list(cases)
    for rnd in range(6):
        # one statement per case, each behind its own ORG, followed by a sentinel record
        lines = T.header(cpuname)
        owner = {}
        emitted = set()
        for k, c in enumerate(live):
            for dl in (c.defs if c.defs is not None else defs_for(c.text)):
                if dl not in emitted:        # an operand text (and its symbol) may be shared by several cases
                    emitted.add(dl)
                    lines.append(dl)
            if c.load is None:
                lines.append(T.org(c.pc))
                lines.append(c.text)
                owner[len(lines)] = c
            else:
                # the statement is loaded at c.load and runs at c.pc: everything the instruction set says about "the address of
                # the instruction" (relative distances, page rules) refers to the execution address
                lines += [T.org(c.load), "\tphase %d" % c.pc, c.text]
                owner[len(lines)] = c
                lines.append("\tdephase")
            lines.append(T.org(T.sentinel))
            lines.append(T.sent(k))
        rc, errs, warns, data, out = run_asl(bdir, wd, "t%s_%s_%d" % (T.name, cpuname, rnd), lines)
        stats["asl_runs"] += 1
        stats["asl_lines"] += len(lines)
        stray = [ln for ln in errs if ln not in owner]
        if stray:
            problems.append("error reported on a harness line (%s): %s" % (stray[:3], out[-400:]))
            return problems
        if errs:
            for ln, num in errs.items():
                owner[ln].real = "E%d" % num
            live = [c for c in live if c.real is None]
            continue
        if rc != 0 or data is None:
            problems.append("asl rc=%s without a reported error: %s" % (rc, out[-400:]))
            return problems
        recs = common.parse_pfile_py(data)
        if recs is None:
            problems.append("code file not readable")
            return problems
        recs = [r for r in recs if r[0] == "D"]
        i = 0
        for k, c in enumerate(live):
            if i >= len(recs):
                problems.append("code file ends before case %d" % k)
                return problems
            r = recs[i]
            if r[4] == T.sentinel and bytes(r[5]) == T.sent_bytes(k):
                c.real = "none"   # neither code nor error
                i += 1
                continue
            if r[4] != (c.pc if c.load is None else c.load):
                problems.append("record at %#x where the statement of case %d (pc %#x, load %s, %s) was expected" % (r[4], k, c.pc, c.load, c.text))
                return problems
            c.real = bytes(r[5]).hex()
            i += 1
            if i >= len(recs) or recs[i][4] != T.sentinel or bytes(recs[i][5]) != T.sent_bytes(k):
                problems.append("sentinel %d missing after %s" % (k, c.text))
                return problems
            i += 1
        for ln, num in warns.items():
            if ln in owner:
                stats["warnings"][str(num)] = stats["warnings"].get(str(num), 0) + 1
        return problems
    problems.append("statements still report errors after 6 elimination rounds")
    return problems


def run_target(T, bdir, wd, rng, tier, stats, extra_cases=()):
    forms = forms_of(T.name)
    cases = list(extra_cases) + T.cases(rng, tier, forms)
    # de-duplicate (same statement text may be generated twice)
    seen, uniq = set(), []
    for c in cases:
        k = (c.cpu, c.pc, c.mn, tuple(c.args), c.text)
        if k not in seen:
            seen.add(k)
            uniq.append(c)
    cases = uniq
    stats["cases_with_symbolic_operand_values"] = stats.get("cases_with_symbolic_operand_values", 0) + sum(1 for c in cases if _SYM_RE.search(c.text))
    # a share of the cases (and more of those with PC-relative or page-relative operands) is assembled inside a PHASE block
    REL = ("rel", "branch", "jcn", "isz", "jr", "djnz", "rjmp", "jmp", "goto", "sym")
    for c in cases:
        if c.tag.startswith("corpus"):
            continue
        p = 0.25 if any(x in c.tag for x in REL) else 0.04
        if rng.random() < p:
            ld = c.pc ^ 0x40
            if abs(ld - T.sentinel) > 8:
                c.load = ld
    problems = list(getattr(T, "pre_problems", lambda: [])())     # a plug-in's own model-vs-spec comparisons made while generating
    for cpuname, idx in T.cpus:
        sub = [c for c in cases if c.cpu == idx]
        if sub:
            problems += observe(T, bdir, wd, cpuname, sub, stats)
    return cases, forms, problems


def judge(T, cases, answers, spec_fail, corr_fail, dist):
    for c, ans in zip(cases, answers):
        kv = dict(x.split("=", 1) for x in ans.split() if "=" in x)
        d = dist.setdefault(c.tgt, dict(cases=0, assembled=0, rejected=0, silent=0, legal=0, by_tag={}, by_error={}, mnemonics={}))
        d["cases"] += 1
        d["by_tag"][c.tag] = d["by_tag"].get(c.tag, 0) + 1
        d["mnemonics"][c.mn] = d["mnemonics"].get(c.mn, 0) + 1
        if c.real.startswith("E"):
            d["rejected"] += 1
            d["by_error"][c.real] = d["by_error"].get(c.real, 0) + 1
        elif c.real == "none":
            d["silent"] += 1
        else:
            d["assembled"] += 1
        if kv.get("legal") == "1":
            d["legal"] += 1
        if "spec" not in kv:
            spec_fail.append(dict(why="driver could not judge the case: " + ans, **c.as_dict()))
            continue
        if kv["spec"] != "ok":
            why = ("assembled to bytes the instruction set does not define for this statement (decoder: %s)" % kv.get("dec", "?")
                   if not c.real.startswith("E") else "legal statement rejected (%s)" % c.real)
            if kv.get("legal") == "0" and not c.real.startswith("E"):
                why = "statement outside the instruction set was assembled instead of rejected (decoder: %s)" % kv.get("dec", "?")
            f = dict(why=why, driver=ans, **c.as_dict())
            s = T.sig(c, kv)
            if s:
                f["sig"] = s
            spec_fail.append(f)
        elif kv.get("corr") != "eq":
            corr_fail.append(dict(why="model of the code generator and real asl differ (spec holds on the real result)", driver=ans, **c.as_dict()))


def load_corpus():
    out = []
    cdir = os.path.join(common.VERIF, "corpus", "C14")
    if os.path.isdir(cdir):
        for f in sorted(os.listdir(cdir)):
            if f.endswith(".json"):
                for e in json.load(open(os.path.join(cdir, f))):
                    out.append(Case(e["target"], e["cpu"], e["pc"], e["mnemonic"], e["args"], e["source"], "corpus:" + f))
                    out[-1].defs = e.get("defs", [])
    return out


GENERATED = ["IntTypes", "Isa_Common", "Isa_4004", "Isa_8080"]


def run(args):
    load_plugins()
    only = os.environ.get("C14_ONLY")   # development aid: restrict the run to some targets (comma separated)
    if only:
        for k in [k for k in TARGETS if k not in only.split(",")]:
            del TARGETS[k]
    res = common.Result("C14", args.tier, args.seed, "proof")
    bdir, audit, proof_problems = common.standard_setup(res, "C14", GENERATED)
    if bdir is None:
        return res.finish()
    drv_ok = not any(p.startswith("driver does not build") for p in proof_problems)
    spec_fail, corr_fail, dist, samples = [], [], {}, []
    stats = dict(asl_runs=0, asl_lines=0, warnings={})
    total = 0
    distinct = set()
    if drv_ok:
        corpus = load_corpus()
        with common.Workdir("c14") as wd:
            for tname, T in TARGETS.items():
                rng = common.rng_for(args.seed, "C14/" + tname)
                cases, forms, problems = run_target(T, bdir, wd, rng, args.tier, stats, [c for c in corpus if c.tgt == tname])
                for p in problems:
                    corr_fail.append(dict(why="harness: " + p, target=tname))
                cases = [c for c in cases if c.real is not None]
                answers = common.driver("c14", [c.req() for c in cases], timeout=1800) if cases else []
                judge(T, cases, answers, spec_fail, corr_fail, dist)
                total += len(cases)
                for c in cases:
                    distinct.add(c.key())
                d = dist.setdefault(tname, dict(cases=0, mnemonics={}))
                d["spec_forms"] = len(forms)
                d["mnemonics"] = len(d["mnemonics"])
                pick = [c for c in cases if (c.tag in ("jcn", "isz", "fim", "lxi", "mvi", "goto", "branch") or c.tag in getattr(T, "sample_tags", ())) and not c.real.startswith("E")][:2] + [c for c in cases if c.real.startswith("E")][:1]
                samples += [c.as_dict() for c in pick]
    res.coverage = common.proof_coverage(audit, "C14", [
        "translate/tables.py (clang-14 JSON AST of InitFields()/code*_init()/page-check calls; errmsg.h numbers via compiled dumper)",
        "correspondence: real asl vs Model/Isa/* on generated statements (differential test)",
        "Spec/Isa/*: opcode maps written from the manufacturers' manuals as recalled by the author"])
    res.coverage.update(
        evaluations=total, distinct_nontrivial=len(distinct),
        rule="one case = (target, CPU variant, program counter, mnemonic, evaluated operand values); distinct by that tuple; every case is a full instruction statement "
             "assembled by the real asl at its own ORG; operand values: 0, field limits, limits +-1/+-2, random interior, far outside; exhaustive where noted in by_tag (*-all-targets, addr12)",
        samples=samples, distribution=dist, harness=stats,
        targets_modelled=sorted(TARGETS), targets_not_modelled=[t for t in ALL_PROPERTY_TARGETS if t not in TARGETS],
        exhaustive=False)
    res.assumptions = ["operands are literal numbers / register names or single symbols defined before use with EQU / SET / REG, also aliases of such symbols (expression evaluation is C08's subject; no forward references, no questionable symbols)",
                       "the SPEC opcode maps are the author's transcription of the manufacturers' manuals"]
    return common.conclude(res, proof_problems, spec_fail, corr_fail, total)


def replay(args):
    d = json.load(open(args.replay))
    print(json.dumps({k: (v if len(str(v)) < 2000 else str(v)[:2000] + "...") for k, v in d.items()}, indent=1))
    load_plugins()
    if "source" in d and d.get("target") in TARGETS:
        T = TARGETS[d["target"]]
        bdir = common.repo_build("hooks")
        common.lean_build(["asldrv"])
        c = Case(d["target"], d["cpu"], d["pc"], d["mnemonic"], d["args"], d["source"], "replay")
        c.load = d.get("load")
        c.defs = d.get("defs", [])
        stats = dict(asl_runs=0, asl_lines=0, warnings={})
        with common.Workdir("c14r") as wd:
            cpuname = [n for n, i in T.cpus if i == c.cpu][0]
            print("harness problems:", observe(T, bdir, wd, cpuname, [c], stats))
        print("real asl:", c.real)
        if c.real is not None:
            print("driver  :", common.driver("c14", [c.req()])[0])
    return 0
